#!/bin/bash
# usage: scan.sh <crate-dir> <out.json> <crate-name> [cargo feature args...]
# Runs the elfscan driver over the lib target of <crate-dir> with a fresh target dir.
set -euo pipefail
dir="$1"; out="$(realpath -m "$2")"; crate="$3"; shift 3
here="$(cd "$(dirname "$0")" && pwd)"
drv="$here/elfscan/target/debug/elfscan"
[ -x "$drv" ] || { echo "elfscan driver not built (run setup)"; exit 2; }
tgt="$(mktemp -d /tmp/elfscan-tgt.XXXXXX)"
trap 'rm -rf "$tgt"' EXIT
rm -f "$out"
sysroot="$(rustc +nightly --print sysroot)"
( cd "$dir" && \
  CARGO_NET_OFFLINE=true \
  LD_LIBRARY_PATH="$sysroot/lib" \
  RUSTFLAGS="-Zmir-opt-level=0 -Awarnings" \
  RUSTC_WORKSPACE_WRAPPER="$drv" \
  ELFSCAN_OUT="$out" ELFSCAN_CRATE="$crate" \
  CARGO_TARGET_DIR="$tgt" \
  cargo +nightly check --offline --lib -q "$@" ) 
[ -s "$out" ] || { echo "elfscan: fact file not produced"; exit 2; }
