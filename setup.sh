#!/bin/bash
# Build the elfscan driver (nightly, rustc_private, zero cargo dependencies). Offline.
set -euo pipefail
cd "$(dirname "$0")/elfscan"
export CARGO_NET_OFFLINE=true
cargo +nightly build --offline 2>&1 | tail -3
test -x target/debug/elfscan
echo "setup ok"
