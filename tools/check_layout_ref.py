#!/usr/bin/env python3
"""Validate ref/abi_layouts.json against the system <elf.h> at compile time only:
generates _Static_assert(sizeof/offsetof...) and runs `clang -fsyntax-only`."""
import json, os, subprocess, sys, tempfile
here = os.path.dirname(os.path.dirname(os.path.abspath(__file__)))
ref = json.load(open(os.path.join(here, "ref", "abi_layouts.json")))["structs"]
lines = ["#include <elf.h>", "#include <stddef.h>"]
n = 0
for s, d in sorted(ref.items()):
    lines.append('_Static_assert(sizeof(%s) == %d, "%s size");' % (s, d["size"], s))
    n += 1
    for f in d["fields"]:
        lines.append('_Static_assert(offsetof(%s, %s) == %d, "%s.%s offset");' % (s, f["name"], f["offset"], s, f["name"]))
        lines.append('_Static_assert(sizeof(((%s*)0)->%s) == %d, "%s.%s width");' % (s, f["name"], f["size"], s, f["name"]))
        n += 2
with tempfile.NamedTemporaryFile("w", suffix=".c", delete=False) as t:
    t.write("\n".join(lines) + "\n")
r = subprocess.run(["clang", "-fsyntax-only", t.name], capture_output=True, text=True)
os.unlink(t.name)
if r.returncode != 0:
    print(r.stderr)
    print("layout reference DISAGREES with <elf.h>")
    sys.exit(1)
print("layout reference agrees with <elf.h>: %d static assertions" % n)
