#!/usr/bin/env python3
"""Control mutants: single realistic edits of /repo that break one property while still compiling (and keeping the
239 tests green).  Each is applied to a scratch copy (mktemp, removed afterwards); the property's check must then
report a violation whose line contains the expected instance text.  Used by the thorough tier and by hand.

  controls.py run [--prop C01] [--id NAME] [--jobs N]      exit 0 iff every selected control is caught
  controls.py verify-tests [--prop C01] [--id NAME]        confirm mutants compile and the test-suite still passes
"""
import argparse, json, os, shutil, subprocess, sys, tempfile
from concurrent.futures import ThreadPoolExecutor

HERE = os.path.dirname(os.path.dirname(os.path.abspath(__file__)))
REPO = os.environ.get("VERIF_REPO", "/repo")


def load_specs():
    specs = []
    d = os.path.join(HERE, "controls")
    for f in sorted(os.listdir(d)):
        if f.endswith(".json"):
            for s in json.load(open(os.path.join(d, f))):
                specs.append(s)
    return specs


def make_scratch(full=False):
    tmp = tempfile.mkdtemp(prefix="elfctl-")
    for f in ("Cargo.toml", "Cargo.lock"):
        shutil.copy(os.path.join(REPO, f), os.path.join(tmp, f))
    shutil.copytree(os.path.join(REPO, "src"), os.path.join(tmp, "src"))
    if full:
        shutil.copytree(os.path.join(REPO, "sample-objects"), os.path.join(tmp, "sample-objects"))
    return tmp


def apply(spec, root):
    edits = spec.get("edits") or [spec]
    for e in edits:
        p = os.path.join(root, e["file"])
        s = open(p).read()
        n = s.count(e["old"])
        if n != 1 and not e.get("all"):
            return "edit does not apply (found %d occurrences in %s)" % (n, e["file"])
        s = s.replace(e["old"], e["new"]) if e.get("all") else s.replace(e["old"], e["new"], 1)
        open(p, "w").write(s)
    return None


def run_one(spec, tier="quick"):
    tmp = make_scratch()
    try:
        err = apply(spec, tmp)
        if err:
            return spec, "skipped", err
        env = dict(os.environ, VERIF_REPO=tmp)
        r = subprocess.run([sys.executable, "-m", "analyzer.runner", spec["prop"], "--repo", tmp, "--no-evidence", "--tier", tier],
                           cwd=HERE, capture_output=True, text=True, env=env)
        out = r.stdout + r.stderr
        if "elfscan failed" in out:
            return spec, "broken", "mutant does not compile: " + out[-600:]
        lines = [l for l in out.splitlines() if l.startswith(spec["prop"] + " rule=")]
        if spec.get("benign"):
            # behaviour-preserving edit: the check must stay silent
            if r.returncode == 0 and not lines:
                return spec, "silent-ok", "no alarm on a behaviour-preserving edit"
            return spec, "FALSE-ALARM", (lines[0][:300] if lines else out[-300:])
        hit = [l for l in lines if spec["expect"] in l]
        if r.returncode == 1 and hit:
            return spec, "caught", hit[0][:300]
        if r.returncode == 1:
            return spec, "caught-elsewhere", (lines[0][:300] if lines else out[-300:])
        return spec, "MISSED", out[-300:]
    finally:
        shutil.rmtree(tmp, ignore_errors=True)
        # fact files of scratch trees are garbage afterwards
        pass


def verify_tests(spec):
    tmp = make_scratch(full=True)
    try:
        err = apply(spec, tmp)
        if err:
            return spec, "skipped", err
        r = subprocess.run(["cargo", "test", "--offline", "--lib", "--no-fail-fast"], cwd=tmp, capture_output=True, text=True,
                           env=dict(os.environ, CARGO_TARGET_DIR=os.path.join(tmp, "target"), CARGO_NET_OFFLINE="true"))
        out = r.stdout + r.stderr
        res = [l for l in out.splitlines() if l.startswith("test result:")]
        if not res:
            return spec, "broken", out[-500:]
        failed = sorted(l.split()[1] for l in out.splitlines() if l.startswith("test ") and l.rstrip().endswith("FAILED"))
        base_fail = ["elf_bytes::interface_tests::shnum_and_shstrndx_in_shdr0", "elf_stream::interface_tests::shnum_and_shstrndx_in_shdr0"]
        ok = failed == base_fail and " 239 passed" in res[0]
        return spec, "tests-green" if ok else "TESTS-CHANGE", res[0] + (" extra failures: %s" % [f for f in failed if f not in base_fail] if not ok else "")
    finally:
        shutil.rmtree(tmp, ignore_errors=True)


def main():
    ap = argparse.ArgumentParser()
    ap.add_argument("cmd", choices=["run", "verify-tests", "list"])
    ap.add_argument("--prop")
    ap.add_argument("--id")
    ap.add_argument("--jobs", type=int, default=8)
    ap.add_argument("--tier", default="quick")
    a = ap.parse_args()
    specs = [s for s in load_specs() if (not a.prop or s["prop"] == a.prop) and (not a.id or s["id"] == a.id)]
    if a.cmd == "list":
        for s in specs:
            print(s["prop"], s["id"], "-", s.get("note", ""))
        return 0
    fn = run_one if a.cmd == "run" else verify_tests
    bad = 0
    with ThreadPoolExecutor(max_workers=a.jobs) as ex:
        for spec, status, msg in ex.map(fn, specs):
            print("%-4s %-34s %-16s %s" % (spec["prop"], spec["id"], status, msg.replace("\n", " ")[:260]))
            if status in ("MISSED", "broken", "TESTS-CHANGE", "FALSE-ALARM"):
                bad += 1
    print("%d controls, %d not ok" % (len(specs), bad))
    return 1 if bad else 0


if __name__ == "__main__":
    sys.exit(main())
