#!/usr/bin/env python3
"""Regenerates the two generated tables of DESIGN.md section 10 from seeded/*/meta.json and benign/*/meta.json."""
import os, re, subprocess, sys
here = os.path.dirname(os.path.dirname(os.path.abspath(__file__)))
out = subprocess.run([sys.executable, os.path.join(here, "tools", "catch_table.py")], capture_output=True, text=True).stdout
parts = out.split("\n\n")
seed = parts[0].strip()
ben = parts[1].strip() if len(parts) > 1 else ""
p = os.path.join(here, "DESIGN.md")
s = open(p).read()
s = re.sub(r"<!-- SEED_TABLE_BEGIN -->.*?<!-- SEED_TABLE_END -->", lambda m: "<!-- SEED_TABLE_BEGIN -->\n" + seed + "\n<!-- SEED_TABLE_END -->", s, flags=re.S)
s = re.sub(r"<!-- BENIGN_TABLE_BEGIN -->.*?<!-- BENIGN_TABLE_END -->", lambda m: "<!-- BENIGN_TABLE_BEGIN -->\n" + ben + "\n<!-- BENIGN_TABLE_END -->", s, flags=re.S)
open(p, "w").write(s)
print("DESIGN.md tables updated: %d seed rows, %d benign rows" % (seed.count("\n") - 1, max(0, ben.count("\n") - 1)))
