#!/usr/bin/env python3
"""Behaviour-preserving refactorings written by independent sub-agents (they saw only the text of one property and were asked
for realistic maintenance edits of the anchored code that keep the property true).  Every alarm any check raises on one of them is
a false alarm to be corrected in the machinery (or, if the refactoring turns out not to be behaviour-preserving, the refactoring is
dropped and the reason recorded).

  benign.py ingest <srcdir> <PROP>      copy <srcdir>/benignN.{diff,_notes.txt} to /verif/benign/<PROP>-bN/
  benign.py verify [<id>..]             confirm in a scratch copy: applies, builds in 4 feature sets, unit tests unchanged (239 pass, 2 expected failures)
  benign.py run [<id>..] [--props=..]   apply to a scratch copy and run ALL checks; exit 1 if any check raises an alarm
"""
import json, os, shutil, subprocess, sys, glob
from concurrent.futures import ThreadPoolExecutor

sys.path.insert(0, os.path.dirname(os.path.abspath(__file__)))
import seeded as S

HERE = S.HERE
BENIGN = os.path.join(HERE, "benign")
ALL = S.ALL


def ingest(src, prop, offset=0):
    for d in sorted(glob.glob(os.path.join(src, "benign*.diff"))):
        i = os.path.basename(d)[6:-5]
        bid = "%s-b%s" % (prop, int(i) + offset if i.isdigit() else i)
        dst = os.path.join(BENIGN, bid)
        os.makedirs(dst, exist_ok=True)
        shutil.copy(d, os.path.join(dst, "patch.diff"))
        n = os.path.join(src, "benign%s_notes.txt" % i)
        if os.path.exists(n):
            shutil.copy(n, os.path.join(dst, "notes.txt"))
        mp = os.path.join(dst, "meta.json")
        if not os.path.exists(mp):
            json.dump({"id": bid, "property": prop, "kind": "behaviour-preserving refactoring",
                       "source": "independent sub-agent given only the text of %s and a scratch worktree" % prop,
                       "verified": None, "alarms": None, "disposition": ""}, open(mp, "w"), indent=1)
        print("ingested", bid)


def verify(bid):
    d = os.path.join(BENIGN, bid)
    meta = json.load(open(os.path.join(d, "meta.json")))
    tmp = S.scratch(True)
    res = {}
    try:
        ok, msg = S.apply_patch(tmp, os.path.join(d, "patch.diff"))
        res["applies"] = ok
        if ok:
            rc, out = S.cargo(tmp, "test", "--offline", "--lib", "--no-fail-fast")
            line = [l for l in out.splitlines() if l.startswith("test result:")]
            failed = sorted(l.split()[1] for l in out.splitlines() if l.startswith("test ") and l.rstrip().endswith("FAILED"))
            res["unit_tests"] = line[0] if line else out[-300:]
            res["unit_tests_unchanged"] = bool(line) and " 239 passed" in line[0] and failed == S.BASE_FAIL
            for feats in ([], ["--no-default-features"], ["--no-default-features", "--features", "to_str"], ["--no-default-features", "--features", "alloc"]):
                rc, out = S.cargo(tmp, "check", "--offline", "--lib", "-q", *feats)
                res["builds " + (" ".join(feats) or "default")] = rc == 0
        res["confirmed"] = bool(res.get("applies") and res.get("unit_tests_unchanged") and all(v for k, v in res.items() if k.startswith("builds")))
    finally:
        shutil.rmtree(tmp, ignore_errors=True)
    meta["verified"] = res
    json.dump(meta, open(os.path.join(d, "meta.json"), "w"), indent=1)
    return bid, res


def run_checks(bid, props):
    d = os.path.join(BENIGN, bid)
    tmp = S.scratch(False)
    hits = {}
    try:
        ok, msg = S.apply_patch(tmp, os.path.join(d, "patch.diff"))
        if not ok:
            return bid, {"error": ["patch does not apply: " + msg[-200:]]}
        r = subprocess.run([sys.executable, "-m", "analyzer.runner", ",".join(props), "--repo", tmp, "--no-evidence"], cwd=HERE, capture_output=True, text=True,
                           env=dict(os.environ, VERIF_REPO=tmp))
        out = r.stdout + r.stderr
        if "elfscan failed" in out:
            hits = {p: ["<does not compile>"] for p in props[:1]}
        else:
            for p in props:
                lines = [l for l in out.splitlines() if l.startswith(p + " rule=")]
                summ = [l for l in out.splitlines() if l.startswith(p + " tier=") or l.startswith(p + " ERROR")]
                bad = (not summ) or ("ERROR" in summ[0]) or (" violations=0 " not in summ[0] + " ")
                if bad:
                    hits[p] = [l[:400] for l in lines[:4]] or [(summ[0] if summ else "no summary line: " + out[-300:])[:400]]
    finally:
        shutil.rmtree(tmp, ignore_errors=True)
    meta = json.load(open(os.path.join(d, "meta.json")))
    meta["alarms"] = hits
    json.dump(meta, open(os.path.join(d, "meta.json"), "w"), indent=1)
    return bid, hits


def main():
    cmd = sys.argv[1]
    if cmd == "ingest":
        return ingest(sys.argv[2], sys.argv[3], int(sys.argv[4]) if len(sys.argv) > 4 else 0)
    ids = sorted(i for i in os.listdir(BENIGN) if os.path.isdir(os.path.join(BENIGN, i))) if os.path.isdir(BENIGN) else []
    args = [a for a in sys.argv[2:] if not a.startswith("--")]
    if args:
        ids = [i for i in ids if i in args or any(i.startswith(a) for a in args)]
    props = ALL
    for a in sys.argv[2:]:
        if a.startswith("--props"):
            props = a.split("=", 1)[1].split(",")
    if cmd == "verify":
        with ThreadPoolExecutor(max_workers=6) as ex:
            for bid, res in ex.map(verify, ids):
                print(bid, "CONFIRMED" if res.get("confirmed") else "NOT CONFIRMED", res)
    elif cmd == "run":
        bad = 0
        with ThreadPoolExecutor(max_workers=5) as ex:
            for bid, hits in ex.map(lambda s: run_checks(s, props), ids):
                dispo = json.load(open(os.path.join(BENIGN, bid, "meta.json"))).get("disposition", "")
                dropped = dispo.startswith("dropped")
                print("%-10s %s %s" % (bid, "silent" if not hits else ("ALARM(dropped)" if dropped else "ALARM"), ",".join(sorted(hits))))
                for p, ls in sorted(hits.items()):
                    for l in ls[:2]:
                        print("       " + l[:300])
                if hits and not dropped:
                    bad += 1
        print("%d refactorings, %d with alarms" % (len(ids), bad))
        sys.exit(1 if bad else 0)


if __name__ == "__main__":
    main()
