# Claim table (exec'd by gen_manifest.py).  Keep in step with DESIGN.md section 9.
claim("C19", "proof", "table comparison over the type-checked program (const-eval values, layout_of, HIR match arms) against ABI reference tables",
      "Exhaustive comparison of every exported abi constant, every #[repr(C)] struct layout and every *_to_str arm with the reference; "
      "a finite table compared completely, so obligations == discharged is the whole property relative to the references.",
      "Trusted: glibc <elf.h> + LLVM-14 BinaryFormat headers as the ABI reference (names on which they disagree are excluded and listed), "
      "rustc const evaluation / layout computation. 55-60 constants exist in neither reference and are listed as unchecked.",
      "DESIGN.md 5/C19")

claim("C01", "proof", "panic-site census over MIR (Assert terminators, partial/unclassified callees, destructors, recursion) with discharge by value numbering + dominating-guard facts",
      "Every way the slice parser can panic is one of the enumerated MIR sites; each is discharged by a generic, pointer-width-agnostic rule or reported. "
      "obligations == discharged means no feasible panic site remains, for all inputs and arguments, in every feature configuration (thorough tier).",
      "Trusted: rustc inserts an Assert for every trapping operation; core callees classified total in analyzer/callees.py do not panic; "
      "usize is 32 or 64 bits. User impls of EndianParse/ParseAt are out of scope. Non-termination is C16.",
      "DESIGN.md 5/C01")

claim("C04", "proof", "template rule over value-numbered outcomes of the six EndianParse read methods; exact evaluation of is_little; impl-table and alias facts",
      "Each read method is expanded into its outcomes (per path condition); the success outcomes must be exactly from_le/from_be_bytes of data[off..off+SIZE] "
      "selected by is_little, the offset is stored only there and equals off+SIZE, every error outcome leaves it untouched. All six methods x all outcomes are checked, "
      "so the property holds for every buffer/offset modulo the trusted semantics of four core functions.",
      "Trusted: <[u8]>::get, TryInto<[u8;N]>, checked_add, from_{le,be}_bytes. Out-of-crate EndianParse impls that override read methods are out of scope.",
      "DESIGN.md 5/C04")
claim("C06", "proof", "effect analysis over the resolved call graph (callee-defining crate, ADT-defining crate of every local) + feature-matrix type-check + dependency facts",
      "Every function reachable from the slice-parser API may only call into `core` (which has no allocator) and hold `core`/own types, in the default and in the no-features "
      "configuration (all distinct configurations in the thorough tier); all 8 feature subsets type-check; without features the crate graph is {core, compiler_builtins}.",
      "Trusted: `core` does not allocate; rustc's callee resolution. Debug/Display/Error impls and the stream parser are excluded roots (listed in evidence). User trait impls out of scope.",
      "DESIGN.md 5/C06")
claim("C10", "proof", "exact switch-structure evaluation of from_ei_data over the u8 domain; outcome provenance of verify_ident/parse_ident; call-site provenance in both parsers",
      "Accepted EI_DATA sets, result variants and error payloads of the three specs are computed exactly from the MIR switch structure (whole u8 domain, symbolically); "
      "every outcome of verify_ident/parse_ident is matched to its guard and payload bytes; both parsers pass file bytes [0,16) to parse_ident::<E> with the handle's E.",
      "Trusted: slice equality/indexing in core. 'AnyEndian behaves as the fixed spec afterwards' rests on C04 (no overridden read method, is_little agrees).",
      "DESIGN.md 5/C10")

claim("C08", "proof", "panic-site census over elf_stream + typestate (load-before-get) rule + allocation-guard dominance + read-site provenance",
      "(a) every panic site of the stream parser is discharged, the single `expect` by a typestate argument checked at all 8 get_bytes call sites "
      "(incl. data-dependent branches via phi selection); (b) every sized allocation is dominated by the `end <= stream_len` guard or consumes an "
      "already length-checked buffer; (c) Read/Seek are only touched in CachingReader::{new,load_bytes} and every read site's range is either one of "
      "the five opening reads or exactly one header's designated range.",
      "Trusted: as C01; std collection methods listed in rules/c08.py allocate as documented; an allocation <= stream length succeeds. "
      "The numeric constant of the bound is not computed (each sized allocation <= stream length; collected tables <= 64/40 x buffer).",
      "DESIGN.md 5/C08")
claim("C17", "proof", "error-discipline rule over outcomes (every I/O Result tested on all paths, Err outcomes return that error), dominance ordering of cache insert, writer census of long-lived state",
      "All 3 Read/Seek call sites and all 29 call sites of I/O-performing in-crate functions propagate the error on every path (outcome expansion per path condition); "
      "the cache insert is dominated by the success edges of seek and read_exact and inserts the buffer that was read; every read is preceded by an absolute seek, "
      "so a failed call leaves no state that changes a later answer; ehdr/shdrs/phdrs/stream_len are written only while opening.",
      "Trusted: std's read_exact semantics (Err on early EOF, retries Interrupted). Panic-freedom on error paths is C08(a).",
      "DESIGN.md 5/C17")

claim("C02", "proof", "class-specialised value numbering of every decoder + bit-provenance normal form compared with a gABI reference table; exhaustive evaluation of derived accessors over their domain",
      "For all 19 decoders x both classes the single success outcome is computed symbolically; each field's bits are shown to be exactly the ABI's bits of the ABI's read "
      "(zero/sign extension, shifts and masks included), the reads tile [0, size), the cursor advances by the ABI size = size_for(class), and every error outcome is a "
      "propagated read error. Decoders are straight-line, so this covers all field values; byte order is delegated to C04 (re-checked as a premise).",
      "Trusted: ref/decode_reference.json (hand-written from the specifications); C04's read template. Derived accessors are evaluated on all 2^8 / 2^16 inputs of the term, not of the crate's code.",
      "DESIGN.md 5/C02")

claim("C16", "proof", "ranking-argument rule over natural loops and iterator bodies (acyclic path enumeration + monotone-cursor order reasoning), call-graph acyclicity",
      "Every cycle of the slice parser has a ranking argument: no recursion; each of the 9 loops is a for over a bounded iterator or a counter loop with an invariant bound; "
      "each of the 7 in-crate Iterator::next bodies is loop-free and on every yielding path a cursor strictly increases through a successful bounded parse, or the declared "
      "count strictly decreases (and the offset strictly increases while it stays non-zero). Hence at most len(data) items, resp. at most `count` records.",
      "Trusted: core slice/range iterators and Iterator::find/position terminate; C02/C04 (a successful parse consumes >= 1 byte and fails at the end of the buffer). "
      "The wall-clock clause ('seconds') is not decided.",
      "DESIGN.md 5/C16")

claim("C09", "other", "term-template rule on the ParsingTable / ParsingIterator methods (acyclic path enumeration), alias and immutability facts",
      "Decides the premises from which coherence of len/get/iter/is_empty follows by a three-line arithmetic argument spelled out in the evidence: "
      "len = bytes/size_for, is_empty = (len == 0), get(i) = parse_at at checked i*size_for returned unchanged behind redundant guards only, "
      "iter/into_iter start at 0 over the same bytes, next = parse_at(&mut offset).ok() with the offset advancing by exactly one entry.",
      "Partial: the arithmetic theorem itself is a paper argument, not machine-checked. Trusted: C02 (each parse consumes exactly size_for(class) >= 1 bytes).",
      "DESIGN.md 5/C09")

claim("C05", "proof", "provenance normal forms of all success outcomes (value origin with error plumbing stripped) + guard facts, compared with the gABI table-location rule; must-pass-through for validate_entsize",
      "For find_shdrs/find_phdrs, their stream counterparts and section_headers_with_strtab (both parsers) every success outcome is enumerated with its guard: the table is "
      "data[off .. off + validated_entsize * count] with count = header field, or shdr[0].sh_size / sh_info exactly under the escape value, absent exactly when the offset is 0; "
      "the string-table index is e_shstrndx or shdr[0].sh_link exactly under SHN_XINDEX. validate_entsize::<T> succeeds on every table-yielding path at the 9 confirmed instances.",
      "Trusted: C02 (field decoding), C19 (escape constants), value-preservation of checked_mul/checked_add/try_into on success. The 9 entsize instances are a frozen, read-confirmed table (DESIGN.md appendix C).",
      "DESIGN.md 5/C05")

claim("C03", "proof", "provenance normal forms of the success outcomes of the range helpers, section_data / segment_data / get_bytes and the typed views + guard facts + signature lifetimes",
      "Every byte slice handed out by the slice parser is, by value origin, exactly data[offset .. offset+size] of the designating header (its remainder after the parsed "
      "compression header, or empty for SHT_NOBITS), built only from try_into / checked_add / field moves; a range that does not fit is an error because get() is the only slicing "
      "primitive. Return types carry 'data, so with C06 the bytes are borrowed from the caller's buffer, never copied.",
      "Trusted: C06; value-preservation of try_into/checked_add on success; semantics of <[u8]>::get. String-table entries and note name/descriptor ranges are C15 / C14.",
      "DESIGN.md 5/C03")

claim("C18", "proof", "interprocedural non-interference (taint) rule: uses of the file buffer and of the measured stream length are classified; length observers may only feed error-only guards",
      "The file buffer is followed from minimal_parse through every function it is handed to and through ElfBytes.data in every accessor; each of its ~260 uses is an exact "
      "closed-range get, a bounded parse or a move. len()/is_empty()/open ranges/iteration/indexing on it, and stream_len, are allowed only in a comparison one of whose outcomes "
      "is error-only. Hence a query that succeeds on a prefix performed only in-bounds exact reads and computes the same answer on the full file (argument in the evidence).",
      "Trusted: <[u8]>::get(a..b) is exact; bounded parses read only through get (C04). Sub-buffers have header-designated extents and are not length-tainted.",
      "DESIGN.md 5/C18")

claim("C15", "other", "term template over the outcomes of StringTable::get_raw / get and the body of the search predicate (idiom-bound)",
      "Decides that get_raw(off) returns the tail data.get(off..) with the unmodified offset, cut at the unmodified result of a first-match search whose predicate is byte == 0, "
      "that a miss is StringTableMissingNul and an out-of-range offset BadOffset, and that get is from_utf8 over it with both errors propagated. The property then follows from the "
      "documented semantics of get/position/split_at/from_utf8.",
      "Partial / idiom-bound: implementations outside the recognised idioms (memchr, manual loops) are reported as UNRECOGNISED, not judged. Trusted: the four core functions.",
      "DESIGN.md 5/C15")

claim("C14", "other", "provenance templates over the acyclic paths of Note::parse_at, NoteIterator::{new,next}, NoteAny::name_str and the NoteIterator::new call sites of both parsers",
      "On every success path: header parsed as three 32-bit words (Class::ELF32) with the note's endian; name and descriptor are exactly data[hdr_end..+namesz] and "
      "data[pad(name_end)..+descsz]; the cursor ends at pad(desc_end); pad is a recognised align-up idiom guarded by x % align > 0; align 0 is an error; typed variants are produced "
      "exactly under name == GNU\\0 and the two n_type constants with the same descriptor bytes; the iterator feeds its own fields and stops at the first failure; both parsers "
      "pass the file's endianness/class and sh_addralign / p_align.",
      "Partial: the numeric correctness of the padding expression for every residue is not evaluated (idiom recognised). Trusted: C02 (header/ABI-tag decoding), C03 (buffer), core slice-pattern matching.",
      "DESIGN.md 5/C14")

claim("C13", "other", "provenance normal forms of the record-yielding outcomes of both queries, of the items/advances of the four record iterators and of the constructor call sites in both parsers",
      "Linkage provenance (necessary conditions): the requirement/definition fields come from the records the ABI names (file/name via the paired string table, hash, flags, hidden = bit 15) "
      "exactly under vna_other / vd_ndx == versym & 0x7fff, the aux record is drawn from the aux iterator yielded with that record, iterators start aux lists at record start + *_aux with "
      "*_cnt entries and advance by *_next, both parsers wire sh_info / offset 0 / shdrs[sh_link] and pair the three SHT_GNU_VER* sections with the right constructors, and a record is "
      "only returned after version_ids.get(sym_idx) succeeded.",
      "Partial: resolution over arbitrary record graphs as a whole is behavioural and not decided. Trusted: C02 (record decoding, index/is_hidden), C15 (string lookup), C16 (termination).",
      "DESIGN.md 5/C13")

claim("C11", "other", "dominance/fact rule on the symbol-yielding outcomes; provenance normal forms of the lookup guards and of the section layout; ring-normal-form (Z/2^32) template of the hash step",
      "Soundness for any table bytes (returned symbol is symtab[returned index] and its name compared equal on that path); the lookup uses the GNU format's linkage "
      "(class-sized bloom words, both bloom bits on the same word, bucket, chain start = bucket - symoffset, hash|1 comparison, stop bit, index = chain index + symoffset, section "
      "layout of GnuHashTable::new); gnu_hash is seed 5381, h*33 + zero-extended byte mod 2^32 over the name bytes in order.",
      "Partial: completeness on well-formed tables as a whole is behavioural and not decided. Trusted: C02, C09, C15, C16; slice equality in core.",
      "DESIGN.md 5/C11")
claim("C12", "other", "dominance/fact rule on the symbol-yielding outcomes; provenance of the chain walk and of the section layout; ring-normal-form template of the linear part of the hash step",
      "Soundness for any table bytes; the lookup starts at buckets[hash % nbucket], follows chains[index], stops on index 0, returns None early exactly for an empty bucket array; "
      "SysVHashTable::new places buckets and chains after the 8-byte header; sysv_hash is the folded gABI elf_hash (h = h*16 + c; h ^= (h >> 24) & 0xf0; result & 0x0fffffff).",
      "Partial: completeness as a whole not decided; a hash written in a non-enumerated form is reported UNRECOGNISED rather than judged. Trusted: C02, C09, C15, C16.",
      "DESIGN.md 5/C12")

claim("C20", "other", "guard/outcome pairing on the typed views of both parsers, call-site provenance of find_common_data's arms vs the targeted accessors, closure-body templates for the searches",
      "Pairing rules (necessary conditions for agreement): each typed view is refused with the right error exactly when the type differs from the constant paired with the view it builds; "
      "find_common_data's arms call, under sh_type == K, the same helper with the same argument provenance as the accessor that searches for K and store the result in the field of that kind; "
      "the PT_DYNAMIC fallback is built identically in both places; section_header_by_name is a first-match search on string equality with strtab.get(sh_name), false on unreadable names.",
      "Partial: equality of the results as values is behavioural and not decided. Trusted: C03, C19; the property's 'at most one section of each kind' quantifier.",
      "DESIGN.md 5/C20")

claim("C07", "other", "who-may-call / typestate rules on the stream cache, dominance rule on load_bytes, canonicalised provenance comparison of the slice / stream accessor pairs",
      "Three structural necessary conditions of equivalence: (1) the cache is keyed by (start, end) of the request at every access, only load_bytes inserts, only open_stream clears, "
      "every get_bytes follows a successful load of exactly that range; (2) every read is read_exact of range.len() bytes after a successful absolute seek to range.start; (3) 11 accessor pairs "
      "have equal success outcomes (and, for section_data, equal guards) after mapping both parsers to a common vocabulary (FILE ranges, SHDR_AT, FIRST-of-type), modulo a frozen, read-confirmed "
      "list of permitted differences recorded in the evidence.",
      "Partial by nature: observational equivalence over all inputs x accessor histories x legal Read+Seek behaviours is behavioural and NOT decided. Trusted: std's read_exact; C03/C05/C13/C20 for per-parser clauses.",
      "DESIGN.md 5/C07")

for pid in ["C01", "C02", "C03", "C04", "C05", "C06", "C07", "C08", "C09", "C10", "C11", "C12", "C13", "C14", "C15", "C16", "C17", "C18", "C20"]:
    if pid not in CLAIMS:
        na(pid, "static rule designed (DESIGN.md section 5) but its checker is not built yet in this revision; not claimed until it runs silent on the tree and fires on control mutants")

# completeness clauses added after rounds 6/7 (DESIGN.md 10.9): for each "when X, the answer is Y" rule, the decisions that lead to the
# weaker answer (an early None, an error, an absent table, a skipped arm) are enumerated and each must be one the property names
EXTRA = {
    "C04": " Every error outcome carries one of the three causes (offset + width overflows, the buffer has no such range, slice-to-array conversion): reads that fit are not refused.",
    "C05": " Completeness: no failure outcome of the four table locators is reachable with the offset field 0 (an absent table is never refused); `no string table` is answered only for e_shstrndx == SHN_UNDEF or absent section headers; every in-crate caller of the nine validating functions propagates their failure (12 call sites).",
    "C07": " C13's wiring rule is run for the symbol_version_table pair (same sections, chosen the same way, in both parsers).",
    "C09": " C02's decode-size rule (every in-crate ParseAt advances the cursor by size_for(class) on success) is run as part of this check.",
    "C11": " Completeness: every decision ahead of the chain walk that by-passes it is one of the enumerated reasons (no buckets, no bloom words, a clear bloom bit, bucket below symoffset) or a failed read; every trip round the walk compares the entry's name unless its hash differs; the constructor refuses bytes only because the declared layout does not fit.",
    "C12": " Completeness: the chain walk is by-passed only for an empty bucket array or a failed read; every trip round the walk compares the entry's name; the constructor refuses bytes only because the declared layout does not fit.",
    "C13": " Completeness: Ok(None) of the two queries only for `table absent` / `search exhausted`; the builders by-pass the construction only for no section headers / no VERSYM section / a failed read; each record iterator ends only on a used-up count, empty data or an undecodable record; every in-crate iterator of the module defines next() only.",
    "C14": " Completeness: Note::parse_at refuses a record only because its header / typed content cannot be read, a size does not convert or overflows, a range lies outside the data, or align == 0; NoteIterator defines next() only.",
    "C15": " Completeness: BadOffset only on paths whose facts imply that the offset lies outside the table.",
    "C18": " The I/O-protocol ordering rule (nothing is cached before the range check and the read succeeded) is run for the stream parser, so a refused read leaves no buffer a later query could answer from.",
    "C20": " Completeness: each arm of the one-pass discovery is taken on sh_type alone (no further condition on the header); the by-name search is by-passed only on what section_headers_with_strtab() returned.",
}
# premises that are run, not cited (DESIGN.md 10.9, round 8): the relevant rules of the named property are evaluated as part of the check
PREMISES = {
    "C03": " Run as premises: C02's decode rules (the header fields that designate ranges are the file's fields), C15's string rule, C14's note rule.",
    "C05": " Run as premises: C02's decode rules (FileHeader / SectionHeader fields are the file's fields); for the stream parser the cache protocol and load-before-get (a read returns the requested range). A refusal for a wrong entry size is accepted only for this table's entry size against this table's entry type.",
    "C08": " Run as premise: C01's census for the decoding code the stream parser shares with the slice parser.",
    "C10": " Run as premises: C04 (all specs share the provided read methods; is_little per variant) and, for the stream parser, the I/O protocol.",
    "C11": " Run as premises: C02's decode rules, C09's table / iterator rules, C15's string rule.",
    "C12": " Run as premises: C02's decode rules, C09's table / iterator rules, C15's string rule.",
    "C16": " Every in-crate constructor of a counted iterator stores its count argument unchanged; every in-crate iterator defines next() only.",
    "C17": " Any field written through self holds its entry value on every error path of the writing function (path-exact), not only the five long-lived fields.",
    "C20": " Run as premises: C05's shstrndx rule (by-name lookup reads names through the designated table) and C09's iterator / table rules (the entry iterators behind the typed views).",
}
for _pid, _txt in PREMISES.items():
    EXTRA[_pid] = EXTRA.get(_pid, "") + _txt
for _pid, _txt in EXTRA.items():
    if _pid in CLAIMS:
        _c = CLAIMS[_pid]
        CLAIMS[_pid] = (_c[0], _c[1], _c[2] + _txt, _c[3], _c[4])
