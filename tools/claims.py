# Claim table (exec'd by gen_manifest.py).  Keep in step with DESIGN.md section 9.
claim("C19", "proof", "table comparison over the type-checked program (const-eval values, layout_of, HIR match arms) against ABI reference tables",
      "Exhaustive comparison of every exported abi constant, every #[repr(C)] struct layout and every *_to_str arm with the reference; "
      "a finite table compared completely, so obligations == discharged is the whole property relative to the references.",
      "Trusted: glibc <elf.h> + LLVM-14 BinaryFormat headers as the ABI reference (names on which they disagree are excluded and listed), "
      "rustc const evaluation / layout computation. 55-60 constants exist in neither reference and are listed as unchecked.",
      "DESIGN.md 5/C19")

claim("C01", "proof", "panic-site census over MIR (Assert terminators, partial/unclassified callees, destructors, recursion) with discharge by value numbering + dominating-guard facts",
      "Every way the slice parser can panic is one of the enumerated MIR sites; each is discharged by a generic, pointer-width-agnostic rule or reported. "
      "obligations == discharged means no feasible panic site remains, for all inputs and arguments, in every feature configuration (thorough tier).",
      "Trusted: rustc inserts an Assert for every trapping operation; core callees classified total in analyzer/callees.py do not panic; "
      "usize is 32 or 64 bits. User impls of EndianParse/ParseAt are out of scope. Non-termination is C16.",
      "DESIGN.md 5/C01")

for pid in ["C01", "C02", "C03", "C04", "C05", "C06", "C07", "C08", "C09", "C10", "C11", "C12", "C13", "C14", "C15", "C16", "C17", "C18", "C20"]:
    if pid not in CLAIMS:
        na(pid, "static rule designed (DESIGN.md section 5) but its checker is not built yet in this revision; not claimed until it runs silent on the tree and fires on control mutants")
