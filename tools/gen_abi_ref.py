#!/usr/bin/env python3
"""Derive ref/abi_constants.json from the installed ABI headers (compile-time data only):
   glibc  /usr/include/elf.h            (#define NAME expr)
   LLVM14 /usr/include/llvm-14/llvm/BinaryFormat/ELF.h  (enum NAME = expr,)
          ELFRelocs/*.def  (ELF_RELOC(NAME, val)),  DynamicTags.def (X_DYNAMIC_TAG(NAME, val) -> DT_NAME)
Usage: gen_abi_ref.py [--check ref/abi_constants.json]   (prints JSON to stdout otherwise)
"""
import ast, glob, json, os, re, sys

GLIBC = "/usr/include/elf.h"
LLVM = "/usr/include/llvm-14/llvm/BinaryFormat"


def strip_comments(s):
    s = re.sub(r"/\*.*?\*/", " ", s, flags=re.S)
    s = re.sub(r"//[^\n]*", " ", s)
    return s


def ev(expr, env):
    """evaluate a C integer constant expression over already-known names; None if not possible"""
    e = expr.strip()
    e = re.sub(r"\b(0[xX][0-9a-fA-F]+|\d+)[uUlL]+\b", r"\1", e)
    e = re.sub(r"\(\s*(unsigned|int|long|Elf\d+_\w+|uint\d+_t|char)[\w\s]*\)", "", e)  # casts
    if re.search(r"\b0[0-7]+\b", e):  # octal literals
        e = re.sub(r"\b0([0-7]+)\b", r"0o\1", e)
    if "'" in e or '"' in e:
        return None
    try:
        tree = ast.parse(e, mode="eval")
    except SyntaxError:
        return None

    def go(n):
        if isinstance(n, ast.Expression):
            return go(n.body)
        if isinstance(n, ast.Constant) and isinstance(n.value, int):
            return n.value
        if isinstance(n, ast.Name):
            if n.id in env and env[n.id] is not None:
                return env[n.id]
            raise KeyError(n.id)
        if isinstance(n, ast.UnaryOp):
            v = go(n.operand)
            if isinstance(n.op, ast.USub):
                return -v
            if isinstance(n.op, ast.Invert):
                return ~v
            if isinstance(n.op, ast.UAdd):
                return v
        if isinstance(n, ast.BinOp):
            a, b = go(n.left), go(n.right)
            ops = {ast.Add: lambda: a + b, ast.Sub: lambda: a - b, ast.Mult: lambda: a * b,
                   ast.LShift: lambda: a << b, ast.RShift: lambda: a >> b, ast.BitOr: lambda: a | b,
                   ast.BitAnd: lambda: a & b, ast.BitXor: lambda: a ^ b, ast.FloorDiv: lambda: a // b,
                   ast.Div: lambda: a // b}
            for k, f in ops.items():
                if isinstance(n.op, k):
                    return f()
        raise ValueError(ast.dump(n))

    try:
        return go(tree)
    except (KeyError, ValueError, ZeroDivisionError):
        return None


def parse_glibc():
    src = strip_comments(open(GLIBC).read()).replace("\\\n", " ")
    raw = {}
    order = []
    for m in re.finditer(r"^[ \t]*#[ \t]*define[ \t]+([A-Za-z_]\w*)(\(?)[ \t]*(.*)$", src, flags=re.M):
        name, paren, rest = m.group(1), m.group(2), m.group(3)
        if paren == "(" and src[m.start(2) - 0] == "(" and m.group(0).split(name, 1)[1].startswith("("):
            continue  # function-like macro
        if not rest.strip():
            continue
        if name in raw and raw[name] != rest.strip():
            raw[name] = ("CONFLICT", raw[name], rest.strip())
        else:
            raw[name] = rest.strip()
            order.append(name)
    env, strs = {}, {}
    for _ in range(4):
        for name in order:
            r = raw[name]
            if isinstance(r, tuple):
                continue
            sm = re.fullmatch(r'"((?:[^"\\]|\\.)*)"', r)
            if sm:
                strs[name] = sm.group(1).encode().decode("unicode_escape")
                continue
            v = ev(r, env)
            if v is not None:
                env[name] = v
    return env, strs


def parse_llvm():
    env = {}
    src = strip_comments(open(os.path.join(LLVM, "ELF.h")).read())
    # enumerators and constexpr/static const definitions
    pend = []
    for m in re.finditer(r"^\s*([A-Za-z_]\w*)\s*=\s*([^,;{}\n]+?)\s*,?\s*$", src, flags=re.M):
        pend.append((m.group(1), m.group(2)))
    for m in re.finditer(r"(?:static\s+)?const(?:expr)?\s+\w+\s+([A-Za-z_]\w*)\s*=\s*([^;]+);", src):
        pend.append((m.group(1), m.group(2)))
    conflicts = set()
    for _ in range(4):
        for name, expr in pend:
            v = ev(expr, env)
            if v is None:
                continue
            if name in env and env[name] != v:
                conflicts.add(name)
            env.setdefault(name, v)
    for f in sorted(glob.glob(os.path.join(LLVM, "ELFRelocs", "*.def"))):
        s = strip_comments(open(f).read())
        for m in re.finditer(r"ELF_RELOC\(\s*(\w+)\s*,\s*([^)]+?)\s*\)", s):
            v = ev(m.group(2), env)
            if v is None:
                continue
            if m.group(1) in env and env[m.group(1)] != v:
                conflicts.add(m.group(1))
            env.setdefault(m.group(1), v)
    s = strip_comments(open(os.path.join(LLVM, "DynamicTags.def")).read())
    for m in re.finditer(r"^\s*(\w*DYNAMIC_TAG)\(\s*(\w+)\s*,\s*([^)]+?)\s*\)", s, flags=re.M):
        if m.group(1) == "DYNAMIC_TAG_MARKER" or m.group(1).endswith("DYNAMIC_TAG"):
            name = "DT_" + m.group(2)
            v = ev(m.group(3), env)
            if v is None:
                continue
            if name in env and env[name] != v:
                conflicts.add(name)
            env.setdefault(name, v)
    for c in conflicts:
        env.pop(c, None)
    return env, sorted(conflicts)


def build():
    g, gstr = parse_glibc()
    l, lconf = parse_llvm()
    return {
        "_doc": "name -> value as defined by the installed glibc <elf.h> and LLVM 14 BinaryFormat headers; "
                "generated by tools/gen_abi_ref.py; compile-time data only",
        "glibc": {k: g[k] for k in sorted(g)},
        "glibc_strings": {k: gstr[k] for k in sorted(gstr)},
        "llvm": {k: l[k] for k in sorted(l)},
        "llvm_self_conflicts": lconf,
    }


if __name__ == "__main__":
    ref = build()
    if len(sys.argv) == 3 and sys.argv[1] == "--check":
        old = json.load(open(sys.argv[2]))
        ok = all(old.get(k) == ref[k] for k in ("glibc", "glibc_strings", "llvm"))
        print("abi reference re-derivation:", "identical" if ok else "DIFFERS")
        sys.exit(0 if ok else 1)
    json.dump(ref, sys.stdout, indent=0, sort_keys=True)
    sys.stdout.write("\n")
