#!/bin/bash
# run every claimed check several times under different hash seeds; all runs must agree and be silent
cd "$(dirname "$0")/.."
n=${1:-4}
fail=0
for p in $(python3 -c "import json;print(' '.join(c['property_id'] for c in json.load(open('MANIFEST.json'))['checks']))"); do
  outs=""
  for i in $(seq 1 $n); do
    o=$(PYTHONHASHSEED=$((RANDOM)) python3 -m analyzer.runner $p --no-evidence 2>&1 | tail -1 | sed 's/wall=.*//')
    outs="$outs|$o"
  done
  u=$(echo "$outs" | tr '|' '\n' | sort -u | grep -c .)
  if [ "$u" != "1" ] || echo "$outs" | grep -q "violations=[1-9]"; then echo "UNSTABLE/FAILING $p: $outs"; fail=1; else echo "stable $p $(echo "$outs" | cut -d'|' -f2)"; fi
done
exit $fail
