#!/usr/bin/env python3
"""Prints the markdown tables of DESIGN.md section 10: seeded changes vs the checks that report them; benign refactorings vs alarms."""
import json, glob, os
here = os.path.dirname(os.path.dirname(os.path.abspath(__file__)))
print("| seed | what the change does (sub-agent's summary) | needs, to manifest | own check | also reported by |")
print("|---|---|---|---|---|")
for f in sorted(glob.glob(os.path.join(here, "seeded", "*", "meta.json"))):
    m = json.load(open(f))
    d = os.path.dirname(f)
    notes = open(os.path.join(d, "notes.txt")).read().splitlines() if os.path.exists(os.path.join(d, "notes.txt")) else [""]
    head = notes[0].strip()
    head = head.split("--", 1)[-1].strip() if "--" in head else head
    need = (m.get("needs_to_manifest") or "").split(":", 1)[-1].strip()
    cb = m.get("caught_by") or {}
    own = m["property"]
    rule = ""
    if own in cb and cb[own]:
        l = cb[own][0]
        rule = l.split("rule=")[1].split(" ")[0] if "rule=" in l else ""
    print("| %s | %s | %s | %s | %s |" % (m["id"], head[:150].replace("|", "/"), need[:170].replace("|", "/"),
                                        ("%s `%s`" % (own, rule)) if own in cb else "**missed**", ", ".join(p for p in sorted(cb) if p != own) or "-"))
bs = sorted(glob.glob(os.path.join(here, "benign", "*", "meta.json")))
if bs:
    print()
    print("| refactoring | what it does | alarms | disposition |")
    print("|---|---|---|---|")
    for f in bs:
        m = json.load(open(f))
        d = os.path.dirname(f)
        notes = open(os.path.join(d, "notes.txt")).read().splitlines() if os.path.exists(os.path.join(d, "notes.txt")) else [""]
        head = next((l.strip() for l in notes if l.strip()), "")
        print("| %s | %s | %s | %s |" % (m["id"], head[:160].replace("|", "/"), ", ".join(sorted(m.get("alarms") or {})) or "none", m.get("disposition", "")))
