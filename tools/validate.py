#!/usr/bin/env python3
"""validate MANIFEST.json and evidence/*.json against the schemas (uses the tooling venv's jsonschema)"""
import json, sys, glob, os
import jsonschema
here = os.path.dirname(os.path.dirname(os.path.abspath(__file__)))
ok = True
ms = json.load(open("/root/.vp/MANIFEST.schema.json"))
es = json.load(open("/root/.vp/EVIDENCE.schema.json"))
try:
    m = json.load(open(os.path.join(here, "MANIFEST.json")))
    jsonschema.validate(m, ms)
    print("MANIFEST.json valid: %d checks, %d not_applicable" % (len(m["checks"]), len(m.get("not_applicable", []))))
except Exception as e:
    ok = False
    print("MANIFEST invalid:", e)
for f in sorted(glob.glob(os.path.join(here, "evidence", "*.json"))):
    try:
        ev = json.load(open(f))
        jsonschema.validate(ev, es)
        c = ev["coverage"]
        print("%s valid level=%s obligations=%s discharged=%s violations=%s" % (os.path.basename(f), ev["level"], c.get("obligations"), c.get("discharged"), ev.get("violations")))
    except Exception as e:
        ok = False
        print(f, "INVALID:", str(e)[:300])
sys.exit(0 if ok else 1)
