#!/usr/bin/env python3
"""Seeded changes written by independent sub-agents (they saw only the text of one property).

  seeded.py ingest <srcdir> <PROP>        copy <srcdir>/seedN.{diff,_demo.rs,_notes.txt} to /verif/seeded/<PROP>-sN/
  seeded.py verify [<id>]                 confirm in a scratch copy: compiles, 239 unit tests pass, demo fails with / passes without
  seeded.py run [<id>] [--props C01,..]   apply to a scratch copy and run the checks; record which properties report a violation
"""
import re, json, os, shutil, subprocess, sys, tempfile, glob
from concurrent.futures import ThreadPoolExecutor

HERE = os.path.dirname(os.path.dirname(os.path.abspath(__file__)))
REPO = "/repo"
SEEDED = os.path.join(HERE, "seeded")
BASE_FAIL = ["elf_bytes::interface_tests::shnum_and_shstrndx_in_shdr0", "elf_stream::interface_tests::shnum_and_shstrndx_in_shdr0"]
ALL = ["C%02d" % i for i in range(1, 21)]


def scratch(full):
    tmp = tempfile.mkdtemp(prefix="elfseed-")
    for f in ("Cargo.toml", "Cargo.lock"):
        shutil.copy(os.path.join(REPO, f), os.path.join(tmp, f))
    shutil.copytree(os.path.join(REPO, "src"), os.path.join(tmp, "src"))
    if full:
        shutil.copytree(os.path.join(REPO, "sample-objects"), os.path.join(tmp, "sample-objects"))
    return tmp


def apply_patch(tmp, patch):
    r = subprocess.run(["patch", "-p1", "-s", "-i", patch], cwd=tmp, capture_output=True, text=True)
    return r.returncode == 0, r.stdout + r.stderr


def cargo(tmp, *args):
    env = dict(os.environ, CARGO_TARGET_DIR=os.path.join(tmp, "target"), CARGO_NET_OFFLINE="true")
    r = subprocess.run(["cargo"] + list(args), cwd=tmp, capture_output=True, text=True, env=env)
    return r.returncode, r.stdout + r.stderr


def needs_from_notes(path):
    """the paragraph of the sub-agent's notes that says what the change needs in order to manifest"""
    if not os.path.exists(path):
        return ""
    lines = open(path).read().splitlines()
    out, on = [], False
    for ln in lines:
        if re.match(r"\s*(what is needed|needed to manifest|what it needs|trigger)", ln, re.I):
            on = True
        elif on and re.match(r"\s*(commands|why|change|verified|demo|files?)\b", ln, re.I):
            break
        if on:
            out.append(ln.strip())
    return " ".join(out)


def fill_needs():
    for mp in sorted(glob.glob(os.path.join(SEEDED, "*", "meta.json"))):
        m = json.load(open(mp))
        if not m.get("needs_to_manifest"):
            m["needs_to_manifest"] = needs_from_notes(os.path.join(os.path.dirname(mp), "notes.txt"))
            json.dump(m, open(mp, "w"), indent=1)
        if not m["needs_to_manifest"]:
            print("no needs_to_manifest for", m["id"])


def ingest(src, prop, offset=0):
    n = 0
    for d in sorted(glob.glob(os.path.join(src, "seed*.diff"))):
        i = os.path.basename(d)[4:-5]
        sid = "%s-s%s" % (prop, int(i) + offset if i.isdigit() else i)
        dst = os.path.join(SEEDED, sid)
        os.makedirs(dst, exist_ok=True)
        shutil.copy(d, os.path.join(dst, "patch.diff"))
        for suffix, name in (("_demo.rs", "demo.rs"), ("_notes.txt", "notes.txt")):
            p = os.path.join(src, "seed%s%s" % (i, suffix))
            if os.path.exists(p):
                shutil.copy(p, os.path.join(dst, name))
        meta = {"id": sid, "property": prop, "source": "independent sub-agent given only the text of %s and a scratch worktree" % prop,
                "needs_to_manifest": needs_from_notes(os.path.join(dst, "notes.txt")), "verified": None, "caught_by": None}
        mp = os.path.join(dst, "meta.json")
        if not os.path.exists(mp):
            json.dump(meta, open(mp, "w"), indent=1)
        n += 1
        print("ingested", sid)
    return n


def verify(sid):
    d = os.path.join(SEEDED, sid)
    meta = json.load(open(os.path.join(d, "meta.json")))
    tmp = scratch(True)
    res = {}
    try:
        demo = os.path.join(d, "demo.rs")
        has_demo = os.path.exists(demo)
        if has_demo:
            os.makedirs(os.path.join(tmp, "tests"), exist_ok=True)
            shutil.copy(demo, os.path.join(tmp, "tests", "seed_demo.rs"))
            rc, out = cargo(tmp, "test", "--offline", "--test", "seed_demo")
            res["demo_without_change"] = "pass" if rc == 0 else "FAIL"
        ok, msg = apply_patch(tmp, os.path.join(d, "patch.diff"))
        res["applies"] = ok
        if ok:
            rc, out = cargo(tmp, "test", "--offline", "--lib", "--no-fail-fast")
            line = [l for l in out.splitlines() if l.startswith("test result:")]
            failed = sorted(l.split()[1] for l in out.splitlines() if l.startswith("test ") and l.rstrip().endswith("FAILED"))
            res["unit_tests"] = line[0] if line else out[-300:]
            res["unit_tests_unchanged"] = bool(line) and " 239 passed" in line[0] and failed == BASE_FAIL
            for feats in ([], ["--no-default-features"], ["--no-default-features", "--features", "to_str"], ["--no-default-features", "--features", "alloc"]):
                rc, out = cargo(tmp, "check", "--offline", "--lib", "-q", *feats)
                res["builds " + (" ".join(feats) or "default")] = rc == 0
            if has_demo:
                rc, out = cargo(tmp, "test", "--offline", "--test", "seed_demo")
                res["demo_with_change"] = "pass" if rc == 0 else "FAIL"
                tail = [l for l in out.splitlines() if "panicked" in l or l.startswith("test result")]
                res["demo_with_change_output"] = tail[:6]
        good = res.get("applies") and res.get("unit_tests_unchanged") and all(v for k, v in res.items() if k.startswith("builds")) \
            and (not has_demo or (res.get("demo_without_change") == "pass" and res.get("demo_with_change") == "FAIL"))
        res["confirmed"] = bool(good)
    finally:
        shutil.rmtree(tmp, ignore_errors=True)
    meta["verified"] = res
    json.dump(meta, open(os.path.join(d, "meta.json"), "w"), indent=1)
    return sid, res


def run_checks(sid, props):
    d = os.path.join(SEEDED, sid)
    tmp = scratch(False)
    hits = {}
    try:
        ok, msg = apply_patch(tmp, os.path.join(d, "patch.diff"))
        if not ok:
            return sid, {"error": "patch does not apply: " + msg[-200:]}
        r = subprocess.run([sys.executable, "-m", "analyzer.runner", ",".join(props), "--repo", tmp, "--no-evidence"], cwd=HERE, capture_output=True, text=True,
                           env=dict(os.environ, VERIF_REPO=tmp))
        out = r.stdout + r.stderr
        if "elfscan failed" in out:
            hits = {p: ["<does not compile>"] for p in props[:1]}
        else:
            for p in props:
                lines = [l for l in out.splitlines() if l.startswith(p + " rule=")]
                summ = [l for l in out.splitlines() if l.startswith(p + " tier=") or l.startswith(p + " ERROR")]
                bad = (not summ) or ("ERROR" in summ[0]) or (" violations=0 " not in summ[0] + " ")
                if bad:
                    hits[p] = [l[:400] for l in lines[:4]] or [(summ[0] if summ else "no summary line: " + out[-300:])[:400]]
    finally:
        shutil.rmtree(tmp, ignore_errors=True)
    meta = json.load(open(os.path.join(d, "meta.json")))
    meta["caught_by"] = hits
    meta["checks_run"] = "python3 -m analyzer.runner <P> --repo <scratch copy with patch applied> for P in %s" % ",".join(props)
    json.dump(meta, open(os.path.join(d, "meta.json"), "w"), indent=1)
    return sid, hits


def main():
    cmd = sys.argv[1]
    if cmd == "ingest":
        ingest(sys.argv[2], sys.argv[3], int(sys.argv[4]) if len(sys.argv) > 4 else 0)
        return
    if cmd == "needs":
        fill_needs()
        return
    ids = sorted(os.listdir(SEEDED)) if os.path.isdir(SEEDED) else []
    ids = [i for i in ids if os.path.isdir(os.path.join(SEEDED, i))]
    args = [a for a in sys.argv[2:] if not a.startswith("--")]
    if args:
        ids = [i for i in ids if i in args or any(i.startswith(a) for a in args)]
    props = ALL
    for a in sys.argv[2:]:
        if a.startswith("--props"):
            props = a.split("=", 1)[1].split(",")
    if cmd == "verify":
        with ThreadPoolExecutor(max_workers=6) as ex:
            for sid, res in ex.map(verify, ids):
                print(sid, "CONFIRMED" if res.get("confirmed") else "NOT CONFIRMED", {k: v for k, v in res.items() if k not in ("demo_with_change_output",)})
    elif cmd == "run":
        with ThreadPoolExecutor(max_workers=5) as ex:
            for sid, hits in ex.map(lambda s: run_checks(s, props), ids):
                own = sid.split("-")[0]
                status = "CAUGHT" if hits and "error" not in hits else "MISSED"
                print("%-10s %-7s own=%s by=%s" % (sid, status, "yes" if own in hits else "no", ",".join(sorted(hits))))
                for p, ls in sorted(hits.items()):
                    for l in ls[:1]:
                        print("      ", l[:230] if isinstance(l, str) else l)


if __name__ == "__main__":
    main()
