#!/usr/bin/env python3
"""mk_scratch.py <patch.diff>: print the path of a scratch copy of /repo with the patch applied (caller removes it)"""
import sys, os
sys.path.insert(0, os.path.dirname(os.path.abspath(__file__)))
import seeded as S
t = S.scratch(False)
ok, msg = S.apply_patch(t, os.path.abspath(sys.argv[1]))
print(t if ok else "FAILED " + msg)
