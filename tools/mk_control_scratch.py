#!/usr/bin/env python3
"""mk_control_scratch.py <control-id>: print the path of a scratch copy of /repo with the control applied (caller removes it)"""
import sys, os
sys.path.insert(0, os.path.dirname(os.path.abspath(__file__)))
import controls as C
spec = [s for s in C.load_specs() if s["id"] == sys.argv[1]][0]
t = C.make_scratch()
err = C.apply(spec, t)
print(t if not err else "FAILED " + err)
