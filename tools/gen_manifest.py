#!/usr/bin/env python3
"""Generates MANIFEST.json from the claim table below (single source of truth for what is claimed)."""
import json, os

here = os.path.dirname(os.path.dirname(os.path.abspath(__file__)))

# id -> (category, technique, level text, level note, design ref)
CLAIMS = {}
NOT_APPLICABLE = {}


def claim(pid, category, technique, text, note, ref):
    CLAIMS[pid] = (category, technique, text, note, ref)


def na(pid, reason):
    NOT_APPLICABLE[pid] = reason


exec(open(os.path.join(here, "tools", "claims.py")).read())

checks = []
for pid in sorted(CLAIMS):
    cat, tech, text, note, ref = CLAIMS[pid]
    checks.append({
        "property_id": pid,
        "quick_cmd": "./check %s --tier quick" % pid,
        "thorough_cmd": "./check %s --tier thorough" % pid,
        "evidence_file": "/verif/evidence/%s.json" % pid,
        "replay_cmd_template": "./check %s --explain {path}" % pid,
        "engine": "elfscan+analyzer",
        "level_claimed": {"category": cat, "text": text, "design_ref": ref},
        "level_note": note,
        "technique": tech,
    })

manifest = {
    "version": 1,
    "setup_cmd": "./setup.sh",
    "hooks": {
        "guard": "cole14_rust_elf_verif",
        "enable": "unused: static analysis reads /repo's source as it is; no hook or instrumentation was added to /repo",
        "baseline_off_cmd": "cd /repo && cargo test --workspace --no-fail-fast --offline",
        "source_commits": [],
        "add_only": True,
    },
    "engines": [
        {"name": "elfscan", "path": "/verif/elfscan", "serves_properties": sorted(CLAIMS),
         "kind_free_text": "rustc_private driver (nightly) run as RUSTC_WORKSPACE_WRAPPER under cargo check; exports MIR bodies with "
                           "resolved callees, const-evaluated constants, layouts, impl tables and HIR match tables of /repo's current tree as JSON"},
        {"name": "analyzer", "path": "/verif/analyzer", "serves_properties": sorted(CLAIMS),
         "kind_free_text": "Python: CFG/dominators/loops, global value numbering with must-facts over the exported MIR, per-property rule modules"},
    ],
    "checks": checks,
    "not_applicable": [{"property_id": k, "reason": v} for k, v in sorted(NOT_APPLICABLE.items())],
    "notes": "Technique family: static analysis only. Every check rebuilds its fact base from /repo's working tree "
             "(cached by content hash of src/, Cargo.toml, Cargo.lock and the driver). See DESIGN.md.",
}
with open(os.path.join(here, "MANIFEST.json"), "w") as f:
    json.dump(manifest, f, indent=1)
    f.write("\n")
print("MANIFEST.json: %d checks, %d not_applicable" % (len(checks), len(NOT_APPLICABLE)))
