"""Fact-base loader and MIR pretty printer for the JSON emitted by elfscan."""
import json
import re

_norm_re = re.compile(r"\b(?:std|core|alloc)::")


def nq(q):
    return _norm_re.sub("", q or "")


class Facts:
    def __init__(self, path):
        with open(path) as f:
            self.d = json.load(f)
        self.fns = {}
        for fn in self.d["fns"]:
            # qual names are unique except for closures in generic contexts; keep a list
            self.fns.setdefault(fn["qual"], []).append(fn)
        self.fns_norm = {}
        for fn in self.d["fns"]:
            self.fns_norm.setdefault(nq(fn["qual"]), []).append(fn)
        self.by_id = {fn["id"]: fn for fn in self.d["fns"]}
        self.consts = {c["path"]: c for c in self.d["consts"]}
        self.adts = {a["path"]: a for a in self.d["adts"]}

    def fn(self, qual):
        l = self.fns.get(qual) or self.fns_norm.get(nq(qual))
        if not l:
            return None
        if len(l) > 1:
            raise KeyError("ambiguous fn " + qual)
        return l[0]

    def all_fns(self):
        return self.d["fns"]

    def implementors(self, traits):
        """in-crate self types that have an impl of every trait in `traits`"""
        sets = []
        for t in traits:
            sets.append({i["self_adt"] or i["self"] for i in self.d["impls"] if i.get("trait") == t})
        if not sets:
            return set()
        r = sets[0]
        for x in sets[1:]:
            r = r & x
        return r

    def impl_candidates(self, caller, callee):
        """For a trait-method call made on a type parameter: the in-crate impl methods it can dispatch to, i.e. the
        (trait, method) impls whose Self type satisfies all non-marker bounds the caller places on that parameter."""
        tm = callee.get("trait_method")
        if not tm or callee.get("resolved") is not None:
            return []
        gen = callee.get("generics") or []
        if not gen:
            return []
        pname = gen[0]
        bounds = [b["trait"] for b in caller.get("bounds", []) if b["param"] == pname and "::marker::" not in b["trait"]]
        if not bounds:
            # closures inherit the bounds of the enclosing function (exported by the driver); unknown parameter otherwise
            return None
        cands = self.implementors(bounds)
        out = []
        for i in self.d["impls"]:
            if i.get("trait") != tm["trait"]:
                continue
            if (i["self_adt"] or i["self"]) not in cands:
                continue
            for it in i["items"]:
                if it["name"] == tm["name"]:
                    for fn in self.fns.get(it["qual"], []):
                        out.append(fn)
        return out

    def __getitem__(self, k):
        return self.d[k]


# ------------------------------------------------------------------ pretty printing

def pp_place(p):
    s = "_%d" % p["local"]
    for e in p["proj"]:
        k = e["k"]
        if k == "deref":
            s = "(*%s)" % s
        elif k == "field":
            s = "%s.%s" % (s, e["name"] if e.get("name") else e["i"])
        elif k == "downcast":
            s = "(%s as %s)" % (s, e.get("name") or e["variant"])
        elif k == "index":
            s = "%s[_%d]" % (s, e["local"])
        elif k == "const_index":
            s = "%s[%s%d]" % (s, "-" if e["from_end"] else "", e["offset"])
        elif k == "subslice":
            s = "%s[%d..%s%d]" % (s, e["from"], "-" if e["from_end"] else "", e["to"])
        else:
            s = "%s.<%s>" % (s, e.get("text"))
    return s


def pp_const(c):
    if "fn" in c:
        return "fn(%s)" % c["fn"]["qual"]
    if "val" in c:
        return "%s_%s" % (c["val"], c["ty"])
    if "bytes" in c:
        return "bytes%r" % (bytes(c["bytes"]),)
    if c.get("zst"):
        return "zst(%s)" % c["ty"]
    if "ref_const" in c:
        return "&const(%s)" % (c["ref_const"].get("variant_name") or c["ref_const"]["bits"])
    return "opaque(%s: %s)" % (c.get("opaque"), c["ty"])


def pp_op(o):
    if "copy" in o:
        return pp_place(o["copy"])
    if "move" in o:
        return "move " + pp_place(o["move"])
    if "const" in o:
        return pp_const(o["const"])
    return "opaque(%s)" % o.get("opaque")


def pp_rv(rv):
    k = rv["k"]
    if k == "use":
        return pp_op(rv["op"])
    if k == "ref":
        return "&%s%s" % ("mut " if rv["mut"] else "", pp_place(rv["place"]))
    if k == "rawptr":
        return "&raw " + pp_place(rv["place"])
    if k == "cast":
        return "%s as %s (%s)" % (pp_op(rv["op"]), rv["to"], rv["kind"])
    if k == "bin":
        return "%s(%s, %s)" % (rv["op"], pp_op(rv["l"]), pp_op(rv["r"]))
    if k == "un":
        return "%s(%s)" % (rv["op"], pp_op(rv["x"]))
    if k == "discr":
        return "discriminant(%s)" % pp_place(rv["place"])
    if k == "agg":
        a = rv["agg"]
        fs = ", ".join(pp_op(f) for f in rv["fields"])
        if a == "adt":
            return "%s::%s{%s}" % (rv["adt"], rv["variant_name"], fs)
        if a == "closure":
            return "closure %s{%s}" % (rv["closure"], fs)
        return "%s(%s)" % (a, fs)
    if k == "repeat":
        return "[%s; %s]" % (pp_op(rv["op"]), rv["n"])
    return "other(%s)" % rv.get("text")


def pp_span(s):
    x = "%s:%d:%d" % (s["file"], s["line"], s["col"])
    if s.get("expn"):
        x += " [%s]" % s["expn"]
    return x


def pp_callee(c):
    if "indirect" in c:
        return "indirect(%s)" % c["indirect"]
    s = c["qual"]
    if c.get("generics"):
        s += "<%s>" % ", ".join(c["generics"])
    if c.get("resolved") and c["resolved"] != c["qual"]:
        s += " => " + c["resolved"]
    elif not c.get("resolved"):
        s += " => ?"
    return s


def pp_term(t):
    k = t["k"]
    if k == "goto":
        return "goto bb%d" % t["target"]
    if k == "switch":
        return "switchInt(%s: %s) -> [%s, otherwise: bb%d]" % (
            pp_op(t["discr"]), t["discr_ty"],
            ", ".join("%s: bb%d" % (v, b) for v, b in t["targets"]), t["otherwise"])
    if k == "call":
        return "%s = %s(%s) -> %s" % (
            pp_place(t["dest"]), pp_callee(t["callee"]),
            ", ".join(pp_op(a) for a in t["args"]),
            "bb%d" % t["target"] if t["target"] is not None else "!")
    if k == "assert":
        return "assert(%s == %s, %s(%s)) -> bb%d" % (
            pp_op(t["cond"]), t["expected"], t["kind"],
            ", ".join(pp_op(o) for o in t["ops"]), t["target"])
    if k == "drop":
        return "drop(%s: %s)%s -> bb%d" % (pp_place(t["place"]), t["ty"],
                                          "" if t["needs_drop"] else " [noop]", t["target"])
    if k == "other":
        return "other(%s)" % t["text"]
    return k


def pp_fn(fn, spans=False):
    out = []
    b = fn["body"]
    out.append("fn %s  [%s] %s" % (fn["qual"], fn["id"], pp_span(fn["span"])))
    names = {}
    for d in b["debug"]:
        if not d["place"]["proj"]:
            names[d["place"]["local"]] = d["name"]
    for l in b["locals"]:
        out.append("  let _%d: %s%s" % (l["i"], l["ty"], "  // " + names[l["i"]] if l["i"] in names else ""))
    for i, bl in enumerate(b["blocks"]):
        out.append("  bb%d%s:" % (i, " (cleanup)" if bl["cleanup"] else ""))
        for st in bl["stmts"]:
            sp = "   // " + pp_span(st["span"]) if spans else ""
            if st["k"] == "assign":
                out.append("    %s = %s%s" % (pp_place(st["place"]), pp_rv(st["rv"]), sp))
            elif st["k"] == "set_discr":
                out.append("    discriminant(%s) = %d%s" % (pp_place(st["place"]), st["variant"], sp))
            else:
                out.append("    other(%s)%s" % (st.get("text"), sp))
        sp = "   // " + pp_span(bl["term"]["span"]) if spans else ""
        out.append("    %s%s" % (pp_term(bl["term"]), sp))
    return "\n".join(out)


if __name__ == "__main__":
    import sys
    f = Facts(sys.argv[1])
    if len(sys.argv) == 2:
        for fn in f.all_fns():
            print(fn["qual"])
    else:
        for q in sys.argv[2:]:
            for fn in f.all_fns():
                if q in fn["qual"]:
                    print(pp_fn(fn, spans=True))
                    print()
