"""Panic-site census with discharge (rule family used by C01 and C08(a)).

Obligations, per function in scope (non-cleanup blocks, feasible paths only):
  * every MIR `Assert` terminator (bounds, overflow, div/rem by zero, shift amount);
  * every call whose callee is external and classified partial / panic / unclassified, or indirect;
  * every `Drop` whose type has an in-crate destructor;
Each is discharged by a generic rule over the engine's terms and must-facts, or reported."""
from .callees import classify, TOTAL, PARTIAL, PANIC, UNCLASSIFIED
from .engine import analyze_fn, norm, program
from .prover import Prover, tmax
from .terms import T, Term, pp, INT_BITS, SIGNED, PTR_SIZED


def wh(span):
    return "%s:%d:%d" % (span["file"], span["line"], span["col"])


_INHERIT = {}


def inherited_assumptions(F, fn, _stack=()):
    """Entry facts of a private function = intersection over all its call sites of the caller facts that can be
    expressed over the callee's parameters (and over the pointees of its reference parameters).  Callers that are private
    themselves are analysed under their own inherited facts.  Only for functions not reachable from outside the crate."""
    if fn.get("reachable_pub", True) or fn["kind"] == "Closure":
        return ()
    key = (id(F), fn["id"])
    if key in _INHERIT:
        return _INHERIT[key]
    if fn["id"] in _stack:
        return ()
    res = _inherited(F, fn, _stack + (fn["id"],))
    if not _stack:
        _INHERIT[key] = res
    return res


def _inherited(F, fn, _stack):
    prog = program(F)
    sites = []
    for caller in F.all_fns():
        for blk in caller["body"]["blocks"]:
            t = blk["term"]
            if blk["cleanup"] or t["k"] != "call" or "indirect" in t["callee"]:
                continue
            c = t["callee"]
            if (c.get("resolved_id") or c.get("id")) == fn["id"]:
                sites.append(caller)
        # a function whose address is taken (fn pointer constant) could be called from anywhere
    if not sites:
        return ()
    common = None
    for caller in {c["id"]: c for c in sites}.values():
        an = analyze_fn(F, caller, inherited_assumptions(F, caller, _stack))
        for cs in an.calls():
            if (cs.callee.get("resolved_id") or cs.callee.get("id")) != fn["id"]:
                continue
            if cs.block not in an.entry:
                continue  # infeasible call site
            mapping = {a: T.param(i + 1) for i, a in enumerate(cs.args)}
            for i, pb in enumerate(getattr(cs, "pointee_before", None) or []):
                if pb is not None and pb not in mapping:
                    mapping[pb] = T.deref(T.param(i + 1))     # what a reference argument points to when the call is made
            for i, a in enumerate(cs.args):
                if a.op == "refval" and a.args[0] not in mapping:
                    mapping[a.args[0]] = T.deref(T.param(i + 1))
            out = set()
            for f in cs.facts:
                g = _rewrite_fact(f, mapping)
                if g is not None:
                    out.add(g)
            # an argument whose length is known from its construction (a successful `x.get(..16)?`, an array unsized to a slice,
            # a byte-string constant): the callee may rely on that length
            for i, a in enumerate(cs.arg_values()):
                ln = T.length(a.args[0] if a.op == "refval" else a)
                if ln.op == "const" and isinstance(ln.args[1], int):
                    out.add(("eq", T.length(T.param(i + 1)), ln.args[1]))
            common = out if common is None else (common & out)
    return tuple(sorted(common or (), key=repr))


def _rewrite_fact(f, mapping):
    new = [f[0]]
    for x in f[1:]:
        if isinstance(x, Term):
            y = _rewrite(x, mapping)
            if y is None:
                return None
            new.append(y)
        else:
            new.append(x)
    return tuple(new)


def _rewrite(t, mapping):
    if t in mapping:
        return mapping[t]
    if t.op in ("const", "bytes"):
        return t
    if t.op == "deref":
        r = _rewrite(t.args[0], mapping)     # the pointee of something the callee also sees
        return T.deref(r) if r is not None else None
    if t.op in ("param", "fresh", "phi", "undef", "ref", "okelse", "opaque"):
        return None
    args = []
    for a in t.args:
        if isinstance(a, Term):
            r = _rewrite(a, mapping)
            if r is None:
                return None
            args.append(r)
        elif isinstance(a, tuple):
            r = _rewrite_tuple(a, mapping)
            if r is None:
                return None
            args.append(r)
        else:
            args.append(a)
    return Term(t.op, *args)


def _rewrite_tuple(tp, mapping):
    out = []
    for a in tp:
        if isinstance(a, Term):
            r = _rewrite(a, mapping)
            if r is None:
                return None
            out.append(r)
        elif isinstance(a, tuple):
            r = _rewrite_tuple(a, mapping)
            if r is None:
                return None
            out.append(r)
        else:
            out.append(a)
    return tuple(out)


class Census:
    extra_precondition = None   # hook: f(fn, an, pv, cs, name) -> reason or None
    extra_panic = None          # hook: f(fn, an, cs) -> reason or None  (a panic entry point shown unreachable by another rule)

    def __init__(self, F, rep, rule_prefix, in_scope):
        self.F = F
        self.rep = rep
        self.prefix = rule_prefix
        self.in_scope = in_scope
        self.n_fns = 0
        self.counts = {"assert": 0, "partial-call": 0, "panic-call": 0, "unclassified-call": 0, "indirect-call": 0,
                       "drop": 0, "total-calls": 0, "local-calls": 0, "trait-param-calls": 0}
        self.external_callees = {}
        self.seq = {}

    def key(self, fn, kind, desc):
        base = "%s|%s|%s" % (fn["qual"], kind, desc)
        n = self.seq.get(base, 0)
        self.seq[base] = n + 1
        return base if n == 0 else "%s#%d" % (base, n)

    def run(self):
        for fn in self.F.all_fns():
            if not self.in_scope(fn):
                continue
            self.n_fns += 1
            assume = inherited_assumptions(self.F, fn)
            an = analyze_fn(self.F, fn, assume)
            self.check_fn(fn, an, assume)

    # ------------------------------------------------------------------
    def check_fn(self, fn, an, assume):
        pv = Prover(an)
        rep = self.rep
        if an.unsupported:
            rep.bad(self.prefix + "unsupported-mir", self.key(fn, "unsupported", ""), wh(fn["span"]),
                    "UNRECOGNISED MIR construct(s) in %s: %s" % (fn["qual"], an.unsupported[:3]))
        for a in sorted(an.asserts, key=lambda a: a["block"]):
            if a["block"] not in an.entry:
                continue
            self.counts["assert"] += 1
            self.check_assert(fn, an, pv, a, assume)
        for b in an.rpo:
            if b not in an.entry:
                continue
            t = an.blocks[b]["term"]
            if t["k"] == "drop" and t["needs_drop"]:
                self.check_drop(fn, an, t)
            if t["k"] != "call":
                continue
            cs = an.calls_by_block.get(b)
            if cs is None:
                continue
            self.check_call(fn, an, pv, cs)

    # ------------------------------------------------------------------ asserts
    def check_assert(self, fn, an, pv, a, assume):
        rep = self.rep
        kind, ops, facts, cond = a["kind"], a["ops"], a["facts"], a["cond"]
        where = wh(a["span"])
        desc = "%s(%s)" % (kind, ", ".join(pp(o) for o in ops))
        key = self.key(fn, "assert", desc)
        rule = self.prefix + "assert"
        by, miss = self.discharge(an, pv, a)
        if by is None and fn["kind"] == "Closure":
            # a closure that is only ever called directly is judged where it is called: its captured values are known there
            by2 = self.discharge_at_call_sites(fn, a)
            if by2:
                by = by2
        if by == "ALWAYS-FAILS":
            rep.bad(rule, key, where, "%s in %s always fails" % (kind, fn["qual"]))
            return
        if by:
            rep.ok(rule, key, where, by)
        else:
            rep.bad(rule, key, where,
                    "%s in %s may fail: missing fact: %s" % (kind, fn["qual"], miss),
                    {"cond": pp(cond), "ops": [pp(o) for o in ops],
                     "facts": sorted(_ppf(f) for f in facts)[:40], "inherited": [repr(x) for x in assume]})

    def guard_refuted(self, an, cs, _dissolved=False):
        """a panic call (the failure arm of an `assert!` / `debug_assert!`) every edge into which is taken only when a comparison
        has a value the order reasoning refutes: the assertion always holds, the call is not reachable"""
        pv = Prover(an)
        edges = [(p, cs.block) for p in an.preds[cs.block] if (p, cs.block) in an.feasible]
        if not edges:
            return None
        n = 0
        for p, b in edges:
            before, after = an.entry[p].facts, an.out_states[(p, b)].facts
            for _ in range(8):       # through empty forwarding blocks up to the branch that decided
                ups = [q for q in an.preds[p] if (q, p) in an.feasible]
                if after - before or len(ups) != 1:
                    break
                p, b = ups[0], p
                before, after = an.entry[p].facts, an.out_states[(p, b)].facts
            refuted = False
            for f in after - before:
                if f[0] in ("true", "false") and isinstance(f[1], Term) and f[1].op in ("bin", "un"):
                    tv = pv.decide(f[1], before)
                    if tv is not None and tv != (f[0] == "true"):
                        refuted = True
                        break
            if not refuted:
                # (b) path-sensitive: values merged at a join (two `matches!` of the same value, ...) are exact along each acyclic path
                if not an.loops:
                    ps = an.paths()
                    if ps is not None and cs.block not in getattr(an, "_path_blocks", {cs.block}):
                        return "asserted condition proven: no acyclic path of the function reaches the failure arm (values evaluated per path)"
                # (c) a private function's assertion about its parameters: shown at every call site (and, where a caller only
                #     forwards its own parameters, at that caller's call sites)
                conds = [(f[1], f[0] == "true") for f in after - before if f[0] in ("true", "false") and isinstance(f[1], Term) and f[1].op in ("bin", "un")]
                if len(conds) >= 1 and all(self.refuted_at_callers(an.fn, c_, tv_) for c_, tv_ in conds[:1]):
                    n += 1
                    continue
                # (d) the asserted condition speaks about the result of a pure in-crate function: judged with that function
                #     described by its cases (what it returns under which condition on its arguments)
                if not _dissolved and self.refuted_by_callee_cases(an, cs, conds):
                    n += 1
                    continue
                return None
            n += 1
        return "asserted condition proven: each of the %d edges into the failure arm contradicts the order facts established before it" % n

    def refuted_by_callee_cases(self, an, cs, conds):
        from .engine import Program
        F = self.F
        prog = program(F)
        names = set()
        for c_, _ in conds:
            for x in c_.subterms():
                if x.op == "call" and isinstance(x.args[0], str):
                    lf = F.fn(x.args[0])
                    if lf is not None and lf.get("kind") != "Closure" and lf["id"] != an.fn["id"]:
                        names.add(lf["qual"])
        if not names:
            # ... or the facts say how a pure in-crate function answered (`verify(x)?` went through): its cases say what that implies
            edge_facts = set()
            for p_ in an.preds[cs.block]:
                if (p_, cs.block) in an.out_states:
                    edge_facts |= set(an.out_states[(p_, cs.block)].facts)
            for f in edge_facts:
                if f[0] == "var" and isinstance(f[1], Term) and f[1].op == "call" and isinstance(f[1].args[0], str):
                    lf = F.fn(f[1].args[0])
                    if lf is not None and lf.get("kind") != "Closure" and lf["id"] != an.fn["id"]:
                        names.add(lf["qual"])
        if not names or len(names) > 2:
            return False
        try:
            an2 = Program(F, dissolve=tuple(sorted(names))).analysis(an.fn, an.assume)
        except Exception:
            return False
        if an2 is None or cs.block not in an2.entry:
            return an2 is not None and cs.block not in an2.entry and cs.block in an2.preds     # not reachable once the cases are explicit
        cs2 = [c for c in an2.calls() if c.block == cs.block]
        return bool(cs2) and self.guard_refuted(an2, cs2[0], _dissolved=True) is not None

    def refuted_at_callers(self, fn, cond, truth, depth=0):
        """the boolean term `cond` over fn's parameters cannot have the value `truth` at any call site of the (private) function fn"""
        from .engine import State
        F = self.F
        if fn.get("reachable_pub") or depth > 2 or fn.get("kind") == "Closure":
            return False
        prog = program(F)
        if not prog._closed(cond):
            return False
        n_sites = 0
        for caller in F.all_fns():
            if not any(blk["term"]["k"] == "call" and "indirect" not in blk["term"]["callee"]
                       and (blk["term"]["callee"].get("resolved_id") or blk["term"]["callee"].get("id")) == fn["id"] for blk in caller["body"]["blocks"]):
                continue
            can = analyze_fn(F, caller)
            cpv = Prover(can)
            for c in can.calls():
                if (c.callee.get("resolved_id") or c.callee.get("id")) != fn["id"] or c.block not in can.entry:
                    continue
                n_sites += 1
                stc = State(can.exit_env.get(c.block, {}), c.facts)
                try:
                    c2 = prog.subst(can, stc, cond, c.arg_values(), prog.gmap(fn, c.callee))
                except KeyError:
                    c2 = None
                if c2 is None:
                    return False
                tv = cpv.decide(c2, c.facts)
                if tv is not None and tv != truth:
                    continue
                if tv is None and self.refuted_at_callers(caller, c2, truth, depth + 1):
                    continue
                return False
        return n_sites > 0

    def discharge_at_call_sites(self, cfn, a):
        from .engine import State
        F = self.F
        parent = F.fn(cfn["qual"].split("::{closure")[0])
        if parent is None:
            return None
        prog = program(F)
        pan = analyze_fn(F, parent, inherited_assumptions(F, parent))
        ppv = Prover(pan)
        sites = []
        comb_sites = []
        for c in pan.calls():
            uses = [x for x in c.args if x.op == "agg" and x.args[0] == "closure" and x.args[1] == cfn["qual"]]
            f0 = c.args[0] if c.args else None
            if f0 is not None and f0.op == "ref":
                f0 = pan.read(State(pan.exit_env.get(c.block, {}), c.facts), (f0.args[0], f0.args[1]))
            elif f0 is not None and f0.op == "refval":
                f0 = f0.args[0]
            direct = c.declared_norm in ("ops::Fn::call", "ops::FnMut::call_mut", "ops::FnOnce::call_once") and f0 is not None \
                and f0.op == "agg" and f0.args[0] == "closure" and f0.args[1] == cfn["qual"]
            if direct:
                sites.append((c, f0))
            elif uses:
                # handed to a core combinator that runs it at once, in this context, on the payload of its receiver
                # (`r.map(|x| ..)`, `o.and_then(..)`, `r.map_err(..)`, `o.ok_or_else(..)`): the call site of the combinator is the site
                dn = c.declared_norm
                m_ = dn.rsplit("::", 1)[-1]
                recv = c.arg_values()[0] if c.args else None
                if (dn.startswith("option::Option::") or dn.startswith("result::Result::")) and recv is not None and len(uses) == 1:
                    opt_ = dn.startswith("option::")
                    if m_ in ("map", "and_then", "is_some_and", "is_ok_and", "filter", "inspect"):
                        pay = T.payload(recv, "Some" if opt_ else "Ok")
                        comb_sites.append((c, uses[0], [T.refval(pay) if m_ in ("filter", "inspect") else pay]))
                        continue
                    if m_ in ("map_err", "or_else", "unwrap_or_else", "ok_or_else", "inspect_err"):
                        comb_sites.append((c, uses[0], [] if opt_ else [T.payload(recv, "Err")]))
                        continue
                return None        # handed to someone else: the context in which it runs is not known
        if not sites and not comb_sites:
            return None
        env_ty = norm(cfn["body"]["locals"][1]["ty"]) if len(cfn["body"]["locals"]) > 1 else ""
        for c, clo, cargv in [(c_, clo_, None) for c_, clo_ in sites] + comb_sites:
            stc = State(pan.exit_env.get(c.block, {}), c.facts)
            tup = c.args[1] if len(c.args) > 1 else None
            argv = list(tup.args[4]) if tup is not None and tup.op == "agg" and tup.args[0] == "tuple" else []
            if cargv is not None:
                argv = cargv
            cargs = [T.refval(clo) if env_ty.startswith("&") else clo] + argv
            cond = prog.subst(pan, stc, a["cond"], cargs)
            ops = [prog.subst(pan, stc, o, cargs) for o in a["ops"]]
            if cond is None or any(o is None for o in ops):
                return None
            by, _ = self.discharge(pan, ppv, dict(a, cond=cond, ops=ops, facts=c.facts))
            if not by or by == "ALWAYS-FAILS":
                return None
        return "holds at each of the %d call sites of the closure (direct, or through a core combinator that runs it on the spot; captured values substituted)" % (len(sites) + len(comb_sites))

    def discharge(self, an, pv, a):
        """(reason, missing-fact text) for one Assert terminator under the facts recorded with it"""
        kind, ops, facts, cond = a["kind"], a["ops"], a["facts"], a["cond"]
        by = None
        miss = ""
        # constant condition
        if cond.op == "const":
            if bool(cond.args[1]) == a["expected"]:
                by = "const: the asserted condition folds to the expected value"
            else:
                return "ALWAYS-FAILS", ""
        elif an.truth(facts, cond) == a["expected"]:
            by = "fact: the asserted condition is implied by a dominating guard"
        elif kind in ("div_zero", "rem_zero"):
            # cond is Eq(divisor, 0), expected false
            d = cond.args[1] if cond.op == "bin" and cond.args[2].op == "const" else (cond.args[2] if cond.op == "bin" else None)
            if d is not None and pv.nonzero(d, facts):
                by = "nonzero-divisor: %s != 0" % pp(d)
            miss = "divisor %s != 0" % (pp(d) if d is not None else "?")
        elif kind.startswith("overflow(Sh"):
            # cond is Lt(shift_amount, BITS)
            if cond.op == "bin" and cond.args[0] == "Lt" and cond.args[2].op == "const":
                u = pv.ub(cond.args[1], facts)
                if u is not None and u < cond.args[2].args[1] and pv.lb(cond.args[1], facts) >= 0:
                    by = "shift-in-range: ub(%s) = %d < %d" % (pp(cond.args[1]), u, cond.args[2].args[1])
            miss = "shift amount %s < bit width" % pp(ops[1] if len(ops) > 1 else cond)
        elif kind == "bounds":
            ln, idx = ops
            if pv.lt(idx, ln, facts):
                by = "index-in-range: %s < %s" % (pp(idx), pp(ln))
            miss = "%s < %s" % (pp(idx), pp(ln))
        elif kind == "overflow(Sub)":
            x, y = ops
            if pv.unsigned(x) or pv.unsigned(y):
                if pv.le(y, x, facts):
                    by = "no-underflow: %s <= %s" % (pp(y), pp(x))
                elif y.op == "bin" and y.args[0] == "Rem" and y.args[2] is x:
                    by = "no-underflow: subtrahend is a remainder modulo the minuend"
            miss = "%s <= %s" % (pp(y), pp(x))
        elif kind in ("overflow(Add)", "overflow(Mul)"):
            x, y = ops
            ty = pv.type_of(x) or pv.type_of(y)
            ux, uy = pv.ub(x, facts), pv.ub(y, facts)
            lim = tmax(ty, True)
            if ux is not None and uy is not None and lim is not None and pv.lb(x, facts) >= 0 and pv.lb(y, facts) >= 0:
                tot = ux + uy if kind == "overflow(Add)" else ux * uy
                if tot <= lim:
                    by = "no-overflow: bound %d <= %d" % (tot, lim)
            if by is None and kind == "overflow(Add)" and ty not in SIGNED:
                # i + c with i < n  (n of the same type)  =>  i + c <= n + (c-1) ... only c == 1 is width-free
                for a_, b_ in ((x, y), (y, x)):
                    if b_.op == "const" and b_.args[1] == 1:
                        for f in facts:
                            if f[0] == "true" and f[1].op == "bin" and f[1].args[0] == "Lt" and f[1].args[1] is a_:
                                by = "no-overflow-inc: %s < %s, so +1 fits" % (pp(a_), pp(f[1].args[2]))
                                break
            miss = "%s %s %s does not overflow" % (pp(x), "+" if "Add" in kind else "*", pp(y))
        else:
            miss = "unknown assert kind " + kind
        return by, miss

    # ------------------------------------------------------------------ calls
    def check_call(self, fn, an, pv, cs):
        rep = self.rep
        c = cs.callee
        where = cs.where()
        if "indirect" in c or c.get("qual") == "<indirect>":
            self.counts["indirect-call"] += 1
            rep.bad(self.prefix + "call", self.key(fn, "indirect-call", ""), where,
                    "UNRECOGNISED: indirect call in %s (callee unknown)" % fn["qual"])
            return
        crate = self.F["crate"]
        rcrate = c.get("resolved_crate")
        if rcrate == crate or (c.get("resolved") is None and c.get("local")) or (c.get("local") and rcrate is None):
            if c.get("resolved") is None:
                self.counts["trait-param-calls"] += 1
            else:
                self.counts["local-calls"] += 1
            return  # in-crate callee: has its own census entry (or is an impl of an in-crate trait: assumption)
        name = cs.declared_norm
        cls, reason = classify(name)
        self.external_callees.setdefault(name, [cls, 0])[1] += 1
        if cls == TOTAL:
            self.counts["total-calls"] += 1
            return
        rule = self.prefix + "call"
        if cls == PANIC:
            self.counts["panic-call"] += 1
            why = self.extra_panic(fn, an, cs) if self.extra_panic else None
            why = why or self.guard_refuted(an, cs)
            if why:
                rep.ok(rule, self.key(fn, "panic-call", name), where, why)
                return
            rep.bad(rule, self.key(fn, "panic-call", name), where,
                    "%s calls the panic entry point %s on a feasible path" % (fn["qual"], name))
            return
        if cls == UNCLASSIFIED:
            self.counts["unclassified-call"] += 1
            rep.bad(rule, self.key(fn, "unclassified-call", name), where,
                    "unclassified external callee %s in %s: %s" % (name, fn["qual"], reason))
            return
        self.counts["partial-call"] += 1
        key = self.key(fn, "partial-call", "%s(%s)" % (name, ", ".join(pp(a) for a in cs.args)))
        by = self.precondition(an, pv, cs, name)
        if not by and self.extra_precondition:
            by = self.extra_precondition(fn, an, pv, cs, name)
        if by:
            rep.ok(rule, key, where, by)
        else:
            rep.bad(rule, key, where, "precondition of %s not established in %s (%s)" % (name, fn["qual"], reason),
                    {"args": [pp(a) for a in cs.args], "facts": sorted(_ppf(f) for f in cs.facts)[:40]})

    def precondition(self, an, pv, cs, name):
        facts = cs.facts
        args = cs.args
        if name in ("[T]::split_at", "[T]::split_at_mut"):
            s, mid = args
            if pv.le(mid, T.length(s), facts):
                return "precondition: mid %s <= len" % pp(mid)
        if name in ("[T]::copy_from_slice", "[T]::clone_from_slice", "[T]::swap_with_slice"):
            a_, b_ = T.length(args[0]), T.length(args[1])
            if a_ is b_ or (a_.op == "const" and b_.op == "const" and a_.args[1] == b_.args[1]):
                return "precondition: both slices have length %s" % pp(a_)
        if name.split("::")[-1] in ("chunks", "chunks_exact", "chunks_mut", "chunks_exact_mut", "rchunks", "rchunks_exact", "windows") and len(args) == 2:
            if pv.nonzero(args[1], facts):
                return "precondition: chunk size %s != 0" % pp(args[1])[:80]
        if name.endswith("::unwrap") or name.endswith("::expect"):
            x = args[0]
            vs = ["None", "Some"] if name.startswith("option") else ["Ok", "Err"]
            want = "Some" if name.startswith("option") else "Ok"
            base, names = an.norm_var(x, vs)
            if base is None:
                return "precondition: statically %s" % want if vs[names] == want else None
            if ("var", base, names[vs.index(want)]) in facts:
                return "precondition: %s is %s by a dominating test" % (pp(base), want)
        if name in ("ops::Index::index", "ops::IndexMut::index_mut"):
            v, i = args
            g = [norm(x) for x in (cs.callee.get("generics") or []) if not x.startswith("'")]
            if g and g[0].startswith("[") and not g[0].startswith("[T; "):
                # a slice indexed by a range / position: the bounds the indexing operation checks
                ln = T.length(v.args[0] if v.op == "refval" else v)
                if i.op == "agg" and i.args[1] in ("ops::Range", "ops::RangeTo", "ops::RangeFrom", "ops::RangeFull"):
                    ops_ = list(i.args[4])
                    lo = ops_[0] if i.args[1] in ("ops::Range", "ops::RangeFrom") else None
                    hi = ops_[-1] if i.args[1] in ("ops::Range", "ops::RangeTo") else None
                    ok = True
                    if lo is not None and hi is not None and not pv.le(lo, hi, facts):
                        ok = False
                    if hi is not None and not (pv.le(hi, ln, facts) or _valid_up_to(hi, v)):
                        ok = False
                    if hi is None and lo is not None and not pv.le(lo, ln, facts):
                        ok = False
                    if ok:
                        return "precondition: range %s within the slice" % pp(i)[:80]
                elif len(g) > 1 and g[1] == "usize" and pv.lt(i, ln, facts):
                    return "precondition: index %s < len" % pp(i)[:60]
            # Vec / slice indexed by a constant below a proven length
            vv = v
            if i.op == "const" and i.args[1] == 0:
                for f in facts:
                    if f[0] == "false" and f[1].op == "call" and f[1].args[0].endswith("::is_empty") and f[1].args[2]:
                        w = f[1].args[2][0]
                        if w is vv or (w.op == "refval" and vv.op == "ref" and an.read(type("S", (), {"env": {}, "facts": facts})(), (vv.args[0], vv.args[1])) is w.args[0]):
                            return "precondition: index 0 of a container tested non-empty"
        return None

    # ------------------------------------------------------------------ drops
    def check_drop(self, fn, an, t):
        self.counts["drop"] += 1
        ty = norm(t["ty"])
        for a in self.F["adts"]:
            if a["has_dtor"] and a["path"] in ty:
                self.rep.bad(self.prefix + "drop", self.key(fn, "drop", ty), wh(t["span"]),
                             "%s drops %s which has an in-crate Drop impl (may panic)" % (fn["qual"], ty))


def _valid_up_to(hi, v):
    """core contract: Utf8Error::valid_up_to() of from_utf8(v) is at most len(v)"""
    if hi.op == "call" and hi.args[0].endswith("Utf8Error::valid_up_to") and hi.args[2]:
        e = hi.args[2][0]
        e = e.args[0] if e.op == "refval" else e
        if e.op == "payload" and e.args[0].op == "call" and e.args[0].args[0] in ("str::from_utf8", "str::converts::from_utf8"):
            src = e.args[0].args[2][0]
            return src is v or (v.op == "refval" and src is v.args[0]) or (src.op == "refval" and src.args[0] is v)
    return False


def _ppf(f):
    return "%s(%s)" % (f[0], ", ".join(pp(x) if isinstance(x, Term) else str(x) for x in f[1:]))


def base_facts(F, rep, prefix=""):
    """crate-level facts the panic argument rests on"""
    rep.require(F["unsafe_code_level"] == "Forbid", prefix + "base", "forbid(unsafe_code)", "src/lib.rs",
                "crate root forbids unsafe code", "crate root no longer forbids unsafe_code (level %s)" % F["unsafe_code_level"])
    dt = [a["path"] for a in F["adts"] if a["has_dtor"]]
    rep.require(not dt, prefix + "base", "no in-crate Drop impls", "-", "no ADT has a destructor", "ADTs with Drop impls: %s" % dt)
    bad = []
    for a in F["adts"]:
        for v in a["variants"]:
            for f in v["fields"]:
                if any(x in f["ty"] for x in ("Cell<", "RefCell<", "Atomic", "UnsafeCell<", "Mutex<", "RwLock<", "OnceCell<", "OnceLock<", "LazyCell<", "LazyLock<")):
                    bad.append("%s.%s: %s" % (a["path"], f["name"], f["ty"]))
    rep.require(not bad, prefix + "base", "no interior mutability", "-", "no ADT field has an interior-mutability type",
                "interior mutability: %s" % bad)


def call_graph_sccs(F, in_scope):
    """in-crate call graph (resolved edges + trait-parameter edges to every in-crate impl); returns recursive SCCs"""
    ids = {fn["id"]: fn for fn in F.all_fns()}
    by_trait_method = {}
    for fn in F.all_fns():
        imp = fn.get("impl")
        if imp and imp.get("trait"):
            by_trait_method.setdefault((imp["trait"], fn["qual"].split("::")[-1]), []).append(fn["id"])
    g = {}
    for fn in F.all_fns():
        out = set()
        for blk in fn["body"]["blocks"]:
            t = blk["term"]
            if blk["cleanup"] or t["k"] != "call" or "indirect" in t["callee"]:
                continue
            c = t["callee"]
            rid = c.get("resolved_id")
            if rid in ids:
                out.add(rid)
            elif c.get("resolved") is None and c.get("trait_method"):
                cands = F.impl_candidates(fn, c)
                if cands is None:
                    tm = c["trait_method"]
                    cands = [ids[x] for x in by_trait_method.get((tm["trait"], tm["name"]), [])]
                for x in cands:
                    out.add(x["id"])
                if c.get("id") in ids:
                    out.add(c["id"])  # default method body
            # closures created here are called by the combinators they are passed to
            for st in blk["stmts"]:
                pass
        for blk in fn["body"]["blocks"]:
            for st in blk["stmts"]:
                if st["k"] == "assign" and st["rv"]["k"] == "agg" and st["rv"].get("agg") == "closure":
                    for cf in F.fns.get(st["rv"]["closure"], []):
                        out.add(cf["id"])
        g[fn["id"]] = out
    # Tarjan
    index, low, onst, st, res = {}, {}, set(), [], []
    import sys
    sys.setrecursionlimit(10000)

    def sc(v):
        index[v] = low[v] = len(index)
        st.append(v)
        onst.add(v)
        for w in g.get(v, ()):
            if w not in index:
                sc(w)
                low[v] = min(low[v], low[w])
            elif w in onst:
                low[v] = min(low[v], index[w])
        if low[v] == index[v]:
            comp = []
            while True:
                w = st.pop()
                onst.discard(w)
                comp.append(w)
                if w == v:
                    break
            if len(comp) > 1 or v in g.get(v, ()):
                res.append(comp)

    for v in g:
        if v not in index:
            sc(v)
    return [[ids[i]["qual"] for i in comp] for comp in res if any(in_scope(ids[i]) for i in comp)], g
