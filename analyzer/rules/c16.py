"""C16 - every lookup and iteration terminates within work bounded by the input size (structural bound)."""
import os
from ..census import call_graph_sccs
from ..engine import analyze_fn, norm, State
from ..prover import Prover
from ..terms import T, Term, pp, INT_BITS, SIGNED

LEVEL = "proof"
RULE_TEXT = ("every cycle has a ranking argument: (1) the in-crate call graph is acyclic; (2) every natural loop is a `for` over a bounded "
             "iterator (slice::Iter, Range<usize>, or an in-crate iterator proven bounded by (3)) exiting on None, or a counter loop "
             "`i < N` with N loop-invariant and i incremented on every path to the back edge; (3) every in-crate Iterator::next is loop-free "
             "and on every path that yields an item a measure makes strict progress: a cursor into self.data strictly increases through a "
             "successful bounded parse, or a declared count strictly decreases (and, while it stays non-zero, the offset strictly increases), "
             "or the item comes from another bounded in-crate iterator")

SCOPE = {"elf_bytes", "parse", "endian", "file", "section", "segment", "string_table", "note", "hash", "gnu_symver",
         "symbol", "relocation", "dynamic", "compression"}
CORE_BOUNDED = ("slice::Iter<", "ops::Range<usize>", "ops::Range<u32>", "ops::Range<u64>", "slice::Chunks<", "slice::ChunksExact<", "str::Bytes<",
                "iter::Enumerate<slice::Iter<", "iter::Rev<slice::Iter<")


def wh(span):
    return "%s:%d:%d" % (span["file"], span["line"], span["col"])


def in_scope(fn):
    return fn["module"] in SCOPE


# ------------------------------------------------------------------ (3) in-crate iterators
def iterator_nexts(F):
    out = {}
    for fn in F.all_fns():
        imp = fn.get("impl")
        if in_scope(fn) and imp and imp.get("trait") and norm(imp["trait"]) == "iter::Iterator" and fn["qual"].endswith("::next"):
            out[norm(imp["self"]).split("<")[0]] = fn
    return out


def check_next(F, fn, bounded_types):
    """returns (ok, reason) for one Iterator::next body"""
    an = analyze_fn(F, fn)
    if an.loops:
        return False, "next() contains a loop"
    ps = an.paths()
    if ps is None:
        return False, "too many paths"
    pv = Prover(an)
    adt_path = norm(fn["impl"]["self"]).split("<")[0]
    adt = F.adts.get(adt_path)
    if adt is None:
        return False, "self type %s unknown" % adt_path
    fdefs = adt["variants"][0]["fields"]
    p1 = T.param(1)
    measures = []
    n_some = 0
    detail = []
    for t, st, calls in ps:
        facts = set(st.facts)
        yields = None
        if t.op == "agg" and t.args[3] == "None":
            continue
        if t.op == "agg" and t.args[3] == "Some":
            yields = True
        else:
            return False, "UNRECOGNISED return value %s" % pp(t)[:120]
        n_some += 1
        fst = State(st.env, frozenset(facts))
        found = None
        # (c) delegation: the item is the Some-payload of another bounded iterator's next on a field of self
        for cs in calls:
            if cs.declared_norm == "iter::Iterator::next" and cs.arg_lvs and cs.arg_lvs[0][0] == ("M", p1):
                ity = norm((cs.callee.get("generics") or [""])[0]).split("<")[0]
                if ("var", cs.result, "Some") in facts and (ity in bounded_types):
                    found = "delegates to bounded %s::next" % ity
        if found is None:
            progress = {}
            for i, fd in enumerate(fdefs):
                ty = fd["ty"]
                if ty not in INT_BITS or ty in SIGNED:
                    continue
                lv = (("M", p1), (("f", i, fd["name"]),))
                init = T.proj(T.deref(p1), ("f", i, fd["name"]))
                fin = an.read(fst, lv)
                if fin is init:
                    continue
                if pv.lt(init, fin, fst.facts):
                    progress[fd["name"]] = "up"
                elif pv.lt(fin, init, fst.facts):
                    progress[fd["name"]] = "down"
                else:
                    progress[fd["name"]] = "?:" + pp(fin)[:int(os.environ.get("VERIF_PP", "100"))]
            downs = [k for k, v in progress.items() if v == "down"]
            ups = [k for k, v in progress.items() if v == "up"]
            # "never yields more records than its declared count": an iterator that carries a `count` spends one unit of it (or all
            # of it) for every item, whatever else makes progress
            if any(fd["name"] == "count" and fd["ty"] in INT_BITS and fd["ty"] not in SIGNED for fd in fdefs) and "count" not in downs:
                ci = [i for i, fd in enumerate(fdefs) if fd["name"] == "count"][0]
                cfin = an.read(fst, (("M", p1), (("f", ci, "count"),)))
                if not ((cfin.op == "const" and cfin.args[1] == 0) or pv.ub(cfin, fst.facts) == 0):
                    return False, ("an item is yielded on a path where the declared count is not decreased (count after: %s): the iterator can "
                                   "yield more records than its declared count" % pp(cfin)[:120])
            if downs:
                # a declared count decreases; if it can stay non-zero the offset must also have moved
                cname = downs[0]
                ci = [i for i, fd in enumerate(fdefs) if fd["name"] == cname][0]
                cfin = an.read(fst, (("M", p1), (("f", ci, cname),)))
                if (cfin.op == "const" and cfin.args[1] == 0) or pv.ub(cfin, fst.facts) == 0:
                    found = "count %s reaches zero (iteration ends)" % cname
                elif ups:
                    found = "count %s decreases and cursor %s increases" % (cname, ups[0])
                else:
                    return False, "count %s decreases but may stay non-zero while no cursor advances (%s): the same record can be yielded count times" % (cname, progress)
            elif ups:
                found = "cursor %s strictly increases through a successful parse" % ups[0]
            else:
                return False, "an item is yielded without progress of any unsigned field of self (%s)" % progress
        detail.append(found)
    if n_some == 0:
        return False, "no path yields an item (vacuous)"
    return True, "%d yielding paths: %s" % (n_some, sorted(set(detail)))


# ------------------------------------------------------------------ (2) loops
def classify_loop(F, fn, an, header, body, bounded_types):
    back_srcs = [p for p in an.preds[header] if p in body and (p, header) in an.feasible]
    # (a) for-loop over a bounded iterator
    for b in sorted(body):
        cs = an.calls_by_block.get(b)
        if cs is None or cs.declared_norm != "iter::Iterator::next":
            continue
        if not all(an.dominates(b, s) for s in back_srcs):
            continue
        # None must leave the loop
        sw = [x for x in body if x in an.switches and an.switches[x].op == "discr" and _strip(an, an.switches[x].args[0]) is cs.result]
        exits = False
        for x in sw:
            t = an.blocks[x]["term"]
            for v, tb in t["targets"]:
                if int(v) == 0 and tb not in body:
                    exits = True
        if not exits:
            continue
        ity = norm((cs.callee.get("generics") or [""])[0])
        if ity.startswith(CORE_BOUNDED):
            return True, "for over %s (core iterator over a slice/range: at most len items)" % ity.split("<")[0]
        base = ity.split("<")[0]
        if base in bounded_types:
            return True, "for over in-crate iterator %s (bounded by rule 3)" % base
        return False, "for over %s whose boundedness is not established" % ity
    # (b) counter loop
    pv = Prover(an)
    for b in sorted(body):
        d = an.switches.get(b)
        # `i < n` left when false, or the same test spelled `i >= n` / `n <= i` / `!(i < n)` left when true
        exit_on_true = False
        for _ in range(3):
            if d is not None and d.op == "un" and d.args[0] == "Not":
                d, exit_on_true = d.args[1], not exit_on_true
        if d is None or not (d.op == "bin" and d.args[0] in ("Lt", "Ge", "Le", "Gt")):
            continue
        if d.args[0] == "Lt":
            i, n = d.args[1], d.args[2]
        elif d.args[0] == "Ge":
            i, n, exit_on_true = d.args[1], d.args[2], not exit_on_true
        elif d.args[0] == "Le":
            i, n, exit_on_true = d.args[2], d.args[1], not exit_on_true
        else:
            i, n = d.args[2], d.args[1]
        if not (i.op == "phi" and i.args[0] == (an.fid, header)):
            continue
        if any(fid == an.fid and blk in body for fid, blk in n.syms()):
            continue  # bound not loop-invariant
        if not all(an.dominates(b, s) for s in back_srcs):
            continue
        t = an.blocks[b]["term"]
        if exit_on_true:
            nonzero = [tb for v, tb in t["targets"] if int(v) != 0] or ([t["otherwise"]] if all(int(v) == 0 for v, _ in t["targets"]) else [])
            leaves = any(_leaves_loop(an, tb, body) for tb in nonzero)
        else:
            leaves = any(int(v) == 0 and _leaves_loop(an, tb, body) for v, tb in t["targets"])
        if not leaves:
            continue
        ops = an.phi_ops.get(i, {})
        inc_ok = True
        for s in back_srcs:
            v = ops.get(s)
            v = an.simp(v, an.out_states[(s, header)].facts) if v is not None else None
            if not (v is not None and v.op == "proj" and v.args[0].op == "bin" and v.args[0].args[0] in ("AddWithOverflow",)
                    and v.args[0].args[1] is i and v.args[0].args[2].op == "const" and v.args[0].args[2].args[1] >= 1) \
               and not (v is not None and v.op == "bin" and v.args[0] == "Add" and v.args[1] is i and v.args[2].op == "const" and v.args[2].args[1] >= 1) \
               and not (v is not None and v.op == "payload" and v.args[1] == "Some" and v.args[0].op == "call" and v.args[0].args[0].endswith("::checked_add")
                        and v.args[0].args[2][0] is i and v.args[0].args[2][1].op == "const" and v.args[0].args[2][1].args[1] >= 1):
                inc_ok = False
        if inc_ok:
            return True, "counter loop: %s < %s, incremented on every path to the back edge" % (pp(i), pp(n)[:80])
    return False, "loop at bb%d has no recognised ranking argument" % header


def _leaves_loop(an, tb, body):
    """the branch target is outside the loop, or a block inside it that can only leave it (an `|| `-joined exit test whose common
    exit block the loop analysis counts into the body)"""
    if tb not in body:
        return True
    seen, work = {tb}, [tb]
    while work:
        x = work.pop()
        for s_ in an.succs[x]:
            if (x, s_) in an.back_edges:
                return False
            if s_ in body and s_ not in seen:
                seen.add(s_)
                work.append(s_)
    return True


CONSUMERS = {"fold", "try_fold", "find", "find_map", "position", "rposition", "rfind", "any", "all", "count", "last", "nth", "for_each", "try_for_each",
             "max", "min", "max_by", "min_by", "max_by_key", "min_by_key", "sum", "product", "collect", "eq", "ne", "cmp", "partial_cmp", "lt", "le", "gt", "ge",
             "is_sorted", "unzip", "partition", "reduce"}
FLOOR_LOOPLIKE = 12     # 16 loop-like sites (9 natural loops + 7 iterator-consumer calls) counted on the pinned tree; de-duplicating code legitimately removes a few, a vacuous enumerator finds none


def _strip(an, x):
    vs = ["None", "Some"]
    base, _ = an.norm_var(x, vs)
    return base if base is not None else x


def run(ctx, rep):
    F = ctx.facts()
    sccs, _ = call_graph_sccs(F, in_scope)
    rep.require(not sccs, "no-recursion", "in-crate call graph acyclic in scope", "-", "no SCC", "recursive cycle(s): %s" % sccs)
    # (3) iterators, to a fixpoint (delegation)
    nexts = iterator_nexts(F)
    from ._common import iterators_only_next
    iterators_only_next(F, rep, "iterator", None, 7)
    bounded, reasons = set(), {}
    changed = True
    while changed:
        changed = False
        for ty, fn in nexts.items():
            if ty in bounded:
                continue
            ok, why = check_next(F, fn, bounded)
            reasons[ty] = (ok, why)
            if ok:
                bounded.add(ty)
                changed = True
    for ty, fn in sorted(nexts.items()):
        ok, why = reasons[ty]
        rep.require(ok, "iterator-progress", fn["qual"], wh(fn["span"]), why, "%s: %s" % (fn["qual"], why))
    rep.floor("iterator-progress", "in-crate Iterator::next bodies", len(nexts), 7)
    # "never yields more records than its declared count": the count a `next` spends is the one the constructor was given - every
    # in-crate constructor of an iterator that carries a `count` stores its count argument as it is (or something not larger)
    from ..prov import norm as pnorm_, show as pshow_
    n_ctor = 0
    for ty in sorted(nexts):
        adt = F.adts.get(ty)
        if not adt or not any(fd["name"] == "count" for fd in adt["variants"][0]["fields"]):
            continue
        ci = [i for i, fd in enumerate(adt["variants"][0]["fields"]) if fd["name"] == "count"][0]
        for cf in F.all_fns():
            if cf["kind"] == "Closure" or not cf["qual"].startswith(ty + "::") or norm(cf["sig"]["output"]).split("<")[0] not in (ty, "Self"):
                continue
            can = analyze_fn(F, cf)
            for t_, st_ in can.ret_leaves() or []:
                if not (t_.op == "agg" and t_.args[1] == ty):
                    continue
                n_ctor += 1
                cv = pnorm_(t_.args[4][ci])
                inner = cv[2] if (cv and cv[0] == "as") else cv
                okc = isinstance(inner, tuple) and inner[:1] == ("p",) or inner == ("c", 0)
                rep.require(okc, "declared-count", "%s|count" % cf["qual"], wh(cf["span"]), "the count field is the constructor's count argument, unchanged",
                            "%s stores %s as the count: the iterator's bound is no longer the declared count" % (cf["qual"], pshow_(cv)[:160]))
    rep.floor("declared-count", "constructors of counted iterators", n_ctor, 4)
    # (2) loops
    nloops = 0
    for fn in F.all_fns():
        if not in_scope(fn):
            continue
        an = analyze_fn(F, fn)
        for h, body in sorted(an.loops.items()):
            if h not in an.entry:
                continue
            nloops += 1
            ok, why = classify_loop(F, fn, an, h, body, bounded)
            span = an.blocks[h]["term"]["span"]
            rep.require(ok, "loop-ranking", "%s|loop" % fn["qual"], wh(span), why, "%s: %s" % (fn["qual"], why))
    # iterator consumers are loops too (a `for` rewritten as fold / find / position ... is the same iteration)
    nconsumers = 0
    for fn in F.all_fns():
        if not in_scope(fn):
            continue
        an = analyze_fn(F, fn)
        for cs in an.calls():
            dn = cs.declared_norm
            if not (dn.startswith("iter::Iterator::") or dn.startswith("iter::DoubleEndedIterator::")) or dn.split("::")[-1] not in CONSUMERS:
                continue
            nconsumers += 1
            ity = norm((cs.callee.get("generics") or [""])[0])
            ok = ity.startswith(CORE_BOUNDED) or ity.split("<")[0] in bounded or \
                any(("<" + b) in ity or ity.startswith(b) for b in CORE_BOUNDED) or any(b + "<" in ity or ity.endswith(b) for b in bounded)
            rep.require(ok, "loop-ranking", "%s|%s" % (fn["qual"], dn.split("::")[-1]), cs.where(), "%s over a bounded iterator (%s)" % (dn.split("::")[-1], ity.split("<")[0]),
                        "%s: %s consumes %s whose boundedness is not established" % (fn["qual"], dn, ity))
    rep.floor("loop-ranking", "natural loops and iterator consumers in scope", nloops + nconsumers, FLOOR_LOOPLIKE)
    rep.info["loops"] = nloops
    rep.info["iterator_consumers"] = nconsumers
    rep.info["bounded_iterators"] = sorted(bounded)
    # "a strictly increasing cursor yields at most len(data) items" rests on every decoder consuming >= 1 byte on success: C02 decode-size
    from ._common import premise
    premise(ctx, rep, "C02", "a successful parse consumes its entry size (>= 1 byte)", rules={"decode-size", "premise"}, where="src/")
    rep.trusted_base += ["core's slice/range iterators and Iterator::find/position terminate on finite iterators",
                        "C02/C04: a successful parse consumes >= 1 byte of the buffer it is given and fails once fewer remain, so a strictly "
                        "increasing cursor yields at most len(data) items"]
    rep.assumptions += ["the wall-clock clause ('within seconds') is not decided; the rule bounds the number of iterations by the input size or the declared count"]
