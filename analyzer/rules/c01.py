"""C01 - the slice parser is total: panic-site census with discharge over the no_std core."""
from ..census import Census, base_facts, call_graph_sccs

LEVEL = "proof"
CONFIG_HANDLED = True
RULE_TEXT = ("panic-site census: every MIR Assert terminator, every call to a partial / panicking / unclassified external callee, "
             "every destructor and every call-graph cycle in the slice-parser modules is an obligation; each is discharged by a "
             "generic rule (const, nonzero-divisor, no-underflow, no-overflow, shift-in-range, index-in-range, precondition) over "
             "value-numbered terms and dominating guards, pointer-width agnostically")

SCOPE = {"elf_bytes", "parse", "endian", "file", "section", "segment", "string_table", "note", "hash", "gnu_symver",
         "symbol", "relocation", "dynamic", "compression"}


def in_scope(fn):
    return fn["module"] in SCOPE


def run_config(ctx, rep, feats, label):
    F = ctx.facts(feats)
    base_facts(F, rep, label)
    c = Census(F, rep, label, in_scope)
    c.run()
    sccs, _ = call_graph_sccs(F, in_scope)
    rep.require(not sccs, label + "recursion", "no recursion in scope", "-", "in-crate call graph is acyclic in scope",
                "recursive call cycle(s) (unbounded stack): %s" % sccs)
    rep.floor(label + "assert", "Assert terminators in scope", c.counts["assert"], 30)
    rep.floor(label + "call", "functions analysed", c.n_fns, 200)
    return c


def run(ctx, rep):
    from ..runner import DEFAULT_FEATURES
    c = run_config(ctx, rep, DEFAULT_FEATURES, "")
    rep.info["functions_analysed"] = c.n_fns
    rep.info["site_counts"] = c.counts
    rep.info["external_callees"] = {k: {"class": v[0], "call_sites": v[1]} for k, v in sorted(c.external_callees.items())}
    rep.trusted_base += ["rustc MIR construction inserts an Assert for every operation that can trap under overflow-checks / debug assertions",
                        "core functions classified `total` in analyzer/callees.py do not panic",
                        "usize is 32 or 64 bits wide"]
    rep.assumptions += ["user-supplied impls of EndianParse / ParseAt (and their supertraits) are out of scope",
                       "analysed configuration: dev profile (overflow checks and debug assertions on), -Zmir-opt-level=0"]
    if ctx.tier == "thorough":
        from ..runner import FEATURE_SETS, effective
        seen = {tuple(sorted(DEFAULT_FEATURES))}
        for fs in FEATURE_SETS:
            e = effective(fs)
            if e in seen:
                continue
            seen.add(e)
            run_config(ctx, rep, e, "[%s] " % ("+".join(e) or "no-features"))
