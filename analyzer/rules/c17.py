"""C17 - stream I/O failures surface as errors and leave no residue."""
from ..engine import analyze_fn, norm
from ..streamrules import (rule_error_discipline, rule_io_protocol, rule_cache_protocol, stream_fns, wh, io_home)
from ..terms import T, pp

REQUIRES = ("std",)
LEVEL = "proof"
RULE_TEXT = ("error discipline: the Result of every Read/Seek call and of every call to an I/O-performing in-crate function is tested on all "
             "paths and every outcome reached with it being Err returns that error; ordering: the cache insert is dominated by the success "
             "edges of seek and read_exact; no residue: ElfStream.{ehdr,shdrs,phdrs} and CachingReader.stream_len are written only while "
             "opening, the cache only by load_bytes after success")


def run(ctx, rep):
    F = ctx.facts()
    if "std" not in F["config"]["features"]:
        rep.notes.append("elf_stream does not exist without feature std")
        return
    rule_error_discipline(F, rep)
    rule_io_protocol(F, rep, "ordering")
    rule_cache_protocol(F, rep, "cache-writers", keys=None)
    # ---- no residue: who writes the long-lived state
    n = 0
    other_stores = {}
    for fn in stream_fns(F):
        for blk in fn["body"]["blocks"]:
            if blk["cleanup"]:
                continue
            for st in blk["stmts"]:
                if st["k"] != "assign":
                    continue
                pl = st["place"]
                names = [e.get("name") for e in pl["proj"] if e["k"] == "field"]
                if pl["proj"] and pl["proj"][0]["k"] == "deref" and names:
                    n += 1
                    top = names[0]
                    if top in ("ehdr", "shdrs", "phdrs", "stream_len", "bufs"):
                        rep.bad("no-residue", "%s|store|%s" % (fn["qual"], ".".join(names)), wh(st["span"]),
                                "%s assigns to self.%s outside construction" % (fn["qual"], ".".join(names)))
                    else:
                        other_stores.setdefault(fn["qual"], []).append((top, st["span"]))
        an = analyze_fn(F, fn)
        for cs in an.calls():
            for i, lv in enumerate(cs.arg_lvs):
                ty = an._operand_ty(cs.term["args"][i]) if i < len(cs.term["args"]) else ""
                if "&mut" not in ty:
                    continue
                path = [e[2] for e in lv[1] if e[0] == "f"]
                if path and path[0] in ("ehdr", "shdrs", "phdrs", "stream_len") and lv[0][0] == "M":
                    rep.bad("no-residue", "%s|&mut %s" % (fn["qual"], ".".join(map(str, path))), cs.where(),
                            "%s hands out &mut self.%s to %s" % (fn["qual"], path[0], cs.callee_norm))
    # any other field written through self (a memo, a tracked position, ...): on every path that ends in an error the field holds the
    # value it had on entry - state recorded before the fallible step it describes is residue of the failed call
    for q, stores in sorted(other_stores.items()):
        fn = F.fn(q)
        an = analyze_fn(F, fn)
        ps = an.paths()
        w_ = wh(stores[0][1])
        if not fn["sig"]["output"].replace(" ", "").startswith(("Result<", "core::result::Result<", "std::result::Result<")) and "Result" not in norm(fn["sig"]["output"])[:20]:
            continue          # cannot fail: nothing to leave behind
        if ps is None:
            rep.bad("no-residue", "%s|store|%s" % (q, stores[0][0]), w_, "UNRECOGNISED: %s writes self.%s and is not loop-free: cannot show that its error paths leave the field untouched" % (q, stores[0][0]))
            continue
        dirty = set()
        for t, st, calls in ps:
            if not (t.op == "agg" and t.args[3] == "Err"):
                continue
            for (root, path), val in st.env.items():
                if root == ("M", T.param(1)) and path and path[0][0] == "f" and path[0][2] in {x for x, _ in stores}:
                    init = T.deref(T.param(1))
                    for e in path:
                        init = T.proj(init, e)
                    if an.simp(val, st.facts) is not init:
                        dirty.add(path[0][2])
        rep.require(not dirty, "no-residue", "%s|store-on-error-path" % q, w_, "fields %s written through self are unchanged on every error path" % sorted({x for x, _ in stores}),
                    "%s returns an error on a path on which it has already changed self.%s: a failed call leaves state behind that later calls act on" % (q, ", self.".join(sorted(dirty))))
    rep.ok("no-residue", "stores through self in elf_stream", "src/elf_stream.rs",
           "no accessor writes ehdr/shdrs/phdrs/stream_len/bufs through self (%d field stores inspected); the cache is written only via "
           "load_bytes/clear_cache (rule cache-writers)" % n)
    # stream_len is set once, from seek(End(0)), in new() (possibly through a private helper that only new() calls)
    fn = F.fn("elf_stream::CachingReader::new")
    if fn is not None:
        an = analyze_fn(F, fn)
        good = False
        END0 = T.agg("adt", "io::SeekFrom", 1, "End", [T.const("i64", 0)])

        def is_measured(an_, v, depth=0, bind=None):
            """v is the Ok payload of a seek(End(0)) performed in an_'s function, or of a helper (allowed to do I/O) that returns exactly that;
            bind = (caller analysis, call site) when an_ is such a helper, so that its seek target can be read in the caller's terms"""
            from ..engine import program, State
            prog_ = program(F)
            if not (v.op == "payload" and v.args[1] == "Ok"):
                return False
            src = v.args[0]
            seeks = [c for c in an_.calls() if c.declared_norm == "io::Seek::seek"]
            if len(seeks) == 1 and src is seeks[0].result:
                tgt = seeks[0].args[1]
                if bind is not None and tgt is not END0:
                    can, ccs = bind
                    stc = State(can.exit_env.get(ccs.block, {}), ccs.facts)
                    tgt = prog_.subst(can, stc, tgt, [prog_._stabilise(can, stc, a_) for a_ in ccs.args])
                return tgt is END0
            cs = an_.call_site_of(src)
            lf = prog_.local_fn(cs.callee) if cs is not None else None
            if lf is None or depth > 2 or lf["qual"] not in io_home(F):
                return False
            sub = analyze_fn(F, lf)
            oks = [t for t, st in sub.ret_leaves() or [] if not (t.op == "agg" and t.args[3] == "Err")]
            return bool(oks) and all(is_measured(sub, T.payload(t, "Ok"), depth + 1, (an_, cs)) for t in oks)
        for t, st in an.ret_leaves() or []:
            if t.op == "agg" and t.args[3] == "Ok":
                cr = t.args[4][0]
                if cr.op == "agg":
                    fields = dict(zip([f["name"] for f in F.adts["elf_stream::CachingReader"]["variants"][0]["fields"]], cr.args[4]))
                    good = is_measured(an, fields.get("stream_len"))
        rep.require(good, "no-residue", "stream_len = seek(End(0))", wh(fn["span"]), "stream length measured once while opening",
                    "CachingReader::new does not initialise stream_len from seek(SeekFrom::End(0))")
    rep.trusted_base += ["std's Read::read_exact returns Err on premature EOF and retries ErrorKind::Interrupted",
                        "a failed read leaves the reader position unspecified, which is harmless because every read is preceded by an absolute seek (rule ordering)"]
    rep.assumptions += ["panic-freedom on error paths is C08(a)"]
