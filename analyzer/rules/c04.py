"""C04 - endian-aware integer reads: canonical read template on the six EndianParse default methods,
is_little of the three impls, no overrides, NativeEndian alias."""
import re

from ..engine import analyze_fn, norm
from ..terms import T, Term, pp

LEVEL = "proof"
RULE_TEXT = ("template rule on engine output, per read method and per outcome: Ok value = T::from_{le,be}_bytes(try_into(data.get(off..checked_add(off,SIZE)))) "
             "selected by is_little(self); the only store to *offset stores that end and happens only on the Ok outcomes; every Err outcome "
             "leaves *offset untouched; SIZE = size_of(T) = declared return type; is_little of each impl evaluated exactly; no impl "
             "overrides a default method; NativeEndian aliases the impl matching the target's endianness")

METHODS = {"parse_u8_at": ("u8", 1), "parse_u16_at": ("u16", 2), "parse_u32_at": ("u32", 4), "parse_u64_at": ("u64", 8),
           "parse_i32_at": ("i32", 4), "parse_i64_at": ("i64", 8)}

from ..prov import norm as pnorm


def wh(span):
    return "%s:%d:%d" % (span["file"], span["line"], span["col"])


def check_method(F, rep, name, ty, size):
    q = "endian::EndianParse::" + name
    fn = F.fn(q)
    if fn is None:
        rep.bad("read-template", q, "src/endian.rs", "anchor missing: default method %s not found" % q)
        return
    w = wh(fn["span"])
    out_ty = norm(fn["sig"]["output"])
    m = re.match(r"result::Result<(\w+), parse::ParseError>$", out_ty)
    if not rep.require(bool(m) and m.group(1) == ty, "read-template", q + ":type", w, "returns Result<%s, ParseError>" % ty,
                       "%s returns %s, expected Result<%s, ParseError>" % (q, out_ty, ty)):
        return
    an = analyze_fn(F, fn)
    leaves = an.ret_leaves()
    if leaves is None:
        rep.bad("read-template", q, w, "UNRECOGNISED: cannot enumerate outcomes of %s" % q)
        return
    off_lv = (("M", T.param(2)), ())
    off0 = T.deref(T.param(2))
    data = T.param(3)
    end = T.payload(T.call("usize::checked_add", (), [off0, T.const("usize", size)]), "Some")
    rng = T.agg("adt", "ops::Range", 0, "Range", [off0, end])
    got = T.call("[T]::get", ("u8", "ops::Range<usize>"), [data, rng])
    arr = T.payload(T.call("convert::TryInto::try_into", ("&[u8]", "[u8; %d]" % size), [T.payload(got, "Some")]), "Ok")
    little = T.call("endian::EndianParse::is_little", ("Self",), [T.param(1)])
    want_le = T.agg("adt", "result::Result", 0, "Ok", [T.call("%s::from_le_bytes" % ty, (), [arr])])
    want_be = T.agg("adt", "result::Result", 0, "Ok", [T.call("%s::from_be_bytes" % ty, (), [arr])])
    # the same SIZE bytes taken in two steps: the tail from the cursor, then its first chunk (`data.get(off..)?.first_chunk::<SIZE>()?`)
    tailv = T.payload(T.call("[T]::get", ("u8", "ops::RangeFrom<usize>"), [data, T.agg("adt", "ops::RangeFrom", 0, "RangeFrom", [off0])]), "Some")
    arr2 = T.deref(T.payload(T.call("[T]::first_chunk", ("u8", str(size)), [tailv]), "Some"))
    arr3 = T.deref(T.payload(T.call("[T]::first_chunk", ("u8", str(size)), [T.payload(got, "Some")]), "Some"))      # data.get(off..end)?.first_chunk()
    alt_le = {pnorm(T.agg("adt", "result::Result", 0, "Ok", [T.call("%s::from_le_bytes" % ty, (), [a_])])) for a_ in (arr2, arr3)}
    alt_be = {pnorm(T.agg("adt", "result::Result", 0, "Ok", [T.call("%s::from_be_bytes" % ty, (), [a_])])) for a_ in (arr2, arr3)}
    seen = {"le": 0, "be": 0, "err": 0}
    okall = True
    for t, st in leaves:
        offv = an.read(st, off_lv)
        if t.op == "agg" and t.args[3] == "Ok":
            # compared in provenance normal form: insensitive to generic-argument spelling and to helper extraction
            if (pnorm(t) == pnorm(want_le) or pnorm(t) in alt_le) and ("true", little) in st.facts:
                seen["le"] += 1
            elif (pnorm(t) == pnorm(want_be) or pnorm(t) in alt_be) and ("false", little) in st.facts:
                seen["be"] += 1
            elif size == 1 and t.args[4][0] is T.deref(T.payload(T.call("[T]::get", ("u8", "usize"), [data, off0]), "Some")):
                # a single byte has no byte order: `*data.get(off)?` is the same read for every spec
                seen["le"] += 1
                seen["be"] += 1
            else:
                okall = False
                rep.bad("read-template", q + ":value", w,
                        "%s: an Ok outcome does not match the canonical read: got %s under [%s]; expected %s when is_little / %s otherwise"
                        % (q, pp(t), "little" if ("true", little) in st.facts else "big" if ("false", little) in st.facts else "?",
                           pp(want_le), pp(want_be)))
                continue
            if pnorm(offv) != pnorm(end):
                okall = False
                rep.bad("read-template", q + ":advance", w,
                        "%s: on success *offset = %s, expected %s (advance by exactly %d)" % (q, pp(offv), pp(end), size))
        elif t.op == "agg" and t.args[3] == "Err":
            seen["err"] += 1
            # completeness: a read is refused only because offset + width overflows, the buffer has no such range, or the (unreachable)
            # slice-to-array conversion failed - never on a further condition on the offset or the bytes
            def from_data(x, depth=0):
                # the buffer itself, or a sub-slice of it obtained by a successful get (narrowing in two steps)
                if x.op in ("refval", "deref"):
                    x = x.args[0]
                if x is data:
                    return True
                return depth < 3 and x.op == "payload" and x.args[1] == "Some" and x.args[0].op == "call" and x.args[0].args[0] == "[T]::get" \
                    and from_data(x.args[0].args[2][0], depth + 1)
            def failed(f):
                """(X, failing variant) when the fact says that X is None / Err - as a variant fact or as a fact about its discriminant"""
                if f[0] == "var" and isinstance(f[1], Term):
                    return f[1], f[2]
                if f[0] in ("eq", "ne") and isinstance(f[1], Term) and f[1].op == "discr" and f[2] in (0, 1) and f[1].args[0].op == "call":
                    is_result = f[1].args[0].args[0] in ("convert::TryInto::try_into", "convert::TryFrom::try_from")
                    d = f[2] if f[0] == "eq" else 1 - f[2]          # the discriminant value the fact establishes (two variants)
                    if is_result and d == 1:
                        return f[1].args[0], "Err"
                    if not is_result and d == 0:
                        return f[1].args[0], "None"
                return None, None
            causes = [f for f in (("var",) + failed(g) for g in st.facts if failed(g)[0] is not None) if f[1].op == "call" and (
                (f[1].args[0] == "usize::checked_add" and f[2] == "None") or (f[1].args[0] == "[T]::get" and f[2] == "None" and from_data(f[1].args[2][0]))
                or (f[1].args[0] in ("convert::TryInto::try_into", "convert::TryFrom::try_from", "[T]::first_chunk", "[T]::split_first_chunk") and f[2] in ("Err", "None")))]
            if not causes:
                okall = False
                rep.bad("read-template", q + ":refusal", w,
                        "%s: an error outcome (%s) is reached although the end offset was computed and the buffer has the range: reads that fit are refused" % (q, pp(t)[:100]))
            if pnorm(offv) != pnorm(off0):
                okall = False
                rep.bad("read-template", q + ":err-untouched", w,
                        "%s: an error outcome (%s) leaves *offset = %s instead of untouched" % (q, pp(t)[:120], pp(offv)))
        else:
            okall = False
            rep.bad("read-template", q + ":outcome", w, "UNRECOGNISED outcome %s of %s" % (pp(t)[:160], q))
    if okall:
        rep.require(seen["le"] == 1 and seen["be"] == 1 and seen["err"] >= 2, "read-template", q, w,
                    "outcomes: 1 little, 1 big, %d errors; offset advanced by %d only on success" % (seen["err"], size),
                    "%s: expected exactly one little-endian and one big-endian success outcome and >= 2 error outcomes, got %r" % (q, seen))
    # error kinds: overflow -> IntegerOverflow ; short buffer -> SliceReadError((off, end))
    errs = [t for t, _ in leaves if t.op == "agg" and t.args[3] == "Err"]
    txt = " ".join(pp(e) for e in errs)
    rep.require("IntegerOverflow" in txt and "SliceReadError(tuple(%s, %s))" % (pp(off0), pp(end)) in txt, "read-template", q + ":errors", w,
                "overflow -> IntegerOverflow, short buffer -> SliceReadError((off,end))",
                "%s: error outcomes are not {IntegerOverflow, SliceReadError((off, end))}: %s" % (q, txt[:300]))


def run(ctx, rep):
    F = ctx.facts()
    n = 0
    for name, (ty, size) in METHODS.items():
        check_method(F, rep, name, ty, size)
        n += 1
    rep.floor("read-template", "read methods", n, 6)

    # is_little of the three impls, evaluated exactly
    want = {"endian::LittleEndian": [(1, None)], "endian::BigEndian": [(0, None)],
            "endian::AnyEndian": [(1, "Little"), (0, "Big")]}
    nimpl = 0
    for imp in F["impls"]:
        if imp.get("trait") != "endian::EndianParse":
            continue
        nimpl += 1
        self_ty = imp["self_adt"] or imp["self"]
        names = sorted(i["name"] for i in imp["items"])
        rep.require(names == ["from_ei_data", "is_little"], "no-override", self_ty, wh(imp["span"]),
                    "implements only from_ei_data and is_little",
                    "impl EndianParse for %s overrides default methods: %s" % (self_ty, names))
        fn = F.fn("<%s as endian::EndianParse>::is_little" % self_ty)
        if fn is None or self_ty not in want:
            rep.bad("is-little", self_ty, wh(imp["span"]),
                    "UNRECOGNISED: EndianParse impl for %s (no reference for its byte order)" % self_ty)
            continue
        an = analyze_fn(F, fn)
        leaves = an.ret_leaves() or []
        adt_ = F.adts.get(self_ty)
        if adt_ is not None and len(adt_["variants"]) > 1 and not any(f[0] == "var" and f[1] is T.param(1) for _, st in leaves for f in st.facts):
            # the result is an expression of the variant (`self == AnyEndian::Little`, `matches!(..)` folded to a comparison of the
            # discriminant): evaluate it once per variant
            leaves = []
            for v_ in adt_["variants"]:
                for t_, st_ in (analyze_fn(F, fn, (("var", T.param(1), v_["name"]),)).ret_leaves() or []):
                    leaves.append((an.simp(t_, st_.facts) if t_.op != "const" else t_, st_))
        got = []
        for t, st in leaves:
            var = None
            for f in st.facts:
                if f[0] == "var" and f[1] is T.param(1):
                    var = f[2]
            if t.op != "const":
                tv_ = an.truth(st.facts, t)
                if tv_ is not None:
                    t = T.const("bool", 1 if tv_ else 0)
            got.append((t.args[1] if t.op == "const" else pp(t), var))
        rep.require(sorted(got, key=repr) == sorted(want[self_ty], key=repr), "is-little", self_ty, wh(fn["span"]),
                    "is_little == %r" % (want[self_ty],), "%s::is_little evaluates to %r, expected %r" % (self_ty, got, want[self_ty]))
    rep.floor("is-little", "EndianParse impls", nimpl, 3)

    # is_big default = !is_little
    fn = F.fn("endian::EndianParse::is_big")
    if fn is not None:
        an = analyze_fn(F, fn)
        rt = an.ret_term()
        lit = T.call("endian::EndianParse::is_little", ("Self",), [T.param(1)])
        rep.require(rt is T.un("Not", lit, "bool"), "is-little", "EndianParse::is_big", wh(fn["span"]), "is_big == !is_little",
                    "is_big returns %s" % (pp(rt) if rt is not None else None))

    # NativeEndian alias
    al = [a for a in F["aliases"] if a["path"] == "endian::NativeEndian"]
    target = {"little": "endian::LittleEndian", "big": "endian::BigEndian"}[F["config"]["endian"]]
    rep.require(len(al) == 1 and al[0]["target"] == target, "native-alias", "endian::NativeEndian", "src/endian.rs",
                "aliases %s on a %s-endian target" % (target, F["config"]["endian"]),
                "NativeEndian = %s on a %s-endian target" % (al[0]["target"] if al else None, F["config"]["endian"]))
    c = F.consts.get("endian::NativeEndian")
    if c is not None:
        rep.require(c["ty"] == target, "native-alias", "endian::NativeEndian const", "src/endian.rs", "constant has type " + target,
                    "NativeEndian constant has type %s" % c["ty"])
    rep.trusted_base += ["semantics of <[u8]>::get, TryInto<[u8;N]>, usize::checked_add and T::from_{le,be}_bytes (core)"]
    rep.assumptions += ["out-of-crate impls of EndianParse that override the default read methods are out of scope"]
    rep.info["establishes"] = "the effect summary of parse_*_at used by the engine for C02/C09/C14/C16 (Ok: value at off0, *off = off0+SIZE; Err: *off unchanged)"
