"""C06 - zero heap allocation in the slice parser; the crate builds in every feature set."""
import os
import shutil
import subprocess
import tempfile

from ..census import call_graph_sccs
from ..engine import norm
from ..runner import DEFAULT_FEATURES, FEATURE_SETS, effective

LEVEL = "proof"
CONFIG_HANDLED = True
RULE_TEXT = ("effect rule over the resolved call graph: every function reachable from the slice-parser API roots may only call "
             "callees defined in crate `core` (or in the crate itself) and may only hold values of ADTs defined in `core` or the "
             "crate; `core` has no allocator, so no path to the global allocator exists. Plus: all 8 feature subsets type-check, "
             "and without features the dependency set is {core, compiler_builtins}")

SCOPE = {"elf_bytes", "parse", "endian", "file", "section", "segment", "string_table", "note", "hash", "gnu_symver",
         "symbol", "relocation", "dynamic", "compression"}
ROOT_TRAITS = ("parse::ParseAt", "endian::EndianParse", "iter::Iterator", "iter::IntoIterator", "clone::Clone",
               "default::Default", "cmp::PartialEq", "cmp::Eq", "parse::ReadBytesExt")
EXCLUDED_TRAITS = {
    "fmt::Debug": "formatting is not an accessor of the slice parser (and writes into the caller's Formatter)",
    "fmt::Display": "<ParseError as Display>::fmt forwards to std::io::Error's Display under `std`; not a parser accessor",
    "error::Error": "error-trait plumbing, not a parser accessor",
    "convert::From<io::Error>": "conversion used by the stream parser only",
}
OK_CRATES = {"core", "compiler_builtins"}


def wh(span):
    return "%s:%d:%d" % (span["file"], span["line"], span["col"])


def is_root(fn, scope):
    if fn["module"] not in scope or fn["kind"] == "Closure":
        return False
    imp = fn.get("impl")
    if imp and imp.get("trait"):
        tr = norm(imp["trait"])
        q = norm(fn["qual"])
        for ex in EXCLUDED_TRAITS:
            if (" as %s>" % ex) in q or tr == ex:
                return False
        return any(tr == t for t in ROOT_TRAITS)
    if fn.get("trait_default"):
        return True
    return bool(fn.get("reachable_pub"))


def reach(F, roots, g):
    seen = set()
    st = [r["id"] for r in roots]
    while st:
        x = st.pop()
        if x in seen:
            continue
        seen.add(x)
        st.extend(g.get(x, ()))
    return seen


def effect_violations(F, fn):
    """(kind, key, where, msg) for everything in fn that leaves `core`"""
    crate = F["crate"]
    out = []
    for cr, path in fn["body"]["adt_crates"]:
        if cr not in OK_CRATES and cr != crate:
            out.append(("foreign-type", "%s|type|%s" % (fn["qual"], norm(path)), wh(fn["span"]),
                        "%s holds a value of %s, defined in crate `%s`" % (fn["qual"], norm(path), cr)))
    n = {}
    for blk in fn["body"]["blocks"]:
        t = blk["term"]
        if blk["cleanup"] or t["k"] != "call":
            continue
        c = t["callee"]
        if "indirect" in c:
            out.append(("indirect", "%s|indirect" % fn["qual"], wh(t["span"]), "indirect call in %s" % fn["qual"]))
            continue
        cr = c.get("resolved_crate") or c.get("crate")
        if cr in OK_CRATES or cr == crate:
            continue
        name = norm(c.get("resolved") or c["qual"])
        k = "%s|call|%s" % (fn["qual"], name)
        n[k] = n.get(k, 0) + 1
        if n[k] == 1:
            out.append(("foreign-callee", k, wh(t["span"]),
                        "%s calls %s, defined in crate `%s` (not `core`): may allocate" % (fn["qual"], name, cr)))
    return out


def run_effect(F, rep, label, floor_roots):
    in_scope = lambda fn: fn["module"] in SCOPE
    _, g = call_graph_sccs(F, in_scope)
    roots = [fn for fn in F.all_fns() if is_root(fn, SCOPE)]
    seen = reach(F, roots, g)
    ncalls = 0
    for fn in F.all_fns():
        if fn["id"] not in seen:
            continue
        vs = effect_violations(F, fn)
        ncalls += sum(1 for b in fn["body"]["blocks"] if not b["cleanup"] and b["term"]["k"] == "call")
        if vs:
            for kind, key, where, msg in vs:
                rep.bad(label + "no-alloc-effect", key, where, msg)
        else:
            rep.ok(label + "no-alloc-effect", fn["qual"], wh(fn["span"]), "all callees and local ADTs are in core or the crate")
    rep.floor(label + "no-alloc-effect", "API roots", len(roots), floor_roots)
    return len(roots), len(seen), ncalls


def run(ctx, rep):
    F = ctx.facts(DEFAULT_FEATURES)
    nroots, nreach, ncalls = run_effect(F, rep, "", 120)
    rep.info.update({"roots": nroots, "reachable_functions": nreach, "call_sites_checked": ncalls,
                     "excluded_roots": EXCLUDED_TRAITS})
    # positive control on real code: the same rule applied to the (allocating by design) stream parser must fire
    pos = 0
    for fn in F.all_fns():
        if fn["module"] == "elf_stream":
            pos += len(effect_violations(F, fn))
    rep.require(pos >= 10, "self-test", "rule fires on elf_stream", "-", "%d allocation/IO effects found in elf_stream" % pos,
                "positive control failed: the effect rule found only %d effects in the allocating stream parser" % pos)

    # configuration facts
    F0 = ctx.facts(())
    deps = sorted(F0["deps"])
    rep.require(set(deps) <= {"core", "compiler_builtins"} and "core" in deps, "deps", "no-features dependency set", "Cargo.toml",
                "crates = %s" % deps, "with default features disabled the crate depends on %s" % deps)
    rep.require(F0["no_std"], "deps", "no-features build is no_std", "src/lib.rs", "no std in crate graph", "std is linked without features")
    run_effect(F0, rep, "[no-features] ", 100)
    if ctx.tier == "thorough":
        Fa = ctx.facts(("alloc",))
        d = set(Fa["deps"])
        rep.require("std" not in d, "deps", "alloc-only build does not pull std", "src/lib.rs", "crates = %s" % sorted(d),
                    "feature alloc alone links std: %s" % sorted(d))
        seen = set()
        for fs in FEATURE_SETS:
            e = effective(fs)
            if e in seen or e == tuple(sorted(DEFAULT_FEATURES)) or e == ():
                continue
            seen.add(e)
            run_effect(ctx.facts(e), rep, "[%s] " % "+".join(e), 100)

    # every feature subset type-checks (stable toolchain, as a user would build it)
    tgt = tempfile.mkdtemp(prefix="elf-c06-")
    try:
        for fs in FEATURE_SETS:
            args = ["cargo", "check", "--offline", "--lib", "-q", "--no-default-features"]
            if fs:
                args += ["--features", ",".join(fs)]
            r = subprocess.run(args, cwd=ctx.repo, capture_output=True, text=True,
                               env=dict(os.environ, CARGO_TARGET_DIR=tgt, CARGO_NET_OFFLINE="true", RUSTFLAGS="-Awarnings"))
            rep.require(r.returncode == 0, "feature-matrix", "cargo check --features %s" % (",".join(fs) or "(none)"), "Cargo.toml",
                        "type-checks", "feature subset {%s} does not compile: %s" % (",".join(fs), r.stderr[-600:]))
    finally:
        shutil.rmtree(tgt, ignore_errors=True)
    rep.trusted_base += ["crate `core` contains no heap allocation (it has no allocator)",
                        "rustc's resolved callees (Instance::try_resolve) and crate dependency list"]
    rep.assumptions += ["user impls of EndianParse / ParseAt may allocate; out of scope",
                       "calls made on a type parameter dispatch to in-crate impls satisfying its bounds (all are in the reachable set)"]
