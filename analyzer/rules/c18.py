"""C18 - a truncated (or extended) file yields errors or unchanged answers: length non-interference."""
from ..engine import analyze_fn, norm as nm, program, ENDIAN_READS
from ..terms import T, Term, pp

LEVEL = "proof"
RULE_TEXT = ("non-interference rule: the length of the file is observable only through failure. The file buffer (ElfBytes.data and the data "
             "parameters it is handed to, propagated interprocedurally) may only be (i) the receiver of get(a..b) with a closed range, (ii) the "
             "data argument of a bounded parse, (iii) moved into another file-buffer place; its len()/is_empty()/open ranges/iteration/indexing "
             "and the stream's measured length may only feed a comparison one of whose outcomes leads exclusively to Err returns; "
             "failure propagation rule: the Option/Result of every read of the file buffer and of every call to a function that transitively reads it "
             "is examined on every path and each outcome reached with it having failed is an Err (or the result itself, forwarded); the stream "
             "parser's I/O results obey the same discipline")
EXPLANATION_PROOF = (
    "If a query succeeds on a prefix P of file F, every byte it read was obtained by an exact in-bounds get(a..b) or bounded parse on P, which returns "
    "the same bytes on F (P is a prefix); a read that does not fit in P fails and by the propagation rule the query then fails too, so a successful query on P made only fitting reads; no other value computed by the query depends on the buffer length except through comparisons that "
    "would have ended in Err; hence the query computes the same answer on F. Symmetrically for appended bytes.")

ROOTS = {"elf_bytes::ElfBytes::minimal_parse": 1}     # function -> index of the file-buffer parameter
PARSE_DATA_ARG = {"parse::ParseAt::parse_at": 3}


def wh(span):
    return "%s:%d:%d" % (span["file"], span["line"], span["col"])


def is_buf(t, bufs):
    if t in bufs:
        return True
    if t.op == "refval" and t.args[0] in bufs:
        return True
    return False


LOCAL_FNS = [set()]


class Use:
    def __init__(self, kind, where, detail, term=None):
        self.kind, self.where, self.detail, self.term = kind, where, detail, term


def classify_uses(t, bufs, out, ctx):
    """walk a term; record every occurrence of a file-buffer value with the context it occurs in"""
    if not isinstance(t, Term):
        if isinstance(t, tuple):
            for x in t:
                classify_uses(x, bufs, out, ctx)
        return
    op, a = t.op, t.args
    if is_buf(t, bufs):
        out.append(("bare", ctx, t))
        return
    if op == "call":
        f, g, args = a
        if f == "[T]::get" and len(args) == 2 and is_buf(args[0], bufs):
            r = args[1]
            if r.op == "agg" and r.args[1] == "ops::Range":
                out.append(("get-closed", ctx, t))
                for x in r.args[4]:
                    classify_uses(x, bufs, out, ctx)
            elif len(g) > 1 and g[1].startswith("ops::Range<"):
                out.append(("get-closed", ctx, t))   # index type is a closed Range value
                classify_uses(r, bufs, out, ctx)
            else:
                out.append(("get-open", ctx, t))
            return
        pa = None
        if f == "parse::ParseAt::parse_at" or f.endswith(" as parse::ParseAt>::parse_at"):
            pa = 3
        if f in ENDIAN_READS:
            pa = 2
        if pa is not None and pa < len(args) and is_buf(args[pa], bufs):
            out.append(("parse", ctx, t))
            for i, x in enumerate(args):
                if i != pa:
                    classify_uses(x, bufs, out, ctx)
            return
        local = f in LOCAL_FNS[0]
        for i, x in enumerate(args):
            if is_buf(x, bufs):
                if not local:      # the result of an in-crate callee that was given the buffer: classified at its call site
                    out.append(("call-arg", ctx, t, i))
            else:
                classify_uses(x, bufs, out, ctx)
        return
    if op == "len" and is_buf(a[0], bufs):
        out.append(("len", ctx, t))
        return
    if op == "deref" and is_buf(a[0], bufs):
        out.append(("deref", ctx, t))
        return
    for c in t.children():
        classify_uses(c, bufs, out, ctx)


def err_only_guard(an, d):
    """d is a switch discriminant (a boolean, or the variant of an Option/Result): is one of its outcomes followed by Err returns only?"""
    leaves = an.ret_leaves()
    if leaves is None:
        return False
    if d.op == "discr":
        for vs in (["None", "Some"], ["Ok", "Err"], ["Continue", "Break"]):
            base, names = an.norm_var(d.args[0], vs)
            if base is None:
                continue
            for nme in names:
                sel = [t for t, st in leaves if ("var", base, nme) in st.facts]
                if sel and all(t.op == "agg" and t.args[3] == "Err" for t in sel):
                    return True
        return False
    sides = {}
    for truth in ("true", "false"):
        sel = [t for t, st in leaves if (truth, d) in st.facts]
        sides[truth] = sel
        if sel and all(t.op == "agg" and t.args[3] == "Err" for t in sel):
            return True
    # an assertion on the length (`debug_assert!(len as u64 <= self.stream_len)`): one side never returns at all, so the length
    # decides nothing about any answer (whether the assertion can fail is the panic census's question, C08 / C01)
    if (not sides["true"]) != (not sides["false"]):
        return True
    return False


from ..streamrules import failure_propagated, io_home


def run(ctx, rep):
    F = ctx.facts()
    prog = program(F)
    LOCAL_FNS[0] = set(F.fns.keys())
    # ---------------------------------------------------------------- slice parser: interprocedural taint of the file buffer
    fileparam = dict(ROOTS)          # fn qual -> set of param indices holding the file buffer
    fileparam = {k: {v} for k, v in fileparam.items()}
    data_field = None
    adt = F.adts.get("elf_bytes::ElfBytes")
    for i, fd in enumerate(adt["variants"][0]["fields"]):
        if fd["name"] == "data":
            data_field = ("f", i, "data")
    work = list(fileparam)
    # all &self methods of ElfBytes see the buffer through self.data
    methods = [fn for fn in F.all_fns() if fn["qual"].startswith("elf_bytes::ElfBytes::") and fn.get("sig")
               and fn["sig"]["inputs"] and fn["sig"]["inputs"][0].startswith("&elf_bytes::ElfBytes")]
    seen_fns = set()
    n_uses = 0
    counts = {}
    todo = [(q, frozenset(ix), False) for q, ix in fileparam.items()] + [(fn["qual"], frozenset(), True) for fn in methods]
    done = set()
    while todo:
        q, pidx, via_self = todo.pop()
        if (q, pidx, via_self) in done:
            continue
        done.add((q, pidx, via_self))
        fns = F.fns.get(q) or []
        if len(fns) != 1:
            continue
        fn = fns[0]
        an = analyze_fn(F, fn)
        bufs = {T.param(i) for i in pidx}
        if via_self:
            bufs.add(T.proj(T.deref(T.param(1)), data_field))
        seen_fns.add(q)
        w0 = wh(fn["span"])
        uses = []
        for cs in an.calls():
            for i, a in enumerate(cs.arg_values()):
                if is_buf(a, bufs):
                    uses.append(("direct-arg", cs, a, i))
                else:
                    tmp = []
                    classify_uses(a, bufs, tmp, cs)
                    uses.extend(tmp)
        for b, d in an.switches.items():
            if b in an.entry:
                tmp = []
                classify_uses(d, bufs, tmp, ("switch", b, d))
                uses.extend(tmp)
        for a in an.asserts:
            tmp = []
            classify_uses(a["cond"], bufs, tmp, ("assert", a["block"], a["cond"]))
            uses.extend(tmp)
        rt = an.ret_term()
        for t, st in an.ret_leaves() or []:
            tmp = []
            classify_uses(t, bufs, tmp, ("return", None, t))
            uses.extend(tmp)
        for u in uses:
            n_uses += 1
            kind = u[0]
            counts[kind] = counts.get(kind, 0) + 1
            if kind == "direct-arg":
                _, cs, a, i = u
                name = cs.declared_norm
                key = "%s|%s|arg%d" % (q, cs.callee_norm, i)
                lf = prog.local_fn(cs.callee)
                if name in ("[T]::len", "[T]::is_empty") and i == 0:
                    lt = T.length(a.args[0] if a.op == "refval" else a)
                    okl, why = True, ""
                    for b2, d2 in an.switches.items():
                        if b2 in an.entry and d2.mentions(lt) and not err_only_guard(an, d2):
                            okl, why = False, "a branch on it has two non-error outcomes"
                    for cs2 in an.calls():
                        if cs2 is not cs and any(x.mentions(lt) for x in cs2.arg_values()):
                            okl, why = False, "it flows into %s" % cs2.callee_norm
                    for t2, _ in an.ret_leaves() or []:
                        if t2.mentions(lt) and not (t2.op == "agg" and t2.args[3] == "Err"):
                            okl, why = False, "it flows into a returned value"
                    rep.require(okl, "file-length-observed", key, cs.where(), "len() only decides between proceeding and an error",
                                "%s observes the length of the file buffer other than to report an error (%s): answers can differ between a file and its prefix" % (q, why))
                elif name == "[T]::get" and i == 0:
                    r = cs.arg_values()[1]
                    closed = r.op == "agg" and r.args[1] == "ops::Range"
                    if not closed and r.op == "param":
                        closed = nm(an.local_ty.get(r.args[0], "")).startswith("ops::Range<")
                    rep.require(closed, "file-buffer-use", key, cs.where(), "get(a..b) with a closed range",
                                "%s slices the file buffer with an open range %s: the result depends on the file length" % (q, pp(r)[:100]))
                elif (name == "parse::ParseAt::parse_at" and i == 3) or (name in ENDIAN_READS and i == 2):
                    rep.ok("file-buffer-use", key, cs.where(), "bounded parse on the buffer")
                elif lf is not None:
                    rep.ok("file-buffer-use", key, cs.where(), "passed on to %s (analysed with that parameter as file buffer)" % lf["qual"])
                    todo.append((lf["qual"], frozenset({i + 1}), False))
                else:
                    rep.bad("file-buffer-use", key, cs.where(),
                            "%s passes the file buffer to %s: its length (or bytes beyond the designated range) become observable" % (q, cs.callee_norm))
            elif kind in ("get-closed", "parse"):
                rep.ok("file-buffer-use", "%s|%s" % (q, kind), w0, "exact in-bounds read")
            elif kind == "bare":
                ctxv = u[1]
                if isinstance(ctxv, tuple) and ctxv[0] == "return":
                    rep.ok("file-buffer-use", "%s|stored" % q, w0, "moved into the returned handle")
                else:
                    rep.ok("file-buffer-use", "%s|moved" % q, w0, "moved inside an aggregate argument")
            elif kind == "len":
                ctxv = u[1]
                ok = isinstance(ctxv, tuple) and ctxv[0] == "switch" and err_only_guard(an, ctxv[2])
                rep.require(ok, "file-length-observed", "%s|len" % q, w0, "len() only decides between proceeding and an error",
                            "%s observes the length of the file buffer (%s) other than to report an error: answers can differ between a file and its prefix"
                            % (q, pp(u[2])[:120]))
            else:
                rep.bad("file-buffer-use", "%s|%s" % (q, kind), w0,
                        "%s uses the file buffer in a length-revealing way (%s): %s" % (q, kind, pp(u[2])[:160]))
    # ---------------------------------------------------------------- failed reads stay failures
    # A read that does not fit in the prefix fails; the answer on the prefix may then only be an error.  So the Option/Result of every
    # read of the file buffer, and of every call to a function that (transitively) reads it, must reach the caller as an error.
    def primitive_read(q, cs):
        name = cs.declared_norm
        if not (name in ("[T]::get", "parse::ParseAt::parse_at", "parse::ReadBytesExt::get_bytes") or name in ENDIAN_READS):
            return False
        return any(is_buf(a, bufs_of(q)) for a in cs.arg_values())

    def bufs_of(q):
        bufs = {T.param(i) for (qq, pidx, _) in done if qq == q for i in pidx}
        if any(vs for (qq, _, vs) in done if qq == q):
            bufs.add(T.proj(T.deref(T.param(1)), data_field))
        if "{closure" in q:
            # a closure inside an ElfBytes method reaches the buffer through the captured `self`: (*(*env).k).data
            an_ = analyze_fn(F, F.fns[q][0])
            for cs_ in an_.calls():
                for a in cs_.arg_values():
                    for x in a.subterms():
                        if x.op == "proj" and x.args[1] == data_field and x.args[0].op == "deref" and x.args[0].args[0].op == "proj" \
                                and x.args[0].args[0].args[0] in (T.deref(T.param(1)), T.param(1)):
                            bufs.add(x)
        return bufs

    def passes_file(q, cs, lf):
        """does this call hand the file buffer (or the ElfBytes handle that holds it) to the callee?"""
        vals = cs.arg_values()
        if any(is_buf(a, bufs_of(q)) for a in vals):
            return True
        ins = lf.get("sig", {}).get("inputs", []) if lf.get("sig") else []
        return bool(ins) and nm(ins[0]).startswith("&elf_bytes::ElfBytes") and len(vals) > 0
    readers = set()
    scope = set(seen_fns) | {fn["qual"] for fn in F.all_fns() if "{closure" in fn["qual"] and fn["qual"].split("::{closure")[0] in seen_fns}
    for q in scope:
        if any(primitive_read(q, cs) for cs in analyze_fn(F, F.fns[q][0]).calls()):
            readers.add(q)
    changed = True
    while changed:
        changed = False
        for q in sorted(scope - readers):
            fn = F.fns[q][0]
            for cs in analyze_fn(F, fn).calls():
                lf = prog.local_fn(cs.callee)
                if lf is not None and lf["qual"] in readers and passes_file(q, cs, lf):
                    readers.add(q)
                    changed = True
                    break
    rep.info["readers"] = sorted(readers)
    n_prop = 0
    for q in sorted(scope):
        fn = F.fns[q][0]
        an = analyze_fn(F, fn)
        for cs in an.calls():
            lf = prog.local_fn(cs.callee)
            reads = (lf is not None and lf["qual"] in readers and lf["qual"] != q and passes_file(q, cs, lf)) or primitive_read(q, cs)
            if not reads:
                continue
            dty = nm(cs.term["dest"]["ty"])
            if not (dty.startswith("result::Result") or dty.startswith("option::Option")):
                continue
            n_prop += 1
            ok, why = failure_propagated(an, cs, dty)
            rep.require(ok, "read-failure-propagates", "%s|%s" % (q, cs.callee_norm), cs.where(), why,
                        "%s: a failed read in %s does not end in an error (%s): on a truncated file the query answers differently instead of failing"
                        % (q, cs.callee_norm, why))
            if ok and "{closure" in q:
                # the closure's own result goes to a core combinator, which this rule cannot follow
                rep.bad("read-failure-propagates", "%s|closure" % q, cs.where(),
                        "UNRECOGNISED: the closure %s reads the file (via %s); its result is consumed by a combinator, so propagation of a failed read cannot be followed" % (q, cs.callee_norm))
    rep.floor("read-failure-propagates", "reads / read-performing calls", n_prop, 20)
    rep.floor("file-buffer-use", "functions seeing the file buffer", len(seen_fns), 20)
    rep.floor("file-buffer-use", "uses classified", n_uses, 20)
    rep.info["use_counts"] = counts
    # the buffer stored in the handle is the caller's buffer
    # ---------------------------------------------------------------- stream parser: stream_len
    if "std" in F["config"]["features"]:
        cr = F.adts.get("elf_stream::CachingReader")
        sl = [("f", i, "stream_len") for i, fd in enumerate(cr["variants"][0]["fields"]) if fd["name"] == "stream_len"][0]
        n_obs = 0
        for fn in F.all_fns():
            if fn["module"] != "elf_stream":
                continue
            an = analyze_fn(F, fn)

            from .c08 import _bound_to_stream_len
            sl_params = {T.param(i) for i in range(1, an.body["arg_count"] + 1) if an.names.get(i) == "stream_len" and _bound_to_stream_len(an, i)}

            def mentions(t):
                if t in sl_params:
                    return True        # a parameter every caller binds to the reader's stream_len
                # occurrences inside the call of load_bytes' private fetch helper do not count: its successful result is the bytes of the
                # requested range whatever the stream length is (the helper's own use of the length is judged in the helper)
                if t.op == "proj" and t.args[1] == sl:
                    return True
                if t.op == "call" and t.args[0] in io_home(F):
                    return False
                return any(mentions(c) for c in t.children())

            for b, d in an.switches.items():
                if b in an.entry and mentions(d):
                    n_obs += 1
                    ds = [d]
                    if d.op == "ite" and d.args[1].op == "const" and d.args[2].op == "const":
                        ds = [d.args[0]]      # the discriminant of `if c {None} else {Some(..)}` (a modelled checked operation): a branch on c
                    if d.op == "discr":
                        # `helper(..)?` where the helper is a decision tree (`if cached {Ok(A)} else if end <= len {Ok(B)} else {Err}`):
                        # the branch is on the tree's conditions; only those that mention the stream length are observations of it
                        bx, _ = an.norm_var(d.args[0], ["Continue", "Break"])
                        if bx is not None and bx.op == "ite":
                            conds = []

                            def walk(x):
                                if x.op == "ite":
                                    conds.append(x.args[0])
                                    walk(x.args[1])
                                    walk(x.args[2])
                            walk(bx)
                            ds = [c_ for c_ in conds if mentions(c_)] or [bx.args[0]]
                    for d in ds:
                        rep.require(err_only_guard(an, d), "stream-length-observed", "%s|guard" % fn["qual"], wh(an.blocks[b]["term"]["span"]),
                                    "stream length only decides between proceeding and an error",
                                    "%s branches on the stream length without one branch being error-only: %s" % (fn["qual"], pp(d)[:160]))
            for cs in an.calls():
                if cs.callee.get("resolved_crate") == F["crate"] and cs.callee_qual.startswith("elf_stream::CachingReader::"):
                    continue
                if cs.declared_norm in ("ops::Try::branch", "ops::FromResidual::from_residual"):
                    continue      # `?` plumbing: the switch that follows is judged above
                if cs.result.op != "fresh" and cs.callee.get("resolved_crate") != F["crate"]:
                    continue      # a pure core function the engine follows as a term (checked_sub, then_some, ok_or ...): its uses are judged where they branch / return
                lf_ = prog.local_fn(cs.callee)
                if lf_ is not None and lf_["qual"] in io_home(F):
                    continue      # the private fetch helper of load_bytes: part of the same bounded-read mechanism (judged by the I/O protocol rule)
                for a in cs.arg_values():
                    if mentions(a) and "fmt::" not in cs.declared_norm and not (a.op == "refval" and not mentions(a.args[0]) ):
                        # passing &self (whole reader) to its own methods is fine; a computed value is not
                        if a.op in ("refval", "ref") or a.op == "deref":
                            continue
                        rep.bad("stream-length-observed", "%s|%s" % (fn["qual"], cs.callee_norm), cs.where(),
                                "%s passes a value computed from the stream length to %s" % (fn["qual"], cs.callee_norm))
            if fn["impl"] if "impl" in fn else False:
                pass
            for t, st in an.ret_leaves() or []:
                if t.op == "agg" and t.args[3] == "Ok" and fn["qual"] != "elf_stream::CachingReader::new":
                    val = t.args[4][0]
                    if mentions(val) and not fn["qual"].startswith("elf_stream::ElfStream::open_stream"):
                        rep.bad("stream-length-observed", "%s|return" % fn["qual"], wh(fn["span"]), "%s returns a value computed from the stream length" % fn["qual"])
        rep.floor("stream-length-observed", "guards on stream_len", n_obs, 1)
        # the stream parser's reads: a range beyond the measured length is refused by load_bytes; that refusal (and every I/O failure)
        # must reach the caller as an error - the same discipline rule as C17
        from ..streamrules import rule_error_discipline
        rule_error_discipline(F, rep, "stream-read-failure-propagates")
        # ... and a refused or failed read leaves nothing in the cache that a later query on the same handle could answer from (a buffer
        # inserted before the range check / the read succeeded turns the error of the first query into zeros for the second)
        from ..streamrules import rule_io_protocol
        rule_io_protocol(F, rep, "stream-refusal-leaves-no-buffer")
        # ... and what a query gets back is the range it asked for, whatever earlier queries left in the cache (a buffer cached for another
        # range with the same start, handed back whole, makes the answer depend on which earlier query succeeded on the prefix)
        from ..streamrules import rule_cache_protocol, rule_load_before_get
        rule_cache_protocol(F, rep, "stream-cache-exact-range")
        rule_load_before_get(F, rep, "stream-load-before-get")
    rep.info["argument"] = EXPLANATION_PROOF
    # "bounded parses read the buffer only through get(a..b)": the read template, C04
    from ._common import premise
    premise(ctx, rep, "C04", "every integer read is data.get(off..off+width) or an error", rules={"read-template", "no-override"}, where="src/endian.rs")
    rep.trusted_base += ["<[u8]>::get(a..b) returns exactly bytes [a,b) or None; bounded parses read only via get (C04)",
                        "sub-buffers (section / segment slices) have header-designated extents and are therefore not length-tainted"]
