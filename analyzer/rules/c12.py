"""C12 - SysV hash lookup: soundness clause, lookup linkage, hash-function form."""
from ..engine import analyze_fn, program
from ..terms import T, pp
from .. import prov
from ..prov import norm, show, P, F_, C
from ..hashrules import soundness, sysv_hash_form, fact_norms, wh, walk_exits, walk_compares, early_exits, cond_holds, counter_phi, range_of_next

LEVEL = "other"
EXPLANATION = (
    "Decided: (soundness, any table bytes) every returned (i, symbol) has symbol = symtab.get(i) with that same i and is reached only after "
    "strtab.get_raw(symbol.st_name) compared equal to the query; (lookup linkage, necessary for completeness) early None exactly for an empty bucket "
    "array, first index = buckets.get(sysv_hash(name) % nbucket), next index = chains.get(index), walk ends on index 0 (termination bound is C16); "
    "(hash function) sysv_hash folds bytes in order with seed 0, step h=(h*16+c) mod 2^32 then h ^= (h>>24)&0xf0, result & 0x0fffffff - the folded "
    "form of the gABI elf_hash (ring normal form over Z/2^32 for the linear part). NOT decided: completeness on well-formed tables as a whole, and "
    "equality with the gABI text for a hash written in a form that is not enumerated (reported as UNRECOGNISED).")
RULE_TEXT = "dominance/fact rule on the Some outcomes; provenance of the chain walk; ring-normal-form template of the hash step"


def run(ctx, rep):
    F = ctx.facts()
    prov.set_program(program(F))
    an = soundness(F, rep, "hash::SysVHashTable::find", "soundness")
    if an is not None:
        fn = an.fn
        w = wh(fn["span"])
        me = P(1)
        nb = ("Div", ("len", F_(F_(me, "buckets"), "data")), ("call", "parse::ParseAt::size_for", (F_(F_(me, "buckets"), "class"),)))
        hashv = ("call", "hash::sysv_hash", (P(2),))
        first = ("payload", ("call", "parse::ParsingTable::get", (F_(me, "buckets"), ("Rem", hashv, nb))), "Ok")
        # index accumulator: header phi with entry = bucket value, back edge = chains.get(index)
        found = False
        zero_when_empty = False
        idx_phis = []
        for ph, ops in an.phi_ops.items():
            if ph.args[0][1] not in an.loops:
                continue
            body = an.loops[ph.args[0][1]]
            ent = [norm(v) for p, v in ops.items() if p not in body]
            bk = [norm(v) for p, v in ops.items() if p in body]
            empty_eq = ("Eq",) + tuple(sorted((nb, C(0)), key=repr))
            # an empty bucket array may also be folded into the start index: 0 (the chain terminator) when nbucket == 0
            first_or_zero = ("ite", empty_eq, C(0), first)
            if ent == [first_or_zero]:
                zero_when_empty = True
            if ent in ([first], [first_or_zero]) and bk and set(bk) == {("payload", ("call", "parse::ParsingTable::get", (F_(me, "chains"), norm(ph))), "Ok")}:
                found = True
                idx_phis.append(norm(ph))
                # the walk continues only while index != 0
                sw = [b for b, d in an.switches.items() if b in body and norm(d) in (("Ne",) + tuple(sorted((norm(ph), C(0)), key=repr)),
                                                                                   ("Eq",) + tuple(sorted((norm(ph), C(0)), key=repr)))]
                rep.require(bool(sw), "linkage", "find:stop-on-zero", w, "the chain walk tests index != 0", "the chain walk does not stop on index 0 (STN_UNDEF)")
        rep.require(found, "linkage", "find:walk", w, "index starts at buckets[hash % nbucket] and follows chains[index]",
                    "SysVHashTable::find: the chain walk is not buckets.get(sysv_hash(name) % nbucket) followed by chains.get(index)")
        # ways out of the walk: index == 0, the step counter reaching nchain, a failed read, or the match
        nchain = ("Div", ("len", F_(F_(me, "chains"), "data")), ("call", "parse::ParseAt::size_for", (F_(F_(me, "chains"), "class"),)))
        hdrs = list(an.loops)
        ctrs = counter_phi(an, hdrs[0]) if len(hdrs) == 1 else []

        def stop(d, val, sw):
            if d[0] == "discr" and d[1][0] == "fresh":
                r = range_of_next(an, sw)
                if r is not None:
                    if r != (C(0), nchain):
                        return "bounds the number of steps by the range %s instead of 0..nchain" % (show(r)[:120],)
                    return val == "0" or "leaves while the range still has entries"
            if d[0] in ("Ne", "Eq") and C(0) in d[1:] and any(x in idx_phis for x in d[1:]):
                return (val == "0") == (d[0] == "Ne") or "continues only while index == 0"
            if d[0] == "Lt" and d[1] in idx_phis and d[2] == nchain:
                return val == "0" or "leaves while the index is in range"   # an index >= nchain cannot occur in a well-formed table
            if d[0] == "Lt" and d[1] in ctrs:
                if d[2] != nchain:
                    return "bounds the number of steps by %s instead of the chain count (a chain can be as long as nchain)" % show(d[2])[:120]
                return val == "0" or "leaves while the step bound is not yet reached"
            return None
        walk_exits(an, rep, "linkage", "find", w, stop, "index == 0, or nchain steps taken")
        walk_compares(an, rep, "linkage", "find", w, lambda d, val: False, "")

        def early_ok(d, val):
            if d == nb:
                return val == "0"                  # `match self.buckets.len() { 0 => return Ok(None), n => .. }`
            atom, pol = cond_holds(d, val)
            if atom[0] == "Eq" and len(atom) == 3:
                atom = ("Eq",) + tuple(sorted(atom[1:], key=repr))
            return pol and atom in (("Eq",) + tuple(sorted((nb, C(0)), key=repr)), ("Lt", nb[1], nb[2]))
        early_exits(an, rep, "linkage", "find", w, early_ok, "no buckets")
        # early None exactly for empty buckets
        empties = 0
        for t, st in an.ret_leaves() or []:
            if t.op == "agg" and t.args[3] == "Ok" and t.args[4][0].op == "agg" and t.args[4][0].args[3] == "None":
                fs = fact_norms(st)
                if ("true", ("Eq",) + tuple(sorted((nb, C(0)), key=repr))) in fs or ("true", ("Lt", nb[1], nb[2])) in fs:     # nbucket == 0, also written data.len() < entry size
                    empties += 1
        rep.require(empties == 1 or (zero_when_empty and found), "linkage", "find:empty", w, "None for an empty bucket array (early return, or start index 0 = end of chain)",
                    "%d early-None outcomes guarded by buckets.is_empty()" % empties)
    # constructor: header then nbucket words then nchain words
    fn = F.fn("hash::SysVHashTable::new")
    if fn is not None:
        an2 = analyze_fn(F, fn)
        from ..hashrules import ctor_refusals
        ctor_refusals(rep, "linkage", "new", an2, wh(fn["span"]))
        outs = [norm(v) for v, _ in prov.ok_outcomes(an2)]
        data = P(3)
        H = prov.PARSE("hash::SysVHashHeader", P(1), P(2), C(0), data)
        b_end = prov.ADD(C(8), prov.MUL(C(4), F_(H, "nbucket")))
        c_end = prov.ADD(b_end, prov.MUL(C(4), F_(H, "nchain")))
        tab = lambda a, b: ("agg", "parse::ParsingTable", "ParsingTable", (P(1), P(2), prov.SLICE(data, a, b), ("agg", "marker::PhantomData", "PhantomData", ())))
        want = ("agg", "hash::SysVHashTable", "SysVHashTable", (tab(C(8), b_end), tab(b_end, c_end)))
        rep.require(outs == [want], "linkage", "new", wh(fn["span"]), "buckets = data[8 .. 8+4*nbucket], chains = the following 4*nchain bytes",
                    "SysVHashTable::new builds %s" % [show(o)[:300] for o in outs])
    sysv_hash_form(F, rep)
    # what the lookup rules take for granted about the code they call: words / headers / symbols decode per the ABI (C02), tables index
    # and iterate coherently (C09), and get_raw returns the NUL-terminated string at the offset (C15)
    from ._common import premise
    premise(ctx, rep, "C02", "hash header, table words and symbols decode per the ABI", rules={"decode", "decode-reads", "decode-size", "decode-errors", "premise"}, where="src/hash.rs, src/symbol.rs")
    premise(ctx, rep, "C09", "ParsingTable len / get / is_empty are coherent", rules={"table", "iterator", "entry-advance"}, where="src/parse.rs")
    premise(ctx, rep, "C15", "get_raw returns the string at the offset", rules={"strtab"}, where="src/string_table.rs")
    rep.trusted_base += ["C02 (header / u32 table decoding), C09 (table get), C15 (get_raw), C16 (the walk terminates)", "slice equality in core"]
