"""C02 - every ELF structure decodes exactly per the gABI layout for its class (byte order is C04's clause)."""
import json
import os
import re

from ..engine import analyze_fn, norm, ENDIAN_READS
from ..evalterm import evaluate, CannotEval
from ..runner import VERIF
from ..terms import T, Term, pp, INT_BITS, SIGNED

LEVEL = "proof"
RULE_TEXT = ("per decoder and per class, the engine (specialised on the class, effect summaries of the endian reads established by C04) "
             "yields the single success outcome; every field of the returned aggregate is normalised in a bit-provenance domain (each "
             "result bit = a specific bit of a specific read, constant, or sign copy) and compared with the gABI reference; the reads on "
             "the success path must tile [0, ABI size) exactly, the cursor advance and size_for(class) must equal the ABI size; every error "
             "outcome is a propagated read error (or the version guard); derived one/two-byte accessors are evaluated over their whole domain")


def wh(span):
    return "%s:%d:%d" % (span["file"], span["line"], span["col"])


# ------------------------------------------------------------------------------- bit provenance
def read_info(t, base):
    """t = payload(call(parse_xN_at, [endian, off, data]), Ok) -> (endian, off_bytes, width, signed, data) or None"""
    if t.op == "payload" and t.args[1] == "Ok" and t.args[0].op == "call" and t.args[0].args[0] in ENDIAN_READS:
        c = t.args[0]
        e, off, data = c.args[2]
        w, signed = ENDIAN_READS[c.args[0]]
        k = offset_of(off, base)
        if k is None:
            return None
        return (e, k, w, signed, data)
    return None


def offset_of(off, base):
    if base is None:
        return off.args[1] if off.op == "const" else None
    if off is base:
        return 0
    if off.op == "bin" and off.args[0] == "Add" and off.args[1] is base and off.args[2].op == "const":
        return off.args[2].args[1]
    return None


def bits_of(t, base, fields=None):
    """list of bit descriptors (LSB first) or None.  descriptor: 0 | 1 | ('r', off, width, i) | ('fld', name, i)"""
    ri = read_info(t, base)
    if ri is not None:
        _, k, w, signed, _ = ri
        return [("r", k, w, i) for i in range(8 * w)], signed
    if fields is not None and t in fields:
        name, width, signed = fields[t]
        return [("fld", name, i) for i in range(width)], signed
    if t.op == "const" and isinstance(t.args[1], int) and t.args[0] in INT_BITS:
        n = INT_BITS[t.args[0]]
        v = t.args[1] % (1 << n)
        return [(v >> i) & 1 for i in range(n)], t.args[0] in SIGNED
    if t.op == "cast" and t.args[0] == "IntToInt":
        inner = bits_of(t.args[1], base, fields)
        if inner is None or t.args[3] not in INT_BITS:
            return None
        b, signed = inner
        n = INT_BITS[t.args[3]]
        if len(b) >= n:
            return b[:n], t.args[3] in SIGNED
        pad = b[-1] if signed else 0
        return b + [pad] * (n - len(b)), t.args[3] in SIGNED
    if t.op == "bin":
        o, x, y, ty = t.args
        if y.op == "const" and isinstance(y.args[1], int):
            inner = bits_of(x, base, fields)
            if inner is None:
                return None
            b, signed = inner
            c = y.args[1]
            if o == "Shr" and 0 <= c < len(b):
                pad = b[-1] if signed else 0
                return b[c:] + [pad] * c, signed
            if o == "Shl" and 0 <= c < len(b):
                return [0] * c + b[: len(b) - c], signed
            if o == "BitAnd":
                m = c % (1 << len(b))
                return [b[i] if (m >> i) & 1 else 0 for i in range(len(b))], signed
    return None


def expected_bits(spec, to_bits):
    m = re.match(r"^([ui])(\d+)@(\d+)(?:(>>)(\d+)|(&)(0x[0-9a-fA-F]+))?$", spec)
    if not m:
        raise ValueError("bad spec " + spec)
    signed = m.group(1) == "i"
    w = int(m.group(2)) // 8
    off = int(m.group(3))
    b = [("r", off, w, i) for i in range(8 * w)]
    if m.group(4):
        c = int(m.group(5))
        b = b[c:] + [b[-1] if signed else 0] * c
    if m.group(6):
        msk = int(m.group(7), 16)
        b = [b[i] if (msk >> i) & 1 else 0 for i in range(len(b))]
    if len(b) >= to_bits:
        return b[:to_bits]
    return b + [b[-1] if signed else 0] * (to_bits - len(b))


def read_of_spec(spec):
    m = re.match(r"^([ui])(\d+)@(\d+)", spec)
    return (int(m.group(3)), int(m.group(2)) // 8, m.group(1) == "i")


def describe(b):
    if b is None:
        return "<unrecognised expression>"
    out, i = [], 0
    while i < len(b):
        d = b[i]
        j = i
        if isinstance(d, tuple):
            while j + 1 < len(b) and isinstance(b[j + 1], tuple) and b[j + 1][:3] == d[:3] and b[j + 1][3 if d[0] == "r" else 2] == b[j][3 if d[0] == "r" else 2] + 1:
                j += 1
            if d[0] == "r":
                out.append("read%d@%d[%d..%d]" % (d[2] * 8, d[1], d[3], b[j][3]))
            else:
                out.append("%s[%d..%d]" % (d[1], d[2], b[j][2]))
        else:
            while j + 1 < len(b) and b[j + 1] == d:
                j += 1
            out.append("%dx%d" % (d, j - i + 1))
        i = j + 1
    return " | ".join(out)


# ------------------------------------------------------------------------------- decoders
DECODER_FNS = set()


def check_decoder(F, rep, ent):
    q = ent["fn"]
    fn = F.fn(q)
    if fn is None:
        rep.bad("decode", q, "-", "anchor missing: decoder %s not found" % q)
        return 0
    w = wh(fn["span"])
    is_tail = q.endswith("parse_tail")
    n = 0
    for cname, cls in ent["classes"].items():
        n += 1
        key = "%s[%s]" % (q, cname)
        if is_tail:
            assume = (("var", T.proj(T.param(1), ("f", 1, None)), cname),)
            endian, data, base, cursor_lv = T.proj(T.param(1), ("f", 0, None)), T.param(2), None, None
        else:
            assume = (("var", T.param(2), cname),)
            endian, data, base, cursor_lv = T.param(1), T.param(4), T.deref(T.param(3)), (("M", T.param(3)), ())
        an = analyze_fn(F, fn, assume)
        # a decoder that delegates a prefix of its structure to a sibling decoder (Rela = Rel + addend): the sibling is described by
        # cases here, so that the reads it performs on behalf of this decoder are judged against this decoder's layout
        sib = {c.callee_qual for c in an.calls() if c.callee_qual != q and c.callee_qual in DECODER_FNS}
        if sib:
            from ..engine import Program
            an = Program(F, dissolve=sib).analysis(fn, assume)
        leaves = an.ret_leaves()
        if leaves is None:
            rep.bad("decode", key, w, "UNRECOGNISED: cannot enumerate outcomes of %s" % q)
            continue
        oks = [(t, st) for t, st in leaves if not (t.op == "agg" and t.args[3] == "Err")]
        errs = [(t, st) for t, st in leaves if t.op == "agg" and t.args[3] == "Err"]
        if len(oks) != 1:
            rep.bad("decode", key, w, "UNRECOGNISED: %d success outcomes for class %s (expected one straight-line decoder)" % (len(oks), cname))
            continue
        t, st = oks[0]
        if t.op == "call" and t.args[0] in ENDIAN_READS:
            # the decoder forwards the Result of one read unchanged: its success outcome is that read's success outcome
            from ..engine import State
            st = State(st.env, frozenset(set(st.facts) | {("var", t, "Ok")}))
        # ---- the value
        if ent["adt"] is None:
            val = t if t.op != "agg" else t.args[4][0]
            fields = {"": T.payload(val, "Ok") if val.op == "call" else val}
            ftypes = {"": {"<u32 as parse::ParseAt>::parse_at": "u32", "<u64 as parse::ParseAt>::parse_at": "u64"}[q]}
        else:
            if not (t.op == "agg" and t.args[3] == "Ok" and t.args[4][0].op == "agg"):
                rep.bad("decode", key, w, "UNRECOGNISED success value %s" % pp(t)[:200])
                continue
            s = t.args[4][0]
            adt = F.adts[ent["adt"]]
            fdefs = adt["variants"][0]["fields"]
            fields = {fd["name"]: v for fd, v in zip(fdefs, s.args[4])}
            ftypes = {fd["name"]: fd["ty"] for fd in fdefs}
        bad = []
        used_reads = set()
        for name, spec in cls["fields"].items():
            if name not in fields:
                bad.append("field %s missing from %s" % (name, ent["adt"]))
                continue
            fty = ftypes[name]
            got = bits_of(fields[name], base)
            want = expected_bits(spec, INT_BITS[fty])
            if got is None or got[0] != want:
                bad.append("%s: got %s, ABI says %s (%s)" % (name, describe(got[0] if got else None), describe(want), spec))
            used_reads.add(read_of_spec(spec))
            ri = None
            for x in fields[name].subterms():
                ri = read_info(x, base) or ri
            if ri is not None and (ri[0] is not endian or ri[4] is not data):
                bad.append("%s is read with endian %s from buffer %s (expected the decoder's own endian/data arguments)" % (name, pp(ri[0]), pp(ri[4])))
        extra = [f for f in fields if f not in cls["fields"] and not (is_tail and f in ("class", "endianness", "osabi", "abiversion"))]
        if extra:
            bad.append("fields without a reference: %s" % extra)
        rep.require(not bad, "decode", key, w, "%d fields have the ABI's bit provenance" % len(cls["fields"]),
                    "%s for %s: %s" % (q, cname, "; ".join(bad)), {"class": cname})
        # ---- reads on the success path tile [0, size)
        reads = set()
        for f in st.facts:
            if f[0] == "var" and f[2] == "Ok" and f[1].op == "call" and f[1].args[0] in ENDIAN_READS:
                ri = read_info(T.payload(f[1], "Ok"), base)
                if ri is None:
                    bad.append("read at unrecognised offset %s" % pp(f[1].args[2][1]))
                else:
                    reads.add((ri[1], ri[2], ri[3]))
        want_reads = set(used_reads) | {read_of_spec(x) for x in cls["discarded"]}
        tiles, pos = True, 0
        for off, wd, _ in sorted(reads):
            if off != pos:
                tiles = False
            pos = off + wd
        rep.require(reads == want_reads and tiles and pos == cls["size"], "decode-reads", key, w,
                    "%d reads tile [0,%d) as the ABI lays the structure out" % (len(reads), cls["size"]),
                    "%s for %s reads %s; the ABI layout is %s (size %d)" % (q, cname, sorted(reads), sorted(want_reads), cls["size"]))
        # ---- cursor advance
        if cursor_lv is not None:
            cur = an.simp(an.read(st, cursor_lv), st.facts)
            rep.require(cur is T.bin("Add", base, T.const("usize", cls["size"]), "usize"), "decode-size", key + ":cursor", w,
                        "consumes exactly %d bytes" % cls["size"], "%s for %s leaves the cursor at %s, ABI size is %d" % (q, cname, pp(cur), cls["size"]))
            sf = F.fn(q.replace(">::parse_at", ">::size_for"))
            if sf is not None:
                san = analyze_fn(F, sf, (("var", T.param(1), cname),))
                # a size written in terms of a sibling's (`Rel::size_for(class) + size_of::<i64>()`): the sibling's size_for is described
                # by cases, so that under the class assumption it is a number again
                sibs_ = {c_.callee_qual for c_ in san.calls() if c_.callee_qual != sf["qual"] and c_.callee_qual.endswith(" as parse::ParseAt>::size_for")}
                if sibs_:
                    from ..engine import Program
                    san = Program(F, dissolve=sibs_).analysis(sf, (("var", T.param(1), cname),))
                vals = set()
                for x, st_ in (san.ret_leaves() or []):
                    x = san.simp(x, st_.facts)
                    if x.op == "proj" and x.args[0].op == "bin" and x.args[0].args[0].endswith("WithOverflow") and x.args[1][:2] == ("f", 0):
                        a_, b_ = x.args[0].args[1], x.args[0].args[2]
                        if a_.op == "const" and b_.op == "const" and x.args[0].args[0] == "AddWithOverflow":
                            x = T.const("usize", a_.args[1] + b_.args[1])
                    vals.add(pp(x))
                rep.require(vals == {"%d_usize" % cls["size"]}, "decode-size", key + ":size_for", wh(sf["span"]),
                            "size_for(%s) == %d" % (cname, cls["size"]), "size_for(%s) of %s evaluates to %s, ABI size is %d" % (cname, q, sorted(vals), cls["size"]))
        # ---- error outcomes
        vg = ent.get("version_guard")
        okerr = True
        msgs = []
        for e, est in errs:
            p = e.args[4][0]
            if p.op == "call" and p.args[0] == "convert::From::from":
                p = p.args[2][0]
            if p.op == "payload" and p.args[1] == "Err" and p.args[0].op == "call" and p.args[0].args[0] in ENDIAN_READS:
                continue
            if vg and p.op == "agg" and p.args[3] == "UnsupportedVersion":
                continue
            okerr = False
            msgs.append(pp(e)[:120])
        rep.require(okerr, "decode-errors", key, w, "%d error outcomes, all propagated read errors%s" % (len(errs), " or the version guard" if vg else ""),
                    "%s for %s has error outcomes that are not read errors: %s" % (q, cname, msgs))
        if vg:
            off, wd, _ = read_of_spec(vg["read"])
            vread = None
            for f in st.facts:
                if f[0] == "eq" and read_info(f[1], base) and read_info(f[1], base)[1:3] == (off, wd):
                    vread = f
            cv = int(F.consts[vg["const"]]["val"])
            rep.require(vread is not None and vread[2] == cv, "decode-errors", key + ":version", w,
                        "success requires the version field == %s (%d)" % (vg["const"], cv),
                        "%s for %s does not require the version field at offset %d to equal %s" % (q, cname, off, vg["const"]))
    return n


# ------------------------------------------------------------------------------- derived accessors
SEM = {
    "symbol::Symbol::st_symtype": lambda v: v & 0xf,
    "symbol::Symbol::st_bind": lambda v: v >> 4,
    "symbol::Symbol::st_vis": lambda v: v & 0x3,
    "symbol::Symbol::is_undefined": lambda v: int(v == 0),
    "gnu_symver::VersionIndex::index": lambda v: v & 0x7fff,
    "gnu_symver::VersionIndex::is_hidden": lambda v: int(v & 0x8000 != 0),
    "gnu_symver::VersionIndex::is_local": lambda v: int(v & 0x7fff == 0),
    "gnu_symver::VersionIndex::is_global": lambda v: int(v & 0x7fff == 1),
}


def check_derived(F, rep, ref):
    n = 0
    for q, d in ref.items():
        fn = F.fn(q)
        if fn is None:
            rep.bad("derived", q, "-", "anchor missing: accessor %s" % q)
            continue
        n += 1
        an = analyze_fn(F, fn)
        rt = an.ret_term()
        adt = F.adts[q.rsplit("::", 1)[0]]
        fdefs = adt["variants"][0]["fields"]
        idx = [i for i, fd in enumerate(fdefs) if fd["name"] == d["field"]]
        if rt is None or not idx:
            rep.bad("derived", q, wh(fn["span"]), "UNRECOGNISED accessor body")
            continue
        fd = fdefs[idx[0]]
        leaf = T.proj(T.deref(T.param(1)), ("f", idx[0], fd["name"]))
        if q in SEM:
            width = INT_BITS[fd["ty"]]
            try:
                badv = None
                for v in range(1 << width):
                    if evaluate(rt, {leaf: v}) != SEM[q](v):
                        badv = v
                        break
                rep.require(badv is None, "derived", q, wh(fn["span"]), "agrees with the ABI macro on all %d values of %s" % (1 << width, fd["name"]),
                            "%s(%s = %#x) evaluates to %s, the ABI macro gives %s" % (q, fd["name"], badv or 0,
                                                                                     evaluate(rt, {leaf: badv}) if badv is not None else "", SEM[q](badv) if badv is not None else ""))
            except CannotEval as e:
                rep.bad("derived", q, wh(fn["span"]), "UNRECOGNISED: cannot evaluate %s exactly (%s)" % (q, pp(rt)[:160]))
        else:
            rep.require(rt is leaf, "derived", q, wh(fn["span"]), "returns %s unchanged" % fd["name"], "%s returns %s, not the field %s" % (q, pp(rt), fd["name"]))
    return n


def run(ctx, rep):
    F = ctx.facts()
    ref = json.load(open(os.path.join(VERIF, "ref", "decode_reference.json")))
    n = 0
    DECODER_FNS.clear()
    DECODER_FNS.update(e["fn"] for e in ref["structs"] if e["adt"] is not None)
    for ent in ref["structs"]:
        n += check_decoder(F, rep, ent)
    rep.floor("decode", "decoder x class success paths", n, 38)
    # every in-crate ParseAt impl has a reference
    known = {e["fn"] for e in ref["structs"]}
    for fn in F.all_fns():
        if fn["qual"].endswith(" as parse::ParseAt>::parse_at") and fn["qual"] not in known:
            rep.bad("decode", fn["qual"], wh(fn["span"]), "UNRECOGNISED: ParseAt impl %s has no ABI reference entry" % fn["qual"])
    # records reach the user through ParsingIterator / ParsingTable: with `next` the only method the iterator defines, every way of
    # consuming it (nth, skip, step_by, ...) decodes through the parse_at judged above
    from ._common import iterators_only_next
    iterators_only_next(F, rep, "decode-iterator", {"parse::ParsingIterator"}, 1)
    nd = check_derived(F, rep, ref["derived"])
    rep.floor("derived", "derived accessors", nd, 10)
    # the precondition of the engine's read summaries
    from . import c04
    from ..runner import Report
    sub = Report("C04")
    for name, (ty, size) in c04.METHODS.items():
        c04.check_method(F, sub, name, ty, size)
    rep.require(not sub.violations, "premise", "C04 read template holds", "src/endian.rs", "the effect summary of parse_*_at used here is established",
                "the canonical read template (C04) does not hold, so decoder offsets/values computed from it are not trustworthy: %s"
                % [v.key for v in sub.violations][:3])
    rep.info["exhaustive"] = True
    rep.trusted_base += ["ref/decode_reference.json (hand-written from gABI 4.1, LSB symbol versioning, GNU hash/note formats; DESIGN.md Appendix A)",
                        "C04 for the value/advance of each individual read; C19 for the crate's repr(C) structs"]
    if ctx.tier == "thorough":
        sibling_layout_check(F, rep, ref)


def sibling_layout_check(F, rep, ref):
    """the reads of the class-specific decoders equal the field layout of the crate's own Elf32_*/Elf64_* structs"""
    pairs = {"section::SectionHeader": "section::Elf%s_Shdr", "segment::ProgramHeader": "segment::Elf%s_Phdr", "symbol::Symbol": "symbol::Elf%s_Sym",
             "relocation::Rel": "relocation::Elf%s_Rel", "relocation::Rela": "relocation::Elf%s_Rela", "dynamic::Dyn": "dynamic::Elf%s_Dyn",
             "compression::CompressionHeader": "compression::Elf%s_Chdr"}
    for ent in ref["structs"]:
        pat = pairs.get(ent["adt"])
        if not pat:
            continue
        for cname, bits in (("ELF32", "32"), ("ELF64", "64")):
            a = F.adts.get(pat % bits)
            if a is None or not a["layout"]:
                continue
            lay = sorted((f["offset"], f["size"]) for f in a["layout"]["fields"])
            cls = ent["classes"][cname]
            reads = sorted({read_of_spec(s)[:2] for s in cls["fields"].values()} | {read_of_spec(s)[:2] for s in cls["discarded"]})
            rep.require(lay == reads, "sibling-layout", "%s vs %s" % (ent["adt"], pat % bits), wh(a["span"]), "decoder reads == repr(C) field layout",
                        "decoder of %s (%s) reads %s but %s lays fields out as %s" % (ent["adt"], cname, reads, pat % bits, lay))
