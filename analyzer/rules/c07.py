"""C07 - stream parser vs slice parser: three structural necessary conditions (cache protocol, I/O protocol, sibling agreement)."""
from ..engine import analyze_fn, norm as nm, program
from ..terms import T, Term, pp
from .. import prov
from ..prov import norm, show, P, F_, C, ok_outcomes
from ..streamrules import rule_cache_protocol, rule_io_protocol, rule_load_before_get

REQUIRES = ("std",)
LEVEL = "other"
EXPLANATION = (
    "Observational equivalence over all inputs x all accessor histories x all legal Read+Seek behaviours is a behavioural relation and is NOT decided. "
    "Decided are three structural necessary conditions: (1) cache protocol - the cache is keyed by (range.start, range.end) of the same request at "
    "contains_key / insert / get, only load_bytes inserts, only clear_cache removes and only open_stream calls it, and every get_bytes is preceded by a "
    "successful load of exactly that range (so interleaved queries sharing a start or an end cannot alias); (2) I/O protocol - every read is a "
    "read_exact of range.len() bytes dominated by a successful absolute seek to range.start, no other Read method is used (short reads / Interrupted "
    "are handled by std); (3) sibling agreement - for each same-named accessor pair the success outcomes, mapped to a common vocabulary (FILE(a,b) for "
    "data[a..b] / read_bytes(a,b); SHDR_AT(i); FIRST(kind, K) for the first header whose type is K), are equal, modulo a frozen, read-confirmed "
    "difference table listed in the evidence (stream views read the range directly where the slice parser goes through section_data; the stream "
    "dynamic() has no entsize check; Option<table> vs &Vec; the stream tests shdrs.is_empty() instead of e_shoff == 0).")
RULE_TEXT = "typestate/who-may-call rules on CachingReader; dominance rule on load_bytes; canonicalised provenance comparison of accessor pairs"


def wh(span):
    return "%s:%d:%d" % (span["file"], span["line"], span["col"])


def closure_const(F, n):
    """n = ('agg', '<closure qual>', None, captures) -> (field, K) when the closure is |h| h.<field> == K (K constant or a capture)"""
    if not (isinstance(n, tuple) and n and n[0] == "agg"):
        return None
    fn = F.fn(n[1]) if isinstance(n[1], str) else None
    if fn is None:
        return None
    rt = analyze_fn(F, fn).ret_term()
    if rt is None or not (rt.op == "bin" and rt.args[0] == "Eq"):
        return None
    a, b = rt.args[1], rt.args[2]

    def header_field(t):
        x = t
        while x.op == "deref":
            x = x.args[0]
        if x.op == "proj" and x.args[1][0] == "f":
            r = x.args[0]
            while r.op == "deref":
                r = r.args[0]
            if r is T.param(2):
                return x
        return None

    if header_field(a) is None:
        a, b = b, a
    x = header_field(a)
    if x is None:
        return None
    field = x.args[1][2]
    if b.op == "const":
        return field, ("c", b.args[1])
    # captured value: the capture tuple of the closure aggregate
    if n[3]:
        return field, n[3][0]
    return None


def canon(F, n):
    """map a provenance normal form of either parser to the common vocabulary"""
    if not isinstance(n, tuple) or not n:
        return n
    k = n[0]
    # file bytes
    if k == "slice" and n[1] == F_(P(1), "data"):
        return ("FILE", canon(F, n[2]), canon(F, n[3]))
    if k == "file":
        return ("FILE", canon(F, n[1]), canon(F, n[2]))
    # header i of the section header table
    if k == "payload" and n[1][0] == "call":
        f, args = n[1][1], n[1][2]
        if f == "parse::ParsingTable::get" and args[0] == ("payload", F_(P(1), "shdrs"), "Some") and n[2] == "Ok":
            return ("SHDR_AT", canon(F, args[1]))
        if f == "[T]::get" and args[0] == ("call", "ops::Deref::deref", (F_(P(1), "shdrs"),)) and n[2] == "Some":
            return ("SHDR_AT", canon(F, args[1]))
        if f == "[T]::first" and args[0] == ("call", "ops::Deref::deref", (F_(P(1), "shdrs"),)) and n[2] == "Some":
            return ("SHDR_AT", ("c", 0))       # `self.shdrs.first()`: element 0 when there is one
        if f == "iter::find" and n[2] == "Some":
            src, clo = args
            cc = closure_const(F, clo)
            kind = None
            for nm_, kd in (("shdrs", "shdr"), ("phdrs", "phdr")):
                tab = ("payload", F_(P(1), nm_), "Some")
                fwd_slice = ("agg", "parse::ParsingIterator", "ParsingIterator",
                             (F_(tab, "endian"), F_(tab, "class"), F_(tab, "data"), C(0), ("agg", "marker::PhantomData", "PhantomData", ())))
                fwd_stream = ("call", "[T]::iter", (("call", "ops::Deref::deref", (F_(P(1), nm_),)),))
                if src in (fwd_slice, fwd_stream):
                    kind = kd      # a plain forward iteration over the whole table
            if cc is not None and kind:
                return ("FIRST", kind, cc[0], canon(F, cc[1]))
        # slice typed views go through section_data / segment_data: the plain outcome (not NOBITS: the type guard excludes it; not compressed: out of C07's scope)
        if f == "elf_bytes::ElfBytes::section_data" and n[2] == "Ok":
            h = canon(F, args[1])
            return ("SECTION_DATA", h)
        if f == "elf_bytes::ElfBytes::segment_data" and n[2] == "Ok":
            h = canon(F, args[1])
            return ("FILE", ("fld", h, "p_offset"), prov.ADD(("fld", h, "p_offset"), ("fld", h, "p_filesz")))
    if k == "call" and n[1] == "ops::Index::index" and n[2][0] == F_(P(1), "shdrs"):
        return ("SHDR_AT", canon(F, n[2][1]))
    if k == "proj" and isinstance(n[2], str) and n[2].startswith("('cidx', ") and n[1] in (("call", "vec::Vec::as_slice", (F_(P(1), "shdrs"),)), F_(P(1), "shdrs")):
        # `let [shdr0, ..] = self.shdrs.as_slice()`: element k of the section header vector
        try:
            kk = int(n[2].split(",")[1])
            if "True" not in n[2]:
                return ("SHDR_AT", ("c", kk))
        except ValueError:
            pass
    if k == "fld" and n[2] == 0 and isinstance(n[1], tuple) and n[1] and n[1][0] == "SECTION_DATA":
        pass
    out = tuple(canon(F, x) for x in n)
    # (SECTION_DATA h).0  ->  FILE(h.sh_offset, h.sh_offset + h.sh_size)
    if out[0] == "fld" and out[2] == 0 and isinstance(out[1], tuple) and out[1] and out[1][0] == "SECTION_DATA":
        h = out[1][1]
        return ("FILE", ("fld", h, "sh_offset"), prov.ADD(("fld", h, "sh_offset"), ("fld", h, "sh_size")))
    return out


def strip_wrappers(n):
    """Option<table> vs &Vec and similar representation differences of the return type"""
    return n


def outcomes(F, q, probes=None):
    fn = F.fn(q)
    if fn is None:
        return None, None
    an = analyze_fn(F, fn)
    out = []
    ps = an.paths() if not an.loops else None
    if ps is not None:
        # per acyclic path: a value merged from the two classes (`tail_size = match class {..}`) is the constant of its path
        outs = [((t.args[4][0] if (t.op == "agg" and t.args[3] == "Ok") else T.payload(t, "Ok")), st) for t, st, _ in ps
                if not (t.op == "agg" and t.args[3] == "Err")]
    else:
        outs = ok_outcomes(an)
    for v, st in outs:
        c = canon(F, norm(v))
        if probes:
            # guard signature: truth of each probe predicate on the path of this outcome
            c = ("under", tuple(an.truth(st.facts, p) for p in probes), c)
        out.append(c)
    return fn, out


def guard_atoms(F, an, st):
    """canonical, parser-independent guard facts of an outcome: which tables exist, which searches found something, header-field tests"""
    atoms = set()
    for f in st.facts:
        if f[0] == "var":
            x = an.simp(f[1], st.facts)
            nx = norm(x)
            for nm_ in ("shdrs", "phdrs"):
                if nx == F_(P(1), nm_):
                    atoms.add(("has", nm_, f[2] == "Some"))
                if nx == ("call", "[T]::first", (("call", "ops::Deref::deref", (F_(P(1), nm_),)),)):
                    atoms.add(("has", nm_, f[2] == "Some"))      # first() is Some exactly for a non-empty table
            c = canon(F, ("payload", nx, "Some"))
            if isinstance(c, tuple) and c and c[0] == "FIRST":
                atoms.add(("found",) + c[1:] + (f[2] == "Some",))
        elif f[0] in ("true", "false"):
            n = norm(an.simp(f[1], st.facts))
            for nm_ in ("shdrs", "phdrs"):
                if n == ("call", "vec::Vec::is_empty", (F_(P(1), nm_),)):
                    atoms.add(("has", nm_, f[0] == "false"))
        elif f[0] in ("eq", "ne") and isinstance(f[2], int):
            n = norm(an.simp(f[1], st.facts))
            if n[0] == "fld" and n[1] == F_(P(1), "ehdr"):
                atoms.add(("hdr", n[2], f[0], f[2]))
    # saturation: an entry found in a table implies the table is not empty (so an explicit emptiness test before the search adds nothing)
    for a in list(atoms):
        if a[0] == "found" and a[-1] is True and a[1] in ("shdr", "phdr"):
            atoms.add(("has", a[1] + "s", True))
    return frozenset(atoms)


def guarded_outcomes(F, q, subst=None):
    fn = F.fn(q)
    if fn is None:
        return None, None
    an = analyze_fn(F, fn)
    out = set()
    # per acyclic path when the function has no loop (the conditions of a path are exact; an outcome collected at a merge point
    # keeps only what all the merged paths agree on)
    ps = an.paths()
    if ps is not None:
        outs = []
        for t, st, _ in ps:
            if t.op == "agg" and t.args[3] == "Err":
                continue
            outs.append((t.args[4][0] if (t.op == "agg" and t.args[3] == "Ok") else T.payload(t, "Ok"), st))
    else:
        outs = ok_outcomes(an)
    for v, st in outs:
        c = canon(F, norm(v))
        g = guard_atoms(F, an, st)
        if subst:
            c = _subst(c, *subst)
            g = frozenset(_subst(a, *subst) for a in g)
        out.add((tuple(sorted(map(repr, g))), repr(c)))
    return fn, out


def guards_equivalent(ga, gb):
    """ga, gb: sets of (guard atoms as sorted reprs, value repr) as produced by guarded_outcomes.  Are the two functions' outcome
    conditions logically the same: for every value, the disjunction of the guard conjunctions under which it is produced is
    equivalent, in the theory `an entry found in table T  =>  T is not empty` ?   (So an explicit emptiness test before a search,
    or its absence, does not matter.)  Returns (ok, text)."""
    import ast, itertools
    def parse(g):
        out = []
        for conj, val in g:
            atoms = [ast.literal_eval(x) for x in conj]
            out.append((frozenset(atoms), val))
        return out
    A, B = parse(ga), parse(gb)
    # propositional variables: an atom without its truth value; ('hdr', field, 'eq'|'ne', k) -> variable ('hdr', field, k), true for eq
    def var_of(a):
        if a[0] == "hdr":
            return ("hdr", a[1], a[3]), a[2] == "eq"
        return a[:-1], bool(a[-1])
    vs = sorted({var_of(a)[0] for conj, _ in A + B for a in conj}, key=repr)
    if len(vs) > 12:
        return None, "too many guard atoms"
    def consistent(asg):
        for v, tv in asg.items():
            if v[0] == "found" and tv and v[1] in ("shdr", "phdr"):
                h = ("has", v[1] + "s")
                if h in asg and not asg[h]:
                    return False
        # a header field equals at most one constant
        eqs = {}
        for v, tv in asg.items():
            if v[0] == "hdr" and tv:
                if eqs.setdefault(v[1], v[2]) != v[2]:
                    return False
        return True
    vals = sorted({v for _, v in A + B})
    for bits in itertools.product((False, True), repeat=len(vs)):
        asg = dict(zip(vs, bits))
        if not consistent(asg):
            continue
        def holds(conj):
            return all(asg[var_of(a)[0]] == var_of(a)[1] for a in conj)
        for val in vals:
            ra = any(holds(c) for c, v in A if v == val)
            rb = any(holds(c) for c, v in B if v == val)
            if ra != rb:
                return False, "under %s the outcome %s is produced by %s only" % (
                    sorted("%s=%s" % (repr(k), v_) for k, v_ in asg.items()), val[:120], "the slice parser" if ra else "the stream parser")
    return True, ""


def section_probes(F):
    sh = F.adts["section::SectionHeader"]["variants"][0]["fields"]
    fi = {fd["name"]: ("f", i, fd["name"]) for i, fd in enumerate(sh)}
    hdr = T.deref(T.param(2))
    nob = int(F.consts["abi::SHT_NOBITS"]["val"])
    comp = int(F.consts["abi::SHF_COMPRESSED"]["val"])
    return [T.bin("Eq", T.proj(hdr, fi["sh_type"]), T.const("u32", nob), "u32"),
            T.bin("Eq", T.bin("BitAnd", T.proj(hdr, fi["sh_flags"]), T.const("u64", comp), "u64"), T.const("u64", 0), "u64")]


PAIRS = [
    # (slice fn, stream fn, projection applied to each outcome before comparison, note)
    ("section_data", "section_data", None, ""),
    ("section_data_as_strtab", "section_data_as_strtab", None, "slice goes through section_data, stream reads the designated range directly"),
    ("section_data_as_rels", "section_data_as_rels", None, "as above"),
    ("section_data_as_relas", "section_data_as_relas", None, "as above"),
    ("section_data_as_notes", "section_data_as_notes", None, "as above"),
    ("segment_data_as_notes", "segment_data_as_notes", None, ""),
]


def run(ctx, rep):
    F = ctx.facts()
    if "std" not in F["config"]["features"]:
        rep.notes.append("elf_stream does not exist without feature std")
        return
    prov.set_program(program(F))
    rule_cache_protocol(F, rep)
    rule_load_before_get(F, rep)
    rule_io_protocol(F, rep)
    diffs = []
    n = 0
    for sm, tm, proj, note in PAIRS:
        probes = section_probes(F) if sm == "section_data" else None
        sf, so = outcomes(F, "elf_bytes::ElfBytes::" + sm, probes)
        tf, to = outcomes(F, "elf_stream::ElfStream::" + tm, probes)
        if so is None or to is None:
            rep.bad("sibling", sm, "-", "anchor missing: %s / %s" % (sm, tm))
            continue
        n += 1
        a, b = sorted(set(map(repr, so))), sorted(set(map(repr, to)))
        rep.require(a == b, "sibling", sm, wh(tf["span"]), "same success outcomes over FILE ranges / non-buffer arguments" + (" (%s)" % note if note else ""),
                    "ElfBytes::%s and ElfStream::%s differ: slice %s / stream %s" % (sm, tm, [show(x)[:200] for x in so], [show(x)[:200] for x in to]))
        if note:
            diffs.append("%s: %s" % (sm, note))
    # section_headers_with_strtab: string table located identically
    sf, so = outcomes(F, "elf_bytes::ElfBytes::section_headers_with_strtab")
    tf, to = outcomes(F, "elf_stream::ElfStream::section_headers_with_strtab")
    if so is not None and to is not None:
        n += 1
        sa = sorted({repr(x[3][1]) for x in so if x[0] == "agg" and len(x[3]) == 2})
        sb = sorted({repr(x[3][1]) for x in to if x[0] == "agg" and len(x[3]) == 2})
        rep.require(sa == sb, "sibling", "section_headers_with_strtab", wh(tf["span"]), "string table = FILE(range of SHDR_AT(e_shstrndx | SHDR_AT(0).sh_link)) or none",
                    "section_headers_with_strtab differ: slice %s / stream %s" % (sa, sb))
        diffs.append("section_headers_with_strtab: Option<table> vs &Vec; stream tests shdrs.is_empty() instead of e_shoff == 0 (C07 scopes empty tables out)")
    # dynamic
    sf, so = outcomes(F, "elf_bytes::ElfBytes::dynamic")
    tf, to = outcomes(F, "elf_stream::ElfStream::dynamic")
    if so is not None and to is not None:
        n += 1
        _, gso = guarded_outcomes(F, "elf_bytes::ElfBytes::dynamic")
        _, gto = guarded_outcomes(F, "elf_stream::ElfStream::dynamic")
        geq, gwhy = (True, "") if gso == gto else guards_equivalent(gso, gto)
        rep.require(geq is True, "sibling", "dynamic:guards", wh(tf["span"]), "each outcome is reached under equivalent table-present / section-found conditions",
                    "dynamic() reaches its outcomes under different conditions: %s; only slice %s / only stream %s"
                    % (gwhy, [x[0] for x in sorted(gso - gto)][:3], [x[0] for x in sorted(gto - gso)][:3]))
        rep.require(sorted(set(map(repr, so))) == sorted(set(map(repr, to))), "sibling", "dynamic", wh(tf["span"]),
                    "first SHT_DYNAMIC section's bytes, else (no section headers) first PT_DYNAMIC segment's file bytes",
                    "dynamic() differ: slice %s / stream %s" % ([show(x)[:260] for x in so], [show(x)[:260] for x in to]))
        diffs.append("dynamic: the slice parser validates sh_entsize (Dyn), the stream parser does not (the stream may succeed more often, which C07 permits)")
    # symbol tables: ElfBytes::symbol_table / dynamic_symbol_table vs ElfStream::get_symbol_table_of_type(K)
    tf, to = outcomes(F, "elf_stream::ElfStream::get_symbol_table_of_type")
    for sm, cname in (("symbol_table", "SHT_SYMTAB"), ("dynamic_symbol_table", "SHT_DYNSYM")):
        sf, so = outcomes(F, "elf_bytes::ElfBytes::" + sm)
        K = int(F.consts["abi::" + cname]["val"])
        if so is None or to is None:
            rep.bad("sibling", sm, "-", "anchor missing")
            continue
        n += 1
        inst = [_subst(x, ("p", 2), ("c", K)) for x in to]
        _, gso = guarded_outcomes(F, "elf_bytes::ElfBytes::" + sm)
        _, gto = guarded_outcomes(F, "elf_stream::ElfStream::get_symbol_table_of_type", (("p", 2), ("c", K)))
        geq, gwhy = (True, "") if gso == gto else guards_equivalent(gso, gto)
        rep.require(geq is True, "sibling", sm + ":guards", wh(sf["span"]), "equivalent table-present / section-found conditions per outcome",
                    "%s reaches its outcomes under different conditions: %s; only slice %s / only stream %s"
                    % (sm, gwhy, [x[0] for x in sorted(gso - gto)][:3], [x[0] for x in sorted(gto - gso)][:3]))
        rep.require(sorted(set(map(repr, so))) == sorted(set(map(repr, inst))), "sibling", sm, wh(sf["span"]),
                    "first %s section's bytes + the bytes of SHDR_AT(its sh_link)" % cname,
                    "%s differ: slice %s / stream(%s) %s" % (sm, [show(x)[:260] for x in so], cname, [show(x)[:260] for x in inst]))
        wf = F.fn("elf_stream::ElfStream::" + sm)
        if wf is not None:
            wan = analyze_fn(F, wf)
            cs = [c for c in wan.calls() if c.callee_qual == "elf_stream::ElfStream::get_symbol_table_of_type"]
            rep.require(len(cs) == 1 and cs[0].args[1] is T.const("u32", K), "sibling", "stream:%s->%s" % (sm, cname), wh(wf["span"]), "searches %s" % cname,
                        "ElfStream::%s searches for type %s" % (sm, [pp(c.args[1]) for c in cs]))
    diffs.append("symbol tables: the stream loads both ranges before validating sh_entsize (order of failure causes only)")
    # open: same header provenance
    sf, so = outcomes(F, "elf_bytes::ElfBytes::minimal_parse")
    tf, to = outcomes(F, "elf_stream::ElfStream::open_stream")
    if so is not None and to is not None:
        n += 1
        def _expand(hdr):
            """the header value may be the result of a private helper that reads and parses it: its success values"""
            if hdr[0] == "payload" and hdr[2] == "Ok" and hdr[1][0] == "call":
                hf = F.fn(hdr[1][1])
                if hf is not None and not program(F).known_name(hf) and hf["kind"] != "Closure":
                    _, ho = outcomes(F, hdr[1][1])
                    if ho:
                        return [y for y in ho]
            return [hdr]
        ea = sorted({repr(_canon_open(y)) for x in so if x[0] == "agg" for y in _expand(x[3][0])})
        eb = sorted({repr(_canon_open(y)) for x in to if x[0] == "agg" for y in _expand(x[3][0])})
        rep.require(ea == eb and len(ea) == 2, "sibling", "open", wh(tf["span"]), "ehdr = parse_tail(parse_ident(FILE(0,16)), FILE(16, 16+36|48))",
                    "the file header is derived differently: slice %s / stream %s" % (ea, eb))
        diffs.append("open: header tables are located by find_shdrs/find_phdrs vs parse_section_headers/parse_program_headers (both checked against the same rule by C05); "
                     "the stream parses the tables eagerly and clears its cache")
    # open-level agreement on the header tables: both parsers are held to the same gABI location rule by C05 (a stream-only or
    # slice-only deviation there makes one parser open a file the other refuses); that rule is run here as part of this property
    from . import c05
    from ..runner import Report
    sub = Report("C05")
    c05.run(ctx, sub)
    bad5 = [v for v in sub.violations if v.rule in ("table-location", "shstrndx")]
    rep.require(not bad5, "sibling", "open:tables (C05 table-location rule in both parsers)", "src/elf_stream.rs",
                "section/program header tables are located by the same rule in both parsers",
                "the two parsers do not locate the header tables by the same rule: %s" % "; ".join("%s: %s" % (v.key, v.msg[:200]) for v in bad5[:3]))
    # symbol versions: both parsers are held to one wiring specification (which section feeds which part of the table, chosen how);
    # that is C13's wiring rule, run here for the pair
    from . import c13
    sub13 = Report("C13")
    c13.run(ctx, sub13)
    bad13 = [v for v in sub13.violations if v.rule == "wiring"]
    rep.require(not bad13, "sibling", "symbol_version_table (C13 wiring rule in both parsers)", "src/elf_stream.rs",
                "the symbol version table is assembled from the same sections, chosen the same way, in both parsers",
                "the two parsers do not assemble the symbol version table by the same rule: %s" % "; ".join("%s: %s" % (v.key, v.msg[:200]) for v in bad13[:3]))
    # ---- the API surface: "every stream query" - each public method of ElfStream is one whose agreement with its slice sibling the rules
    # above decide (or a plain view of state set while opening); a further one is a query nothing here compares
    KNOWN_STREAM = {"open_stream", "segments", "section_headers", "section_headers_with_strtab", "section_header_by_name", "section_data",
                    "section_data_as_strtab", "symbol_table", "dynamic_symbol_table", "dynamic", "symbol_version_table", "section_data_as_rels",
                    "section_data_as_relas", "section_data_as_notes", "segment_data_as_notes"}
    n_api = 0
    for fn_ in F.all_fns():
        if fn_["qual"].startswith("elf_stream::ElfStream::") and fn_.get("reachable_pub") and fn_.get("kind") != "Closure" and fn_["qual"].count("::") == 2:
            n_api += 1
            nm_ = fn_["qual"].split("::")[-1]
            okk = nm_ in KNOWN_STREAM and (nm_ in ("open_stream",) or F.fn("elf_bytes::ElfBytes::" + nm_) is not None)
            sp_ = fn_["span"]
            rep.require(okk, "api-surface", fn_["qual"], "%s:%d:%d" % (sp_["file"], sp_["line"], sp_["col"]), "a stream query with a slice sibling that is compared",
                        "%s is a public stream query that is not one of the compared accessor pairs (or has no slice sibling of the same name): "
                        "UNRECOGNISED - its agreement with the slice parser is not established" % fn_["qual"])
    rep.floor("api-surface", "public ElfStream methods", n_api, 14)
    rep.floor("sibling", "accessor pairs compared", n, 11)
    rep.info["permitted_differences"] = diffs
    rep.info["covered_elsewhere"] = ["type guards of the typed views in both parsers: C20"]
    rep.trusted_base += ["std's Read::read_exact (handles short reads and ErrorKind::Interrupted)", "C03/C05/C13/C20 for the per-parser clauses cited above"]


def _subst(n, old, new):
    if n == old:
        return new
    if isinstance(n, tuple):
        return tuple(_subst(x, old, new) for x in n)
    return n


def _canon_open(n):
    """slice: data param is arg1 -> ('slice', ('p',1), a, b) ; stream: file(a,b)"""
    def go(x):
        if isinstance(x, tuple):
            if x and x[0] == "slice" and x[1] == ("p", 1):
                return ("FILE", go(x[2]), go(x[3]))
            if x and x[0] == "file":
                return ("FILE", go(x[1]), go(x[2]))
            return tuple(go(y) for y in x)
        return x
    return go(n)
