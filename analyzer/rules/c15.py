"""C15 - string-table lookup returns exactly the NUL-terminated string at the offset (idiom-bound rule)."""
from ..engine import analyze_fn, norm as nm, program
from ..terms import T, Term, pp

LEVEL = "other"
EXPLANATION = (
    "Decided (idiom-bound): on every success path get_raw(off) returns the tail self.data.get(off..) (with the *unmodified* off parameter) cut at P, "
    "where P is the result of a first-match search (Iterator::position over the tail's bytes) whose predicate is `byte == 0`, with no arithmetic on P "
    "(accepted cuts: split_at(P).0, get(..P), [..P]); a search miss yields StringTableMissingNul, a failing get(off..) yields BadOffset; get(off) is "
    "from_utf8(get_raw(off)?)? with both errors propagated. From this the property follows by the semantics of get/position/split_at in core. "
    "NOT decided: any implementation outside these idioms (e.g. memchr, a manual loop) is reported as UNRECOGNISED rather than judged.")
RULE_TEXT = "term template over the outcomes of StringTable::get_raw / get and the body of the search predicate"


def wh(span):
    return "%s:%d:%d" % (span["file"], span["line"], span["col"])


def _outside(an, st, data, off, tail):
    """the facts of the outcome imply that the offset does not lie inside the table: the tail data.get(off..) does not exist, or
    len(data) <= off (which an empty table implies for every offset)"""
    from ..prover import Prover
    tailcall = tail.args[0]
    no_tail = any(f[0] == "var" and f[2] == "None" and (f[1] is tailcall or (isinstance(f[1], Term) and f[1].op == "call" and f[1].args[0] == "[T]::get"
                                                                                 and f[1].args[2][0] is data)) for f in st.facts)
    return no_tail or Prover(an).le(T.length(data), off, st.facts)


def get_raw_loop(F, rep, fn, an, w, tail):
    """get_raw written as a scan: `for (i, &b) in tail.iter().enumerate() { if b == 0 { return Ok(&tail[..i]) } } Err(MissingNul)`"""
    from ..hashrules import loop_exit_controls
    hdr = next(iter(an.loops))
    body = an.loops[hdr]
    nexts = [c for c in an.calls() if c.declared_norm == "iter::Iterator::next" and c.block in body]
    msgs = []
    strip = lambda x: x.args[0] if x.op in ("refval", "deref") else x
    if len(nexts) != 1 or nexts[0].result.op != "iternext":
        rep.bad("strtab", "get_raw:search", w, "UNRECOGNISED: get_raw loops, but not as `for (i, b) in tail.iter().enumerate()`")
        return
    r = nexts[0].result
    src = r.args[0].args[2][0].args[2][0]
    rep.require(strip(src) is tail, "strtab", "get_raw:tail", w, "the scan runs over data.get(offset..) from its first byte",
                "get_raw scans %s, expected the tail data.get(offset..) with the caller's offset" % pp(src)[:200])
    item = T.payload(r, "Some")
    idx, byte = T.proj(item, ("f", 0, None)), T.proj(item, ("f", 1, None))
    n_match = n_end = 0
    for sw, val, tgt, frm in loop_exit_controls(an, hdr):
        if sw is None or val is None:
            msgs.append("the scan is left unconditionally from bb%d" % frm)
            continue
        d = an.switches[sw]
        if d.op == "discr" and d.args[0] is r:
            if val != "0":
                msgs.append("the scan is left while bytes remain")
            n_end += 1
        elif d.op == "bin" and d.args[0] == "Eq" and T.const("u8", 0) in (d.args[1], d.args[2]) and any(strip(x) is byte or x is T.deref(byte) for x in (d.args[1], d.args[2])) and val == "otherwise":
            n_match += 1
        else:
            msgs.append("the scan ends on %s = %s (neither a NUL byte nor the end of the table)" % (pp(d)[:100], val))
    if n_match != 1 or n_end != 1:
        msgs.append("%d NUL exits, %d end-of-table exits" % (n_match, n_end))
    kinds = set()
    n_ok = 0
    for t, st in an.ret_leaves() or []:
        if t.op == "agg" and t.args[3] == "Ok":
            n_ok += 1
            v = t.args[4][0]
            cut_of = pos = None
            if v.op == "call" and v.args[0] == "ops::Index::index" and v.args[2][1].op == "agg" and v.args[2][1].args[1] == "ops::RangeTo":
                cut_of, pos = v.args[2][0], v.args[2][1].args[4][0]
            elif v.op == "proj" and v.args[1][:2] == ("f", 0) and v.args[0].op == "call" and v.args[0].args[0] == "[T]::split_at":
                cut_of, pos = v.args[0].args[2]
            elif v.op == "payload" and v.args[1] == "Some" and v.args[0].op == "call" and v.args[0].args[0] == "[T]::get" \
                    and v.args[0].args[2][1].op == "agg" and v.args[0].args[2][1].args[1] == "ops::RangeTo":
                cut_of, pos = v.args[0].args[2][0], v.args[0].args[2][1].args[4][0]
            if cut_of is None or strip(cut_of) is not tail:
                msgs.append("returns %s, not a prefix of the tail" % pp(v)[:160])
            elif pos is not idx:
                msgs.append("cuts at %s, expected the index of the NUL byte found (no arithmetic)" % pp(pos)[:120])
        elif t.op == "agg" and t.args[3] == "Err":
            txt = pp(t)
            kinds.add("nul" if "StringTableMissingNul" in txt else "off" if "BadOffset" in txt else txt[:40])
            if "BadOffset" in txt and not _outside(an, st, tail.args[0].args[2][0], T.param(2), tail):
                msgs.append("an offset is refused with BadOffset on a path whose conditions do not imply that it lies outside the table")
    if n_ok != 1 or kinds != {"nul", "off"}:
        msgs.append("%d success outcomes, error kinds %s" % (n_ok, sorted(kinds)))
    rep.require(not msgs, "strtab", "get_raw:search", w, "forward scan for the first NUL of the tail; the string is the bytes before it (loop form)",
                "get_raw: %s" % "; ".join(msgs))


def run(ctx, rep):
    F = ctx.facts()
    fn = F.fn("string_table::StringTable::get_raw")
    if fn is None:
        rep.bad("strtab", "get_raw", "src/string_table.rs", "anchor missing: StringTable::get_raw")
        return
    an = analyze_fn(F, fn)
    w = wh(fn["span"])
    p1, p2 = T.param(1), T.param(2)
    adt = F.adts["string_table::StringTable"]
    di = [i for i, fd in enumerate(adt["variants"][0]["fields"]) if fd["name"] == "data"][0]
    data = T.proj(T.deref(p1), ("f", di, "data"))
    tail = T.payload(T.call("[T]::get", ("u8", "ops::RangeFrom<usize>"), [data, T.agg("adt", "ops::RangeFrom", 0, "RangeFrom", [p2])]), "Some")
    def as_tail(x):
        """`data.split_at(offset).1` is the same tail as `data.get(offset..)` where it exists (its precondition offset <= len is the
        panic census's obligation, C01)"""
        if x.op == "proj" and x.args[1][:2] == ("f", 1) and x.args[0].op == "call" and x.args[0].args[0] == "[T]::split_at":
            s_, o_ = x.args[0].args[2]
            s_ = s_.args[0] if s_.op == "refval" else s_
            if s_ is data and o_ is p2:
                return tail
        return x
    n_ok = 0
    kinds = set()
    if len(an.loops) == 1:
        get_raw_loop(F, rep, fn, an, w, tail)
        skip_paths = True
    else:
        skip_paths = False
    for t, st, calls in ([] if skip_paths else (an.paths() or [])):
        if t.op == "agg" and t.args[3] == "Ok":
            n_ok += 1
            v = t.args[4][0]
            pos = None
            cut_of = None
            # accepted cut idioms
            if v.op == "proj" and v.args[1][:2] == ("f", 0) and v.args[0].op == "call" and v.args[0].args[0] == "[T]::split_at":
                cut_of, pos = v.args[0].args[2]
            elif v.op == "payload" and v.args[1] == "Some" and v.args[0].op == "call" and v.args[0].args[0] == "[T]::get" \
                    and v.args[0].args[2][1].op == "agg" and v.args[0].args[2][1].args[1] == "ops::RangeTo":
                cut_of, pos = v.args[0].args[2][0], v.args[0].args[2][1].args[4][0]
            elif v.op == "call" and v.args[0] == "ops::Index::index" and v.args[2][1].op == "agg" and v.args[2][1].args[1] == "ops::RangeTo":
                cut_of, pos = v.args[2][0], v.args[2][1].args[4][0]
            if cut_of is None and v.op == "call" and v.args[0] == "ffi::CStr::to_bytes":
                # CStr::from_bytes_until_nul(tail)?.to_bytes(): core's statement of the same rule - the bytes before the first NUL of the
                # tail, an error when there is none (to_bytes_with_nul would include the terminator and is not accepted)
                c = v.args[2][0]
                c = c.args[0] if c.op == "refval" else c
                if c.op == "payload" and c.args[1] == "Ok" and c.args[0].op == "call" and c.args[0].args[0] == "ffi::CStr::from_bytes_until_nul":
                    src = c.args[0].args[2][0]
                    src = src.args[0] if src.op == "refval" else src
                    rep.require(src is tail, "strtab", "get_raw:tail", w, "the string starts at the unmodified offset: data.get(offset..)",
                                "get_raw searches %s, expected the tail data.get(offset..) with the caller's offset" % pp(src)[:200])
                    rep.ok("strtab", "get_raw:search", w, "CStr::from_bytes_until_nul: cut at the first NUL of the tail")
                    rep.ok("strtab", "get_raw:predicate", w, "CStr::from_bytes_until_nul searches for byte 0")
                    cstr_call = c.args[0]
                    continue
            if cut_of is None:
                rep.bad("strtab", "get_raw:value", w, "UNRECOGNISED: get_raw returns %s (not a prefix cut of the tail at the search result)" % pp(v)[:240])
                continue
            cut_of = cut_of.args[0] if cut_of.op == "refval" else cut_of
            cut_of = as_tail(cut_of)
            rep.require(cut_of is tail, "strtab", "get_raw:tail", w, "the string starts at the unmodified offset: data.get(offset..)",
                        "get_raw cuts %s, expected the tail data.get(offset..) with the caller's offset" % pp(cut_of)[:200])
            good = (pos.op == "payload" and pos.args[1] == "Some" and pos.args[0].op == "call" and pos.args[0].args[0] == "slice::position"
                    and as_tail(pos.args[0].args[2][0]) is tail)
            rep.require(good, "strtab", "get_raw:search", w, "cut point = position of the first match in the tail, used without arithmetic",
                        "get_raw cuts at %s: not the unmodified result of a first-match search over the tail (rposition / +1 / other arithmetic change the string)"
                        % pp(pos)[:200])
            if good:
                clo = pos.args[0].args[2][1]
                cq = clo.args[1] if clo.op == "agg" and clo.args[0] == "closure" else None
                cf = F.fn(cq) if cq else None
                okp = False
                if cf is not None:
                    can = analyze_fn(F, cf)
                    rt = can.ret_term()
                    okp = rt is T.bin("Eq", T.deref(T.param(2)), T.const("u8", 0), "u8")
                    detail = pp(rt) if rt is not None else "?"
                else:
                    detail = "closure not found"
                rep.require(okp, "strtab", "get_raw:predicate", w, "search predicate is `byte == 0`", "the search predicate is %s, not byte == 0" % detail)
        elif t.op == "agg" and t.args[3] == "Err":
            txt = pp(t)
            if "StringTableMissingNul" in txt:
                kinds.add("nul")
                srch = [c for c in calls if c.declared_norm in ("iter::Iterator::position",)]
                cs_ = [c for c in calls if c.declared_norm == "ffi::CStr::from_bytes_until_nul"]
                if not srch and cs_ and ("var", cs_[0].result, "Err") in st.facts:
                    rep.ok("strtab", "get_raw:missing-nul", w, "StringTableMissingNul exactly when CStr::from_bytes_until_nul finds no NUL")
                    continue
                rep.require(bool(srch) and ("var", srch[0].result, "None") in st.facts, "strtab", "get_raw:missing-nul", w,
                            "StringTableMissingNul exactly when the search finds no NUL", "StringTableMissingNul is returned on a path where the search result is not None")
            elif "BadOffset" in txt:
                kinds.add("off")
                # completeness: the offset is refused only when it does not lie inside the table (the tail does not exist, or the
                # facts of the path imply len <= offset, which an empty table does for every offset)
                rep.require(_outside(an, st, data, p2, tail), "strtab", "get_raw:bad-offset", w, "BadOffset only for an offset outside the table",
                            "get_raw refuses an offset with BadOffset on a path whose conditions do not imply that the offset lies outside the table: "
                            "a string that is in the table cannot be looked up")
            else:
                rep.bad("strtab", "get_raw:error", w, "UNRECOGNISED error outcome %s" % txt[:120])
        else:
            rep.bad("strtab", "get_raw:outcome", w, "UNRECOGNISED outcome %s" % pp(t)[:160])
    rep.require(skip_paths or (n_ok == 1 and kinds == {"nul", "off"}), "strtab", "get_raw:outcomes", w, "one success path; BadOffset and StringTableMissingNul errors",
                "get_raw has %d success paths and error kinds %s" % (n_ok, sorted(kinds)))
    rep.require("'data" in fn["sig"]["output"], "strtab", "get_raw:borrow", w, "returns &'data [u8]", "get_raw returns %s" % fn["sig"]["output"])
    # ---- get = from_utf8(get_raw(off)?)?
    fn = F.fn("string_table::StringTable::get")
    if fn is None:
        rep.bad("strtab", "get", "src/string_table.rs", "anchor missing: StringTable::get")
        return
    an = analyze_fn(F, fn)
    w = wh(fn["span"])
    raw = T.call("string_table::StringTable::get_raw", (), [p1, p2])
    utf = T.call("str::from_utf8", (), [T.payload(raw, "Ok")])
    want_ok = T.agg("adt", "result::Result", 0, "Ok", [T.payload(utf, "Ok")])
    oks, errs = [], []
    for t, st, calls in an.paths() or []:
        (oks if (t.op == "agg" and t.args[3] == "Ok") else errs).append(t)
    rep.require(oks == [want_ok], "strtab", "get:value", w, "get(off) = from_utf8(get_raw(off)?)?", "get returns %s" % [pp(t)[:160] for t in oks])
    e1 = T.agg("adt", "result::Result", 1, "Err", [T.payload(raw, "Err")])
    uv = [i for i, v in enumerate(F.adts["parse::ParseError"]["variants"]) if v["name"] == "Utf8Error"]
    e2 = T.agg("adt", "result::Result", 1, "Err", [T.agg("adt", "parse::ParseError", uv[0] if uv else -1, "Utf8Error", [T.payload(utf, "Err")])])
    rep.require(set(errs) == {e1, e2}, "strtab", "get:errors", w, "get_raw's error and the UTF-8 error are propagated", "get error outcomes: %s" % [pp(t)[:120] for t in errs])
    fn2 = F.fn("string_table::StringTable::new")
    if fn2 is not None:
        rt = analyze_fn(F, fn2).ret_term()
        rep.require(rt is T.agg("adt", "string_table::StringTable", 0, "StringTable", [p1]), "strtab", "new", wh(fn2["span"]), "wraps the bytes unchanged",
                    "StringTable::new builds %s" % (pp(rt) if rt is not None else None))
    rep.trusted_base += ["core: <[u8]>::get(off..), slice::Iter::position (first match), split_at / get(..P), str::from_utf8"]
