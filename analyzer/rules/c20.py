"""C20 - alternative access paths to the same data agree (pairing rules)."""
import re

from ..engine import analyze_fn, norm as nm, program
from ..terms import T, Term, pp
from .. import prov
from ..prov import norm, show, P, F_, C, ok_outcomes

LEVEL = "other"
EXPLANATION = (
    "Decided (pairing rules, necessary conditions for agreement): every typed view (section_data_as_strtab/rels/relas/notes, segment_data_as_notes, "
    "the internal .dynamic view; both parsers) returns UnexpectedSectionType/SegmentType((found, K)) exactly when the type differs from K, and K is "
    "paired with the view it constructs (STRTAB-StringTable, REL-Rel iterator, RELA-Rela iterator, NOTE/PT_NOTE-NoteIterator, DYNAMIC-DynamicTable); "
    "find_common_data's arms use, under sh_type == K, the same helper with the same argument provenance as the targeted accessor that searches for K "
    "(SYMTAB/DYNSYM via section_data_as_symbol_table(shdr, shdrs.get(sh_link)), DYNAMIC via section_data_as_dynamic, HASH/GNU_HASH constructors over "
    "the section's designated bytes) and store the result in the field of that kind; the PT_DYNAMIC fallback builds the same DynamicTable over "
    "get_file_data_range in both places; section_header_by_name (both parsers) is a first-match search whose predicate is string equality of the "
    "query with strtab.get(sh_name), false on a name that cannot be read. NOT decided: equality of the results as values (behavioural).")
RULE_TEXT = "guard/outcome pairing on the typed views, call-site provenance in find_common_data vs the targeted accessors, closure-body templates"


def wh(span):
    return "%s:%d:%d" % (span["file"], span["line"], span["col"])


def cval(F, name):
    c = F.consts.get("abi::" + name)
    return int(c["val"]) if c and "val" in c else None


VIEWS = [
    # (method, type field, constant, error variant, marker that must occur in the returned type)
    ("section_data_as_strtab", "sh_type", "SHT_STRTAB", "UnexpectedSectionType", "string_table::StringTable"),
    ("section_data_as_rels", "sh_type", "SHT_REL", "UnexpectedSectionType", "relocation::Rel>"),
    ("section_data_as_relas", "sh_type", "SHT_RELA", "UnexpectedSectionType", "relocation::Rela>"),
    ("section_data_as_notes", "sh_type", "SHT_NOTE", "UnexpectedSectionType", "note::NoteIterator"),
    ("section_data_as_dynamic", "sh_type", "SHT_DYNAMIC", "UnexpectedSectionType", "dynamic::Dyn>"),
    ("segment_data_as_notes", "p_type", "PT_NOTE", "UnexpectedSegmentType", "note::NoteIterator"),
]


def check_views(F, rep):
    n = 0
    for owner in ("elf_bytes::ElfBytes", "elf_stream::ElfStream"):
        for meth, field, cname, errv, marker in VIEWS:
            fn = F.fn("%s::%s" % (owner, meth))
            if fn is None:
                if owner == "elf_bytes::ElfBytes" or (meth != "section_data_as_dynamic" and "std" in F["config"]["features"]):
                    rep.bad("typed-view", "%s::%s" % (owner, meth), "-", "anchor missing")
                continue
            n += 1
            an = analyze_fn(F, fn)
            w = wh(fn["span"])
            K = cval(F, cname)
            hdr_adt = "section::SectionHeader" if field == "sh_type" else "segment::ProgramHeader"
            fi = [("f", i, field) for i, fd in enumerate(F.adts[hdr_adt]["variants"][0]["fields"]) if fd["name"] == field][0]
            ty = T.proj(T.deref(T.param(2)), fi)
            def judge(an_, kterm):
                msgs_ = []
                ok_ = err_ = 0
                for t, st in an_.ret_leaves() or []:
                    is_k = an_.truth(st.facts, T.bin("Eq", ty, kterm, "u32"))
                    if t.op == "agg" and t.args[3] == "Err":
                        e = t.args[4][0]
                        if e.op == "agg" and e.args[3] in ("UnexpectedSectionType", "UnexpectedSegmentType"):
                            err_ += 1
                            want = T.agg("tuple", None, 0, None, [ty, kterm])
                            if e.args[3] != errv or e.args[4][0] is not want or is_k is not False:
                                msgs_.append("type error outcome %s under (type == %s) = %s; expected %s((found, %s)) exactly when the type differs" % (pp(e)[:120], cname, is_k, errv, cname))
                        elif is_k is not True:
                            msgs_.append("an outcome other than the type error is reached although the type may differ from %s" % cname)
                    else:
                        ok_ += 1
                        if is_k is not True:
                            msgs_.append("the view is produced without the type having been checked against %s" % cname)
                if err_ != 1:
                    msgs_.append("%d type-error outcomes" % err_)
                return msgs_, ok_
            msgs, seen_ok = judge(an, T.const("u32", K))
            if msgs:
                # the guard may sit in a private helper that receives the header and the expected type (`read_typed_section(shdr, K)`)
                # and that every path of the accessor goes through first: the helper is judged with its type parameter, the accessor
                # for passing its own header and constant and for yielding a view only when the helper succeeded
                from ..engine import program as _prog
                pr_ = _prog(F)
                cs_ = [c for c in an.calls() if c.block in an.entry and pr_.local_fn(c.callee) is not None and not pr_.known_name(pr_.local_fn(c.callee))
                       and pr_.local_fn(c.callee)["kind"] != "Closure" and len(c.args) == 3 and c.args[1] is T.param(2) and c.args[2] is T.const("u32", K)]
                if len(cs_) == 1:
                    hc_ = cs_[0]
                    hm_, hok_ = judge(analyze_fn(F, pr_.local_fn(hc_.callee)), T.param(3))
                    rets_ok = all(("var", hc_.result, "Ok") in st.facts for t, st in an.ret_leaves() or [] if not (t.op == "agg" and t.args[3] == "Err"))
                    errs_ok = all(t.args[4][0] is T.payload(hc_.result, "Err") or (t.args[4][0].op == "call" and t.args[4][0].args[2] and t.args[4][0].args[2][0] is T.payload(hc_.result, "Err"))
                                  or ("var", hc_.result, "Ok") in st.facts
                                  for t, st in an.ret_leaves() or [] if t.op == "agg" and t.args[3] == "Err")
                    if not hm_ and hok_ >= 1 and rets_ok and errs_ok:
                        msgs = []
                        seen_ok = max(seen_ok, 1)
            if marker not in nm(fn["sig"]["output"]):
                msgs.append("returns %s, expected a view over %s" % (fn["sig"]["output"], marker))
            rep.require(not msgs and seen_ok >= 1, "typed-view", "%s::%s" % (owner, meth), w, "refused unless %s == %s; constructs the %s view" % (field, cname, marker.strip('>')),
                        "%s::%s: %s" % (owner, meth, "; ".join(msgs)))
    rep.floor("typed-view", "typed views", n, 11 if "std" in F["config"]["features"] else 6)


ARMS = {
    "SHT_SYMTAB": ("elf_bytes::ElfBytes::section_data_as_symbol_table", {"symtab", "symtab_strs"}),
    "SHT_DYNSYM": ("elf_bytes::ElfBytes::section_data_as_symbol_table", {"dynsyms", "dynsyms_strs"}),
    "SHT_DYNAMIC": ("elf_bytes::ElfBytes::section_data_as_dynamic", {"dynamic"}),
    "SHT_HASH": ("hash::SysVHashTable::new", {"sysv_hash"}),
    "SHT_GNU_HASH": ("hash::GnuHashTable::new", {"gnu_hash"}),
}
TARGETED = {
    "elf_bytes::ElfBytes::symbol_table": ("SHT_SYMTAB", "elf_bytes::ElfBytes::section_data_as_symbol_table"),
    "elf_bytes::ElfBytes::dynamic_symbol_table": ("SHT_DYNSYM", "elf_bytes::ElfBytes::section_data_as_symbol_table"),
    "elf_bytes::ElfBytes::dynamic": ("SHT_DYNAMIC", "elf_bytes::ElfBytes::section_data_as_dynamic"),
}


def item_abstract(n):
    """replace `the current section header` (loop item or search result) by the symbol SHDR in a normal form"""
    def go(x):
        if isinstance(x, tuple):
            if x and x[0] == "payload" and x[2] == "Some" and isinstance(x[1], tuple) and x[1] and x[1][0] == "call" and \
                    (x[1][1].endswith("::next") or x[1][1] == "iter::find"):
                return ("SHDR",)
            return tuple(go(y) for y in x)
        return x
    return go(n)


def search_predicate(F, an, clo):
    """normal form of the predicate of a search closure applied to the item, with the closure's captures substituted"""
    if not (clo.op == "agg" and clo.args[0] == "closure"):
        return None
    cf = F.fn(clo.args[1]) if isinstance(clo.args[1], str) else None
    if cf is None:
        return None
    sub = analyze_fn(F, cf)
    rt = sub.ret_term()
    if rt is None:
        return None
    env_ty = nm(cf["body"]["locals"][1]["ty"]) if len(cf["body"]["locals"]) > 1 else ""
    env = T.refval(clo) if env_ty.startswith("&") else clo
    from ..engine import State
    inst = program(F).subst(an, State({}, frozenset()), rt, [env, T.refval(Term("ITEM"))])
    return norm(inst) if inst is not None else None


def check_common(F, rep):
    fn = F.fn("elf_bytes::ElfBytes::find_common_data")
    if fn is None:
        rep.bad("common-data", "find_common_data", "src/elf_bytes.rs", "anchor missing")
        return
    an = analyze_fn(F, fn)
    w = wh(fn["span"])
    arm_args = {}
    for cname, (helper, fields) in ARMS.items():
        K = cval(F, cname)
        # value-based (the constructor may be reached through a private helper or be passed to one as a function): the result fields
        # written under sh_type == K hold a value built from exactly one call of `helper`
        under_k = lambda facts: any(f[0] == "eq" and f[2] == K and f[1].op == "proj" and f[1].args[1][2] == "sh_type" for f in facts)
        hcalls, got, extra = [], set(), set()
        for b, env in an.exit_env.items():
            if b not in an.entry or not under_k(an.exit_facts.get(b, ())):
                continue
            for (root, path), val in env.items():
                if root[0] == "L" and len(path) == 1 and path[0][0] == "f":
                    val = an.simp(val, an.exit_facts.get(b, frozenset()))
                    for x in val.subterms():
                        if x.op == "call" and x.args[0] == helper:
                            if x not in hcalls:
                                hcalls.append(x)
                            got.add(path[0][2])
                            for f in an.exit_facts.get(b, ()):
                                if f[0] in ("true", "false", "eq", "ne") and isinstance(f[1], Term) and \
                                        any(y.op == "proj" and y.args[1][0] == "f" and str(y.args[1][2]).startswith("sh_") and y.args[1][2] != "sh_type"
                                            for y in f[1].subterms()):
                                    txt = pp(f[1])
                                    short = (txt.split("(")[0] + "(shdr" if f[0] in ("true", "false") else "shdr") + txt.split("!Some")[-1]
                                    extra.add("%s %s" % (f[0], short) if f[0] in ("true", "false") else "%s %s %s" % (short, f[0], f[2]))
        if len(hcalls) != 1:
            rep.bad("common-data", "arm:%s" % cname, w, "find_common_data does not call %s exactly once under sh_type == %s (found %d)" % (helper, cname, len(hcalls)))
            continue
        hc = hcalls[0]
        cs_where = w
        for c in an.calls():
            if c.callee_qual == helper:
                cs_where = c.where()
        a = tuple(item_abstract(norm(x)) for x in hc.args[2])
        arm_args[cname] = (helper, a)
        rep.require(got == fields, "common-data", "arm:%s" % cname, cs_where, "%s -> %s stored in %s" % (cname, helper.split("::")[-2] + "::" + helper.split("::")[-1], sorted(fields)),
                    "under sh_type == %s the result of %s is stored in %s, expected %s" % (cname, helper, sorted(got), sorted(fields)))
        # discovery = targeted accessor: a section of the kind is taken whatever its other header fields say (the accessors look at
        # sh_type only); a further condition on the header in front of the arm leaves the field empty where the accessor answers
        rep.require(not extra, "common-data", "arm-unconditional:%s" % cname, cs_where, "the %s arm is taken on sh_type alone" % cname,
                    "find_common_data stores the %s result only under a further condition on the section header (%s): the targeted accessor "
                    "has no such condition, so the two disagree for headers that fail it" % (cname, "; ".join(sorted(extra))[:300]))
        cs = type("S", (), {"where": staticmethod(lambda: cs_where)})()
        # argument provenance of the arm
        me = P(1)
        ehdr = F_(me, "ehdr")
        S = ("SHDR",)
        rng = ("slice", F_(me, "data"), F_(S, "sh_offset"), prov.ADD(F_(S, "sh_offset"), F_(S, "sh_size")))
        want = {
            "elf_bytes::ElfBytes::section_data_as_symbol_table": (me, S, ("payload", ("call", "parse::ParsingTable::get", (("payload", F_(me, "shdrs"), "Some"), F_(S, "sh_link"))), "Ok")),
            "elf_bytes::ElfBytes::section_data_as_dynamic": (me, S),
            "hash::SysVHashTable::new": (F_(ehdr, "endianness"), F_(ehdr, "class"), rng),
            "hash::GnuHashTable::new": (F_(ehdr, "endianness"), F_(ehdr, "class"), rng),
        }[helper]
        rep.require(a == want, "common-data", "arm-args:%s" % cname, cs.where(), "arguments: the matching header, its sh_link'ed header / its designated bytes",
                    "under sh_type == %s, %s is called with %s; expected %s" % (cname, helper, [show(x)[:120] for x in a], [show(x)[:120] for x in want]))
    # the scan visits every section header: it iterates the whole table and is left only when the iterator is exhausted,
    # on a failed read, or once every one of the five kinds has been stored (the property assumes at most one section per kind)
    from ..hashrules import loop_exit_controls
    if len(an.loops) != 1:
        rep.bad("common-data", "scan:loop", w, "UNRECOGNISED: %d loops in find_common_data (expected the one pass over the section headers)" % len(an.loops))
    else:
        hdr = next(iter(an.loops))
        srcs = [norm(c.arg_values()[0]) for c in an.calls() if c.declared_norm == "iter::IntoIterator::into_iter"]
        tab = ("payload", F_(P(1), "shdrs"), "Some")
        want_src = ("agg", "parse::ParsingIterator", "ParsingIterator", (F_(tab, "endian"), F_(tab, "class"), F_(tab, "data"), C(0), ("agg", "marker::PhantomData", "PhantomData", ())))
        rep.require(srcs in ([want_src], [("call", "parse::ParsingTable::iter", (tab,))]), "common-data", "scan:source", w, "iterates self.shdrs.iter() (every header, in order)",
                    "find_common_data scans %s, expected every header of self.shdrs" % [show(x)[:160] for x in srcs])
        nexts = [c for c in an.calls() if c.declared_norm == "iter::Iterator::next" and c.block in an.loops[hdr]]
        for sw, val, tgt, frm in loop_exit_controls(an, hdr):
            if sw is None or val is None:
                rep.bad("common-data", "scan:exit", w, "the scan over the section headers is left unconditionally from bb%d" % frm)
                continue
            d = norm(an.switches[sw])
            ds = show(d)[:160]
            if d[0] == "discr" and d[1][0] == "call" and d[1][1] == "ops::Try::branch":
                ok = val == "1"
            elif d[0] == "discr" and (d[1][0] == "fresh" or (d[1][0] == "call" and d[1][1].endswith("::next"))) and any(an.dominates(c.block, sw) for c in nexts):
                ok = val == "0"
            else:
                FIELD = re.compile(r"\b(symtab|dynsyms|dynamic|sysv_hash|gnu_hash)\b")
                have = set()
                for f in an.entry[frm].facts:
                    if f[0] == "var" and f[2] == "Some" and FIELD.search(pp(f[1])):
                        have.add(FIELD.search(pp(f[1])).group(1))
                if frm == sw and d[0] in ("Eq", "Ne") and (val == "otherwise") == (d[0] == "Eq") and C(1) in d[1:]:
                    for x in d[1:]:     # the controlling test itself: is_some() of one more field
                        if isinstance(x, tuple) and x[0] == "discr" and FIELD.search(show(x)):
                            have.add(FIELD.search(show(x)).group(1))
                ok = have == {"symtab", "dynsyms", "dynamic", "sysv_hash", "gnu_hash"}
            rep.require(ok, "common-data", "scan:exit|%s|%s" % (ds, val), w, "scan exit on %s=%s" % (ds, val),
                        "find_common_data stops scanning on %s = %s before every section header has been seen: a later section of a kind not yet found "
                        "is missing from the result although the targeted accessor finds it" % (ds, val))
    # targeted accessors search the same constant and use the same helper with the same provenance
    for q, (cname, helper) in TARGETED.items():
        tfn = F.fn(q)
        if tfn is None:
            rep.bad("common-data", q, "-", "anchor missing")
            continue
        tan = analyze_fn(F, tfn)
        K = cval(F, cname)
        # outcome-based (so that the accessor may delegate to a private helper): the found-outcome is helper(args) and args mention the
        # first match of a search over the section headers whose predicate is sh_type == K
        hcalls = []
        finds = []
        for v, st in ok_outcomes(tan):
            for x in v.subterms():
                if x.op == "call" and x.args[0] == helper and x not in hcalls:
                    hcalls.append(x)
        for hc in hcalls:
            for x in hc.subterms():
                if x.op == "call" and x.args[0] == "iter::find" and x not in finds:
                    finds.append(x)
        okc = bool(finds)
        for fd in finds:
            src, clo = fd.args[2][0], fd.args[2][1]
            pred = search_predicate(F, tan, clo)
            if not (pred is not None and pred[0] == "Eq" and C(K) in pred[1:] and any(isinstance(y, tuple) and y[0] == "fld" and y[2] == "sh_type" for y in pred[1:])):
                okc = False
            nsrc = norm(src)
            if not (nsrc[0] == "agg" and "ParsingIterator" in str(nsrc[1]) and nsrc[3][3] == C(0)):
                okc = False      # not a plain forward iteration from the first header
        rep.require(okc, "common-data", "%s:search" % q, wh(tfn["span"]), "first section with sh_type == %s (Iterator::find)" % cname,
                    "%s does not search for the first section with sh_type == %s" % (q, cname))
        good = len(hcalls) == 1 and cname in arm_args and tuple(item_abstract(norm(x)) for x in hcalls[0].args[2]) == arm_args[cname][1]
        rep.require(good, "common-data", "%s:helper" % q, wh(tfn["span"]), "same helper and argument provenance as find_common_data's %s arm" % cname,
                    "%s and find_common_data's %s arm construct their result differently: %s vs %s"
                    % (q, cname, [show(item_abstract(norm(x)))[:100] for c in hcalls for x in c.args[2]], [show(x)[:100] for x in arm_args.get(cname, ("", ()))[1]]))
    # PT_DYNAMIC fallback in both places
    PT = cval(F, "PT_DYNAMIC")
    for q in ("elf_bytes::ElfBytes::find_common_data", "elf_bytes::ElfBytes::dynamic"):
        qa = analyze_fn(F, F.fn(q))
        ok = False
        for c in qa.calls():
            if c.callee_qual == "parse::ParsingTable::new" and "dynamic::Dyn" in " ".join(c.callee.get("generics") or []):
                a = [norm(x) for x in c.arg_values()]
                b = a[2]
                ehdr_ = F_(P(1), "ehdr")
                if a[0] != F_(ehdr_, "endianness") or a[1] != F_(ehdr_, "class"):
                    continue
                if b[0] == "slice" and b[1] == F_(P(1), "data"):
                    flds = prov.leaves_fields(b)
                    names = {f[2] for f in flds}
                    src_ok = False
                    for f in flds:
                        if f[2] == "p_offset" and f[1][0] == "payload" and f[1][1][0] == "call" and f[1][1][1] == "iter::find":
                            clo = f[1][1][2][1]
                            src_ok = True
                    # the closure of that find tests p_type == PT_DYNAMIC
                    for cc in qa.calls():
                        if cc.declared_norm == "iter::Iterator::find" and cc.args[1].op == "agg":
                            cf = F.fn(cc.args[1].args[1])
                            rt = analyze_fn(F, cf).ret_term() if cf else None
                            if rt is not None and rt.op == "bin" and rt.args[0] == "Eq" and rt.args[2].op == "const" and rt.args[2].args[1] == PT \
                                    and rt.args[1].op == "proj" and rt.args[1].args[1][2] == "p_type":
                                if src_ok and {"p_offset", "p_filesz"} <= names and "p_memsz" not in names:
                                    ok = True
        if not ok:
            # value-based: some success outcome holds a Dyn table built over FILE(h.p_offset, h.p_offset + h.p_filesz) of
            # h = the first program header with p_type == PT_DYNAMIC, wherever the construction is written (a private helper,
            # `segment_data(h)`, ...)
            from .c07 import canon
            H = ("FIRST", "phdr", "p_type", C(PT))
            want_buf = ("FILE", F_(H, "p_offset"), prov.ADD(F_(H, "p_offset"), F_(H, "p_filesz")))
            ehdr_ = F_(P(1), "ehdr")
            for v, st in ok_outcomes(qa):
                v = qa.simp(v, st.facts)
                for x in v.subterms():
                    if x.op == "agg" and x.args[1] == "parse::ParsingTable" and len(x.args[4]) >= 3:
                        cx = canon(F, norm(x))
                        if cx[0] == "agg" and cx[3][0] == F_(ehdr_, "endianness") and cx[3][1] == F_(ehdr_, "class") and cx[3][2] == want_buf:
                            ok = True
        if q.endswith("find_common_data"):
            # ... and the fallback is attempted only when the scan stored no SHT_DYNAMIC table: the search of the program headers
            # (here or in a private helper) sits on a path on which `result.dynamic` has been tested to be None.  Otherwise an
            # unreadable PT_DYNAMIC segment fails find_common_data for a file whose .dynamic section is perfectly good.
            from ..engine import State, program as _program
            prog_ = _program(F)

            def _searches_phdrs(fn_, depth=0):
                an_ = analyze_fn(F, fn_)
                for c_ in an_.calls():
                    if c_.declared_norm == "iter::Iterator::find" and c_.args[1].op == "agg":
                        cf_ = F.fn(c_.args[1].args[1]) if isinstance(c_.args[1].args[1], str) else None
                        rt_ = analyze_fn(F, cf_).ret_term() if cf_ else None
                        if rt_ is not None and "p_type" in pp(rt_):
                            return True
                    lf_ = prog_.local_fn(c_.callee)
                    if lf_ is not None and depth < 2 and not prog_.known_name(lf_) and lf_["kind"] != "Closure" and _searches_phdrs(lf_, depth + 1):
                        return True
                return False
            res_locals = [i for i, ty in qa.local_ty.items() if "CommonElfData" in nm(ty or "") and not nm(ty or "").startswith(("&", "result::", "core::result::"))]
            di = [i for i, fd in enumerate(F.adts["elf_bytes::CommonElfData"]["variants"][0]["fields"]) if fd["name"] == "dynamic"]
            sites = []
            for c_ in qa.calls():
                if c_.block not in qa.entry:
                    continue
                direct = False
                if c_.declared_norm == "iter::Iterator::find" and c_.args[1].op == "agg":
                    cf_ = F.fn(c_.args[1].args[1]) if isinstance(c_.args[1].args[1], str) else None
                    rt_ = analyze_fn(F, cf_).ret_term() if cf_ else None
                    direct = rt_ is not None and "p_type" in pp(rt_)
                lf_ = prog_.local_fn(c_.callee)
                via = lf_ is not None and not prog_.known_name(lf_) and lf_["kind"] != "Closure" and _searches_phdrs(lf_)
                if direct or via:
                    sites.append(c_)
            guarded = bool(sites) and bool(di)
            for c_ in sites:
                stc = State(qa.exit_env.get(c_.block, {}), c_.facts)
                okc = False
                for li in res_locals:
                    cur = qa.read(stc, (("L", li), (("f", di[0], "dynamic"),)))
                    base_, names_ = qa.norm_var(cur, ["None", "Some"])
                    if (base_ is None and names_ == 0) or (base_ is not None and ("var", base_, "None") in c_.facts):
                        okc = True
                guarded = guarded and okc
            rep.require(guarded, "common-data", "%s:pt-dynamic-only-as-fallback" % q, wh(F.fn(q)["span"]),
                        "the program headers are searched only once `result.dynamic` is known to be None",
                        "%s looks for the PT_DYNAMIC segment on a path where the section scan may already have stored a dynamic table (%d sites): "
                        "a failing segment read then fails the call although the .dynamic section was found" % (q, len(sites)))
        rep.require(ok, "common-data", "%s:pt-dynamic" % q, wh(F.fn(q)["span"]), "fallback: DynamicTable over the file range of the first PT_DYNAMIC segment",
                    "%s does not build the PT_DYNAMIC fallback table over data[p_offset .. p_offset+p_filesz] of the first PT_DYNAMIC segment" % q)


def _no_tables(d, val):
    """a decision that by-passes the by-name search legitimately: a variant test on what section_headers_with_strtab() returned, or
    an emptiness test of the section header table (nothing that depends on the queried name)"""
    txt = show(d)
    return (d[0] == "discr" and "section_headers_with_strtab" in txt and "!Ok" in txt) or \
        (d[0] in ("Eq", "Ne", "Lt") and "shdrs" in txt and ("len(" in txt or "is_empty" in txt) and "arg2" not in txt)


def check_by_name(F, rep):
    for q in ("elf_bytes::ElfBytes::section_header_by_name", "elf_stream::ElfStream::section_header_by_name"):
        fn = F.fn(q)
        if fn is None:
            if q.startswith("elf_bytes") or "std" in F["config"]["features"]:
                rep.bad("by-name", q, "-", "anchor missing")
            continue
        an = analyze_fn(F, fn)
        w = wh(fn["span"])
        searches = [c for c in an.calls() if c.declared_norm.startswith("iter::") and c.declared_norm.split("::")[-1] in
                    ("find", "rfind", "filter", "position", "rposition", "last", "find_map", "max_by_key", "min_by_key", "skip_while")]
        good = len(searches) == 1 and searches[0].declared_norm == "iter::Iterator::find"
        if not searches and len(an.loops) == 1:
            by_name_loop(F, rep, q, fn, an, w)      # the same search written as a `for` loop with an early return
            continue
        rep.require(good, "by-name", q + ":first-match", w, "Iterator::find (first match in table order)", "%s searches with %s" % (q, [c.declared_norm for c in searches]))
        if not good:
            continue
        # completeness: the search is by-passed (an answer given without it) only because there are no section headers / no name table
        from ..hashrules import early_exits
        early_exits(an, rep, "by-name", q, w, _no_tables, "no section headers, no section-name string table", target=searches[0].block,
                    subject="the search over the section headers", lost="a section with that name is reported absent")
        clo = searches[0].args[1]
        cf = F.fn(clo.args[1]) if clo.op == "agg" and clo.args[0] == "closure" else None
        if cf is None:
            rep.bad("by-name", q + ":predicate", w, "UNRECOGNISED predicate")
            continue
        can = analyze_fn(F, cf)
        outs = []
        LOOKUPS = ("string_table::StringTable::get", "string_table::StringTable::get_raw")
        for t, st, calls in can.paths() or []:
            # value-based: the look-ups this outcome depends on, whether made here or in a private helper (`strtab.name_eq(..)`)
            gets = []
            for x in [t] + [y for f in st.facts for y in f[1:] if isinstance(y, Term)]:
                for z in x.subterms():
                    if z.op == "call" and z.args[0] in LOOKUPS and z not in gets:
                        gets.append(z)
            outs.append((t, st, gets))
        msgs = []
        n_eq = n_false = 0
        eq_forms = set()
        for t, st, gets in outs:
            if len(gets) != 1:
                msgs.append("the predicate does not look the name up exactly once")
                continue
            g = gets[0]
            raw = g.args[0].endswith("get_raw")
            idx = norm(g.args[2][1])
            if not (idx[0] == "fld" and idx[2] == "sh_name"):
                msgs.append("the name is looked up at %s, expected shdr.sh_name" % show(idx)[:100])
            if ("var", g, "Err") in st.facts:
                n_false += 1
                if not (t.op == "const" and t.args[1] == 0):
                    msgs.append("an unreadable name yields %s instead of `false`" % pp(t)[:80])
                continue
            nm_v = T.payload(g, "Ok")
            cmp_t = None
            if t.op == "bin" and t.args[0] == "Eq" and nm_v in (t.args[1], t.args[2]):
                cmp_t = t
            elif t.op == "const":
                # `matches!(.., Ok(n) if n == query)`: the comparison is a path condition and the value its truth
                for f in st.facts:
                    if f[0] in ("true", "false") and f[1].op == "bin" and f[1].args[0] == "Eq" and nm_v in (f[1].args[1], f[1].args[2]) \
                            and (f[0] == "true") == bool(t.args[1]):
                        cmp_t = f[1]
            if cmp_t is None:
                msgs.append("the predicate is %s, expected query == strtab.get(sh_name)" % pp(t)[:160])
                continue
            other = cmp_t.args[2] if cmp_t.args[1] is nm_v else cmp_t.args[1]
            if "sh_name" in pp(other) or other.op == "const":
                msgs.append("the name is compared with %s, not with the query" % pp(other)[:100])
            if raw:
                # raw bytes may only be compared with the bytes of the query string (a &str is valid UTF-8, so the comparisons agree)
                from ..engine import State
                env_ty = nm(cf["body"]["locals"][1]["ty"]) if len(cf["body"]["locals"]) > 1 else ""
                env = T.refval(clo) if env_ty.startswith("&") else clo
                site = searches[0]       # the captures are read in the state in which the search is started
                inst = program(F).subst(an, State(an.exit_env.get(site.block, {}), site.facts), other, [env, T.refval(Term("ITEM"))])
                pred = norm(inst) if inst is not None else None
                if pred != ("call", "str::as_bytes", (P(2),)):
                    msgs.append("the raw name bytes are compared with something other than query.as_bytes()")
            eq_forms.add(cmp_t)
        n_eq = len(eq_forms)
        rep.require(not msgs and n_eq == 1 and n_false == 1, "by-name", q + ":predicate", wh(cf["span"]), "str == str on strtab.get(sh_name); false when the name is unreadable",
                    "%s: %s" % (q, "; ".join(msgs) or "unexpected path structure"))


def by_name_loop(F, rep, q, fn, an, w):
    """`for shdr in shdrs.iter() { if let Ok(n) = strtab.get(shdr.sh_name) { if n == name { return Ok(Some(shdr)) } } } Ok(None)`:
    forward iteration over every header; the loop is left only when exhausted or with the first header whose readable name equals the
    query (an unreadable name neither matches nor ends the search)."""
    from ..hashrules import loop_exit_controls
    hdr = next(iter(an.loops))
    body = an.loops[hdr]
    nexts = [c for c in an.calls() if c.declared_norm == "iter::Iterator::next" and c.block in body]
    srcs = [norm(c.arg_values()[0]) for c in an.calls() if c.declared_norm == "iter::IntoIterator::into_iter"]
    src_ok = len(srcs) == 1 and len(nexts) == 1 and ((srcs[0][0] == "agg" and "ParsingIterator" in str(srcs[0][1]) and srcs[0][3][3] == C(0))
                                                      or (srcs[0][0] == "call" and srcs[0][1] in ("[T]::iter", "parse::ParsingTable::iter")))
    rep.require(src_ok, "by-name", q + ":first-match", w, "forward iteration over every section header",
                "%s does not iterate the section headers front to back (%s)" % (q, [show(x)[:120] for x in srcs]))
    if not src_ok:
        return
    item = T.payload(nexts[0].result, "Some")
    gets = [c for c in an.calls() if c.callee_qual == "string_table::StringTable::get" and c.block in body]
    msgs = []
    if len(gets) != 1:
        msgs.append("the loop does not look the name up exactly once per header (%d lookups)" % len(gets))
    else:
        g = gets[0]
        idx = norm(g.arg_values()[1])
        if not (idx[0] == "fld" and idx[2] == "sh_name" and norm(item) == idx[1]):
            msgs.append("the name is looked up at %s, expected the current header's sh_name" % show(idx)[:100])
        name_v = T.payload(g.result, "Ok")
        n_match = 0
        for sw, val, tgt, frm in loop_exit_controls(an, hdr):
            if sw is None or val is None:
                msgs.append("the loop is left unconditionally from bb%d" % frm)
                continue
            d = an.switches[sw]
            if d.op == "discr" and an.norm_var(d.args[0], ["None", "Some"])[0] is nexts[0].result:
                if val != "0":
                    msgs.append("the loop is left while headers remain")
                continue
            if d.op == "bin" and d.args[0] == "Eq" and name_v in (d.args[1], d.args[2]) and val == "otherwise":
                other = d.args[2] if d.args[1] is name_v else d.args[1]
                if "sh_name" in pp(other) or other.op == "const":
                    msgs.append("the name is compared with %s, not with the query" % pp(other)[:80])
                n_match += 1
                continue
            msgs.append("the search ends on %s = %s (neither exhaustion nor a name match): an unreadable or different name must not end it" % (pp(d)[:100], val))
        if n_match != 1:
            msgs.append("%d match exits" % n_match)
        # the match returns that header
        somes = [t for t, st in an.ret_leaves() or [] if t.op == "agg" and t.args[3] == "Ok" and t.args[4][0].op == "agg" and t.args[4][0].args[3] == "Some"]
        if not somes or not all(norm(t.args[4][0].args[4][0]) == norm(item) for t in somes):
            msgs.append("the returned header is not the one whose name matched")
    rep.require(not msgs, "by-name", q + ":predicate", w, "first header whose readable name equals the query (loop form)", "%s: %s" % (q, "; ".join(msgs)))
    from ..hashrules import early_exits
    early_exits(an, rep, "by-name", q, w, _no_tables, "no section headers, no section-name string table",
                subject="the search over the section headers", lost="a section with that name is reported absent")


def run(ctx, rep):
    F = ctx.facts()
    prov.set_program(program(F))
    check_views(F, rep)
    check_common(F, rep)
    check_by_name(F, rep)
    # by-name lookup reads names through the table section_headers_with_strtab() locates: that this is the table e_shstrndx (or
    # shdr[0].sh_link) designates, and is withheld only when there is none, is C05's shstrndx rule
    from ._common import premise
    premise(ctx, rep, "C09", "the entry iterators behind the typed views yield exactly the whole entries (next only, no overridden provided method)",
            rules={"iterator", "table", "entry-advance"}, where="src/parse.rs")
    premise(ctx, rep, "C05", "section_headers_with_strtab locates the section-name string table", rules={"shstrndx"}, where="src/elf_bytes.rs, src/elf_stream.rs")
    rep.trusted_base += ["C03 (typed views are built over section_data's / the designated buffer)", "C19 for the SHT_* / PT_* constants",
                        "the property's quantifier: at most one section of each kind (find_common_data keeps the last, the accessors the first)"]
