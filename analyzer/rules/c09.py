"""C09 - lazy tables are coherent (premises of the coherence theorem, decided structurally)."""
from ..engine import analyze_fn, norm, State
from ..engine import norm as nm
from ..terms import T, Term, pp

LEVEL = "other"
EXPLANATION = (
    "Decided: the premises from which coherence of len/get/iter/is_empty follows. Let n = size_for(class) (>= 1 and equal to the bytes every "
    "in-crate ParseAt consumes on success: C02's decode-size rule, run here as part of this check) and L = data.len(). Checked on the type-checked program: len() = L / n; "
    "is_empty() = (len() == 0); get(i) returns P::parse_at(endian, class, &mut (i*n checked), data) unchanged and every earlier error exit is a "
    "guard under which that parse must fail anyway (empty data; start > L; i*n overflow); iter()/into_iter() build a ParsingIterator over the same "
    "endian/class/bytes at offset 0; ParsingIterator::next() = P::parse_at(.., &mut self.offset, self.data).ok() with no other write to offset, "
    "preceded only by the empty-data guard. Paper argument: parse_at at offset o succeeds iff o + n <= L (C02/C04), so get(i) succeeds iff "
    "(i+1)*n <= L iff i < L/n = len(); the iterator's k-th parse is at offset k*n (cursor advance = n) with the same arguments as get(k), hence "
    "yields exactly get(0..len()) and then stops at the first failure. All receivers are &self / Copy and no type has interior mutability, so "
    "results depend on the bytes alone. NOT decided: the arithmetic theorem itself is not machine-checked (it is the three-line argument above).")
RULE_TEXT = "term templates on ParsingTable::{len,is_empty,get,iter,into_iter,new}, ParsingIterator::{new,next}; alias facts for Rel/Rela iterators"


def wh(span):
    return "%s:%d:%d" % (span["file"], span["line"], span["col"])


def fld(base, adt, name):
    for i, fd in enumerate(adt["variants"][0]["fields"]):
        if fd["name"] == name:
            return T.proj(base, ("f", i, name))
    return None


def run(ctx, rep):
    F = ctx.facts()
    tab = F.adts.get("parse::ParsingTable")
    itr = F.adts.get("parse::ParsingIterator")
    if tab is None or itr is None:
        rep.bad("anchor", "parse::ParsingTable / ParsingIterator", "src/parse.rs", "anchor types missing")
        return
    p1, p2, p3 = T.param(1), T.param(2), T.param(3)
    self_ = T.deref(p1)
    data, cls, endian = fld(self_, tab, "data"), fld(self_, tab, "class"), fld(self_, tab, "endian")
    size = T.call("parse::ParseAt::size_for", ("P",), [cls])
    L = T.length(data)
    want_len = T.bin("Div", L, size, "usize")

    def ret_of(q):
        fn = F.fn(q)
        if fn is None:
            rep.bad("anchor", q, "src/parse.rs", "anchor missing: %s" % q)
            return None, None, None
        an = analyze_fn(F, fn)
        return fn, an, an.ret_term()

    fn, an, rt = ret_of("parse::ParsingTable::len")
    if fn:
        rep.require(rt is want_len, "table", "len", wh(fn["span"]), "len() = data.len() / size_for(class)", "ParsingTable::len returns %s" % pp(rt))
    fn, an, rt = ret_of("parse::ParsingTable::is_empty")
    if fn:
        # len() == 0, or the same condition without the division: fewer bytes than one entry (size_for >= 1 for every entry type)
        rep.require(rt is T.bin("Eq", want_len, T.const("usize", 0), "usize") or rt is T.bin("Lt", L, size, "usize"), "table", "is_empty", wh(fn["span"]), "is_empty() = (len() == 0)",
                    "ParsingTable::is_empty returns %s, not len() == 0" % pp(rt))
    # iter / into_iter / constructors
    want_iter = lambda e, c, d: T.agg("adt", "parse::ParsingIterator", 0, "ParsingIterator",
                                      [e, c, d, T.const("usize", 0), T.agg("adt", "marker::PhantomData", 0, "PhantomData", [])])
    fn, an, rt = ret_of("parse::ParsingTable::iter")
    if fn:
        rep.require(rt is want_iter(endian, cls, data), "table", "iter", wh(fn["span"]), "iterator over the same endian/class/bytes from offset 0",
                    "ParsingTable::iter builds %s" % pp(rt))
    fn, an, rt = ret_of("<parse::ParsingTable as std::iter::IntoIterator>::into_iter")
    if fn:
        rep.require(rt is want_iter(fld(p1, tab, "endian"), fld(p1, tab, "class"), fld(p1, tab, "data")), "table", "into_iter", wh(fn["span"]),
                    "same as iter()", "ParsingTable::into_iter builds %s" % pp(rt))
    fn, an, rt = ret_of("parse::ParsingIterator::new")
    if fn:
        rep.require(rt is want_iter(p1, p2, p3), "table", "ParsingIterator::new", wh(fn["span"]), "offset starts at 0", "ParsingIterator::new builds %s" % pp(rt))
    fn, an, rt = ret_of("parse::ParsingTable::new")
    if fn:
        want = T.agg("adt", "parse::ParsingTable", 0, "ParsingTable", [p1, p2, p3, T.agg("adt", "marker::PhantomData", 0, "PhantomData", [])])
        rep.require(rt is want, "table", "ParsingTable::new", wh(fn["span"]), "stores endian/class/bytes unchanged", "ParsingTable::new builds %s" % pp(rt))

    # ---- get(i)
    fn = F.fn("parse::ParsingTable::get")
    if fn is None:
        rep.bad("anchor", "get", "src/parse.rs", "anchor missing: ParsingTable::get")
    else:
        an = analyze_fn(F, fn)
        w = wh(fn["span"])
        start = T.payload(T.call("usize::checked_mul", (), [p2, size]), "Some")
        want_call = T.call("parse::ParseAt::parse_at", ("P", "E"), [endian, cls, T.refval(start), data])
        n_ok = 0
        for t, st, calls in an.paths() or []:
            if t.op == "call" and t.args[0] == "parse::ParseAt::parse_at":
                n_ok += 1
                rep.require(t is want_call, "table", "get:parse", w, "get(i) = P::parse_at(endian, class, &mut (i * size_for), data), returned unchanged",
                            "ParsingTable::get parses %s, expected %s" % (pp(t), pp(want_call)))
            elif t.op == "agg" and t.args[3] == "Err":
                f = st.facts
                guard = None
                if an.truth(f, T.bin("Eq", L, T.const("usize", 0), "usize")) is True:
                    guard = "empty data"
                elif ("var", T.call("usize::checked_mul", (), [p2, size]), "None") in f:
                    guard = "index * size overflows"
                elif an.truth(f, T.bin("Lt", L, start, "usize")) is True or an.truth(f, T.bin("Le", L, start, "usize")) is True:
                    guard = "start beyond the data"
                rep.require(guard is not None, "table", "get:guard", w, "early error exit is redundant with the parse failing (%s)" % guard,
                            "ParsingTable::get has an error exit %s that is not implied by the parse failing: get(i) may fail for i < len()" % pp(t)[:140])
            else:
                rep.bad("table", "get:outcome", w, "UNRECOGNISED outcome %s of ParsingTable::get (result not the parse's result)" % pp(t)[:160])
        rep.require(n_ok == 1, "table", "get:one-success-path", w, "one success path", "%d success paths in ParsingTable::get" % n_ok)
        rep.require(fn["sig"]["inputs"][0].startswith("&parse::ParsingTable"), "table", "get:&self", w, "takes &self", "get takes %s" % fn["sig"]["inputs"][0])

    # ---- ParsingIterator::next
    fn = F.fn("<parse::ParsingIterator as std::iter::Iterator>::next")
    if fn is None:
        rep.bad("anchor", "next", "src/parse.rs", "anchor missing: ParsingIterator::next")
    else:
        an = analyze_fn(F, fn)
        w = wh(fn["span"])
        idata, icls, iend, ioff = fld(self_, itr, "data"), fld(self_, itr, "class"), fld(self_, itr, "endian"), fld(self_, itr, "offset")
        R = T.call("parse::ParseAt::parse_at", ("P", "E"), [iend, icls, T.refval(ioff), idata])
        isize = T.call("parse::ParseAt::size_for", ("P",), [icls])
        n_some = 0
        off_lv = (("M", p1), (("f", [i for i, f in enumerate(itr["variants"][0]["fields"]) if f["name"] == "offset"][0], "offset"),))
        for t, st, calls in an.paths() or []:
            if t.op == "agg" and t.args[3] == "None" and ("var", R, "Err") in st.facts:
                # the parse of this entry failed: `.ok()` (or the equivalent match) ends the iteration; next() itself must leave the
                # cursor where the failed parse left it (a rewind would start a second pass)
                offv = an.read(st, off_lv)
                left = offv is ioff or (offv.op == "errval" and offv.args[0] is R) or (offv.op == "fresh" and str(offv.args[1]).endswith(":err"))
                rep.require(left, "iterator", "next:after-failure", w, "cursor untouched by next() after a failed parse",
                            "ParsingIterator::next sets the offset to %s after a failed parse: iteration does not stay finished" % pp(offv)[:120])
                continue
            if t.op == "agg" and t.args[3] == "None":
                ok = an.truth(st.facts, T.bin("Eq", T.length(idata), T.const("usize", 0), "usize")) is True and an.read(st, off_lv) is ioff
                if not ok and an.read(st, off_lv) is ioff:
                    # ... or for a cursor at / past the end of the data: every in-crate entry type starts with a read of at least one
                    # byte at the cursor (C02's decode-reads rule: the reads tile [0, size) from the cursor, size >= 1), which fails there
                    # without moving the cursor (C04) - the parse would have ended the iteration the same way
                    from ..prover import Prover
                    ok = Prover(an).le(T.length(idata), ioff, st.facts)
                rep.require(ok, "iterator", "next:none-guard", w, "early None only for empty data, offset untouched",
                            "ParsingIterator::next returns None early under a condition other than empty data (iteration may stop before len() items)")
            elif t.op == "agg" and t.args[3] == "Some" and t.args[4][0] is T.payload(R, "Ok") and ("var", R, "Ok") in st.facts:
                n_some += 1
                rep.require(an.read(st, off_lv) is T.bin("Add", ioff, isize, "usize"), "iterator", "next:advance", w,
                            "on success the offset advances by exactly one entry", "offset after a successful next() is %s" % pp(an.read(st, off_lv)))
            else:
                rep.bad("iterator", "next:outcome", w, "UNRECOGNISED outcome %s: next() is not parse_at(.., &mut self.offset, self.data).ok()" % pp(t)[:200])
        rep.require(n_some == 1, "iterator", "next:one-parse", w, "one parsing path", "%d parsing paths" % n_some)
    # ---- the iterator API is exactly `next` (provided methods such as nth/skip/step_by/size_hint are core's defaults over next)
    for imp in F["impls"]:
        if imp["self_adt"] == "parse::ParsingIterator" and nm(imp.get("trait") or "") == "iter::Iterator":
            names = sorted(i["name"] for i in imp["items"] if i["name"] != "Item")
            rep.require(names == ["next"], "iterator", "no-override:Iterator", wh(imp["span"]), "implements only next()",
                        "impl Iterator for ParsingIterator overrides provided methods %s: their agreement with next()/get() is not established"
                        % [x for x in names if x != "next"])
        if imp["self_adt"] == "parse::ParsingTable" and nm(imp.get("trait") or "") == "iter::IntoIterator":
            names = sorted(i["name"] for i in imp["items"] if i["name"] not in ("Item", "IntoIter"))
            rep.require(names == ["into_iter"], "iterator", "no-override:IntoIterator", wh(imp["span"]), "implements only into_iter()", "IntoIterator impl has %s" % names)
    # ---- the API surface of the two types: the inherent methods are exactly the judged ones (a further accessor - first(), last(),
    # get_unchecked(), a cursor setter - is a way to read entries whose agreement with len / get / iteration nothing here establishes)
    JUDGED = {"parse::ParsingTable::new", "parse::ParsingTable::iter", "parse::ParsingTable::len", "parse::ParsingTable::is_empty", "parse::ParsingTable::get",
              "parse::ParsingIterator::new"}
    n_api = 0
    for fn_ in F.all_fns():
        q_ = fn_["qual"]
        if fn_.get("kind") == "Closure" or not fn_.get("reachable_pub") or not (q_.startswith("parse::ParsingTable::") or q_.startswith("parse::ParsingIterator::")):
            continue      # (private helpers are seen through: the judged methods are analysed with them dissolved)
        n_api += 1
        rep.require(q_ in JUDGED, "table", "api-surface:%s" % q_, wh(fn_["span"]), "a judged method",
                    "%s is a method of a lazy table / its iterator that no rule judges: UNRECOGNISED - its agreement with len() / get() / iteration is not established" % q_)
    rep.floor("table", "inherent methods of ParsingTable / ParsingIterator", n_api, 6)
    # ---- aliases and immutability
    al = {a["path"]: norm(a["target"]) for a in F["aliases"]}
    for name, item in (("relocation::RelIterator", "relocation::Rel"), ("relocation::RelaIterator", "relocation::Rela")):
        rep.require(al.get(name) == "parse::ParsingIterator<'data, E, %s>" % item, "alias", name, "src/relocation.rs", "is ParsingIterator<E, %s>" % item.split("::")[-1],
                    "%s = %s" % (name, al.get(name)))
    for name, item in (("section::SectionHeaderTable", "section::SectionHeader"), ("segment::SegmentTable", "segment::ProgramHeader"),
                       ("symbol::SymbolTable", "symbol::Symbol"), ("dynamic::DynamicTable", "dynamic::Dyn"),
                       ("gnu_symver::VersionIndexTable", "gnu_symver::VersionIndex")):
        rep.require(al.get(name) == "parse::ParsingTable<'data, E, %s>" % item, "alias", name, "-", "is ParsingTable<E, %s>" % item.split("::")[-1],
                    "%s = %s" % (name, al.get(name)))
    imm = [f for a in F["adts"] for v in a["variants"] for f in v["fields"]
           if any(x in f["ty"] for x in ("Cell<", "RefCell<", "Atomic", "UnsafeCell<", "Mutex<", "OnceCell<"))]
    rep.require(not imm, "immutability", "no interior mutability", "-", "accessors are functions of the bytes alone", "interior mutability: %s" % imm)
    copy = any(nm(i.get("trait") or "") == "marker::Copy" and i["self_adt"] == "parse::ParsingTable" for i in F["impls"])
    rep.require(copy, "immutability", "ParsingTable: Copy", "src/parse.rs", "tables are Copy views over a shared slice", "ParsingTable is no longer Copy")
    # ---- the entry decoders: an iterator / table over entries yields exactly the whole entries only if each in-crate ParseAt leaves the
    # cursor exactly size_for(class) bytes further on success (an entry decoder that does not advance the caller's cursor makes the
    # iterator yield one entry for ever).  That is C02's decode-size rule; it is run here as part of this property.
    from . import c02
    from ..runner import Report
    sub = Report("C02")
    c02.run(ctx, sub)
    badsz = [v for v in sub.violations if v.rule in ("decode-size", "premise")]
    rep.require(not badsz, "entry-advance", "decode-size rule of C02", "src/parse.rs", "every in-crate ParseAt::parse_at advances the cursor by size_for(class) on success",
                "an entry decoder does not advance the cursor by its entry size, so tables / iterators over it do not yield the whole entries in order: %s"
                % "; ".join("%s: %s" % (v.key, v.msg[:160]) for v in badsz[:3]))
    rep.trusted_base += ["the value part of C02 (which bytes become which field) is not needed here; out-of-crate ParseAt impls are out of scope"]
