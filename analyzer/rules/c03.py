"""C03 - returned data is the exact header-designated byte range of the input (designation + borrowing clauses)."""
import re

from ..engine import analyze_fn, norm as nm, program
from ..terms import T, Term, pp
from .. import prov
from ..prov import norm, show, ok_outcomes, P, F_, C, ADD, SLICE

LEVEL = "proof"
RULE_TEXT = ("provenance normal forms of every success outcome of get_data_range / get_file_data_range / section_data / segment_data / get_bytes "
             "and of the typed views must equal the designated range (try_into / checked_add / field moves only: a clamp, a different field, a "
             "saturating op or a copy shows up as a different normal form); each outcome's guard is checked (SHT_NOBITS, SHF_COMPRESSED); the "
             "return types of all slice-parser accessors carry the input lifetime 'data, which together with C06 (no allocation) means the bytes "
             "can only be sub-slices of the caller's buffer")


def wh(span):
    return "%s:%d:%d" % (span["file"], span["line"], span["col"])


def cval(F, name):
    c = F.consts.get("abi::" + name)
    return int(c["val"]) if c and "val" in c else None


def fidx(F, adt, name):
    for i, fd in enumerate(F.adts[adt]["variants"][0]["fields"]):
        if fd["name"] == name:
            return ("f", i, name)


def range_helpers(F, rep, rule):
    """get_data_range = (sh_offset, sh_offset + sh_size), get_file_data_range = (p_offset, p_offset + p_filesz), checked arithmetic"""
    for q, a, b, forbidden in (("section::SectionHeader::get_data_range", "sh_offset", "sh_size", ()),
                               ("segment::ProgramHeader::get_file_data_range", "p_offset", "p_filesz", ("p_memsz",))):
        fn = F.fn(q)
        if fn is None:
            rep.bad(rule, q, "-", "anchor missing: %s" % q)
            continue
        an = analyze_fn(F, fn)
        outs = [norm(v) for v, _ in ok_outcomes(an)]
        want = ("agg", "tuple", None, (F_(P(1), a), ADD(F_(P(1), a), F_(P(1), b))))
        rep.require(outs == [want], rule, q, wh(fn["span"]), "(%s, %s + %s) in checked arithmetic" % (a, a, b),
                    "%s yields %s, the ABI designates [%s, %s+%s)" % (q, [show(o) for o in outs], a, a, b))


def run(ctx, rep):
    F = ctx.facts()
    prov.set_program(program(F))
    me, hdr = P(1), P(2)
    # ---- range helpers
    range_helpers(F, rep, "range")
    # ---- get_bytes
    fn = F.fn("<&'data [u8] as parse::ReadBytesExt<'data>>::get_bytes")
    if fn is None:
        rep.bad("range", "get_bytes", "src/parse.rs", "anchor missing: ReadBytesExt::get_bytes")
    else:
        an = analyze_fn(F, fn)
        outs = [norm(v) for v, _ in ok_outcomes(an)]
        want = SLICE(P(1), F_(P(2), "start"), F_(P(2), "end"))
        want2 = ("payload", ("call", "[T]::get", (P(1), P(2))), "Some")
        rep.require(outs == [want] or outs == [want2], "range", "get_bytes", wh(fn["span"]), "self.get(range) or SliceReadError", "get_bytes yields %s" % [show(o) for o in outs])
        errs = [t for t, _ in an.ret_leaves() or [] if t.op == "agg" and t.args[3] == "Err"]
        rep.require(all("SliceReadError" in pp(e) for e in errs) or not errs, "range", "get_bytes:err", wh(fn["span"]), "out of range -> SliceReadError",
                    "get_bytes error outcomes: %s" % [pp(e)[:80] for e in errs])
    # ---- section_data
    NOBITS, COMP = cval(F, "SHT_NOBITS"), cval(F, "SHF_COMPRESSED")
    fn = F.fn("elf_bytes::ElfBytes::section_data")
    if fn is None:
        rep.bad("section-data", "section_data", "src/elf_bytes.rs", "anchor missing: ElfBytes::section_data")
    else:
        an = analyze_fn(F, fn)
        w = wh(fn["span"])
        data = F_(me, "data")
        whole = SLICE(data, F_(hdr, "sh_offset"), ADD(F_(hdr, "sh_offset"), F_(hdr, "sh_size")))
        sh_type = T.proj(T.deref(T.param(2)), fidx(F, "section::SectionHeader", "sh_type"))
        sh_flags = T.proj(T.deref(T.param(2)), fidx(F, "section::SectionHeader", "sh_flags"))
        compt = T.bin("Eq", T.bin("BitAnd", sh_flags, T.const("u64", COMP), "u64"), T.const("u64", 0), "u64")
        seen = set()
        for v, st in ok_outcomes(an):
            n = norm(v)
            nob = an.truth(st.facts, T.bin("Eq", sh_type, T.const("u32", NOBITS), "u32"))
            uncompressed = an.truth(st.facts, compt)
            buf, ch = (n[3][0], n[3][1]) if n[0] == "agg" and len(n[3]) == 2 else (None, None)
            if buf == ("bytes", b""):
                rep.require(nob is True and ch == ("agg", "option::Option", "None", ()), "section-data", "section_data:nobits", w, "empty exactly for SHT_NOBITS",
                            "section_data returns an empty slice under a condition other than sh_type == SHT_NOBITS")
                seen.add("nobits")
            elif buf == whole:
                rep.require(nob is False and uncompressed is True and ch == ("agg", "option::Option", "None", ()), "section-data", "section_data:plain", w,
                            "data[sh_offset .. sh_offset+sh_size] when not NOBITS and not compressed",
                            "section_data returns the plain range under the wrong guard (NOBITS=%s, uncompressed=%s)" % (nob, uncompressed))
                seen.add("plain")
            elif buf is not None and buf[0] == "slice_from" and buf[1] == whole:
                cur = buf[2]
                cls = F_(F_(me, "ehdr"), "class")
                okcur = cur == ("classsel", cls, C(12), C(24))
                okhdr = ch == ("agg", "option::Option", "Some", (("parse", "compression::CompressionHeader", F_(F_(me, "ehdr"), "endianness"), cls, C(0), whole),))
                rep.require(nob is False and uncompressed is False and okcur and okhdr, "section-data", "section_data:compressed", w,
                            "remainder of the same range after the parsed compression header",
                            "compressed section_data outcome is %s (cursor %s)" % (show(n)[:300], show(cur)))
                seen.add("compressed")
            else:
                rep.bad("section-data", "section_data:outcome", w,
                        "section_data returns %s; the headers designate %s (or its remainder after the compression header, or empty for NOBITS)"
                        % (show(n)[:300], show(whole)))
        rep.require(seen == {"nobits", "plain", "compressed"}, "section-data", "section_data:outcomes", w, "three outcome classes", "outcome classes %s" % sorted(seen))
    # ---- segment_data
    fn = F.fn("elf_bytes::ElfBytes::segment_data")
    if fn is None:
        rep.bad("segment-data", "segment_data", "src/elf_bytes.rs", "anchor missing")
    else:
        an = analyze_fn(F, fn)
        outs = [norm(v) for v, _ in ok_outcomes(an)]
        want = SLICE(F_(me, "data"), F_(hdr, "p_offset"), ADD(F_(hdr, "p_offset"), F_(hdr, "p_filesz")))
        rep.require(outs == [want], "segment-data", "segment_data", wh(fn["span"]), "data[p_offset .. p_offset+p_filesz]",
                    "segment_data yields %s, the ABI designates %s" % ([show(o) for o in outs], show(want)))
    # ---- typed views hand the buffer on unmodified
    sd = lambda: ("fld", ("payload", ("call", "elf_bytes::ElfBytes::section_data", (me, hdr)), "Ok"), 0)
    seg = ("payload", ("call", "elf_bytes::ElfBytes::segment_data", (me, hdr)), "Ok")
    views = {
        "elf_bytes::ElfBytes::section_data_as_strtab": lambda n: n[0] == "agg" and n[3] == (sd(),),
        "elf_bytes::ElfBytes::section_data_as_rels": lambda n: n[0] == "agg" and n[3][2] == sd() and n[3][3] == C(0),
        "elf_bytes::ElfBytes::section_data_as_relas": lambda n: n[0] == "agg" and n[3][2] == sd() and n[3][3] == C(0),
        "elf_bytes::ElfBytes::section_data_as_notes": lambda n: n[0] == "agg" and n[3][3] == sd() and n[3][4] == C(0),
        "elf_bytes::ElfBytes::section_data_as_dynamic": lambda n: n[0] == "agg" and n[3][2] == sd(),
        # segment_data may appear by name or (when it is a plain forwarding function) as the range it designates
        "elf_bytes::ElfBytes::segment_data_as_notes": lambda n: n[0] == "agg" and n[3][3] in (seg, SLICE(F_(me, "data"), F_(hdr, "p_offset"), ADD(F_(hdr, "p_offset"), F_(hdr, "p_filesz")))) and n[3][4] == C(0),
    }
    nv = 0
    for q, pred in views.items():
        fn = F.fn(q)
        if fn is None:
            rep.bad("typed-view", q, "-", "anchor missing: %s" % q)
            continue
        nv += 1
        an = analyze_fn(F, fn)
        outs = [norm(v) for v, _ in ok_outcomes(an)]
        good = len(outs) == 1 and pred(outs[0])
        rep.require(good, "typed-view", q, wh(fn["span"]), "view constructed over section_data/segment_data's buffer, unmodified",
                    "%s builds %s" % (q, [show(o)[:200] for o in outs]))
    rep.floor("typed-view", "typed views", nv, 6)
    fn = F.fn("elf_bytes::ElfBytes::section_data_as_symbol_table")
    if fn is not None:
        an = analyze_fn(F, fn)
        outs = [norm(v) for v, _ in ok_outcomes(an)]
        data = F_(me, "data")
        r = lambda h: SLICE(data, F_(h, "sh_offset"), ADD(F_(h, "sh_offset"), F_(h, "sh_size")))
        good = len(outs) == 1 and outs[0][0] == "agg" and outs[0][3][0][3][2] == r(P(2)) and outs[0][3][1][3] == (r(P(3)),)
        rep.require(good, "typed-view", "section_data_as_symbol_table", wh(fn["span"]), "symtab over shdr's range, strtab over the linked header's range",
                    "section_data_as_symbol_table builds %s" % [show(o)[:300] for o in outs])
    # ---- borrowing: lifetimes of the returned references
    n_sig = 0
    for fn in F.all_fns():
        if not fn["qual"].startswith("elf_bytes::ElfBytes::") or fn["kind"] == "Closure" or not fn.get("sig"):
            continue
        out = fn["sig"]["output"]
        lts = set(re.findall(r"'(\w+)", out))
        if not lts and "&" not in out:
            continue
        n_sig += 1
        rep.require(lts <= {"data", "static"} and "&[" not in out.replace("&'data [", ""), "borrow", fn["qual"], wh(fn["span"]),
                    "returned references carry 'data", "%s returns %s: a reference not tied to the input buffer's lifetime" % (fn["qual"], out))
    rep.floor("borrow", "accessor signatures with references", n_sig, 12)
    for q in ("string_table::StringTable::get_raw", "string_table::StringTable::get"):
        fn = F.fn(q)
        if fn is not None:
            rep.require("'data" in fn["sig"]["output"], "borrow", q, wh(fn["span"]), "returns &'data", "%s returns %s" % (q, fn["sig"]["output"]))
    # ---- string-table entries and note names / descriptors: the rules of C15 (get_raw) and C14 (Note::parse_at) decide exactly the
    # "designated range, never shifted" clause for those two kinds of slice; they are run here as part of this property
    from . import c14, c15
    from ..runner import Report
    for mod, pid, rname, what in ((c15, "C15", "strtab", "string-table entries are the bytes from the given offset up to the first NUL"),
                                  (c14, "C14", "note", "note name / descriptor are [12, 12+namesz) and [pad(name end), +descsz) of the note")):
        sub = Report(pid)
        mod.run(ctx, sub)
        bad = [v for v in sub.violations if v.rule == rname]
        rep.require(not bad, "sub-slices", "%s rule of %s" % (rname, pid), "src/string_table.rs" if pid == "C15" else "src/note.rs", what,
                    "%s: %s" % (what, "; ".join("%s: %s" % (v.key, v.msg[:200]) for v in bad[:3])))
    # ---- the API surface: "every byte slice or string handed out by the slice parser" - the public functions outside elf_stream / to_str
    # whose return type carries a byte slice or a str reference are exactly the ones judged above (and by the C15 / C14 rules run here);
    # a further one hands out bytes whose range no rule decides
    JUDGED = {"string_table::StringTable::get_raw", "string_table::StringTable::get", "elf_bytes::ElfBytes::section_data",
              "elf_bytes::ElfBytes::segment_data", "note::NoteAny::name_str"}
    n_api = 0
    for fn_ in F.all_fns():
        o_ = (fn_.get("sig") or {}).get("output", "")
        if fn_.get("kind") == "Closure" or not fn_.get("reachable_pub") or fn_["module"] in ("elf_stream", "to_str"):
            continue
        if "&" in o_ and ("[u8]" in o_ or re.search(r"&('\w+ )?str\b", o_)):
            n_api += 1
            rep.require(fn_["qual"] in JUDGED, "api-surface", fn_["qual"], wh(fn_["span"]), "a judged accessor",
                        "%s is a public function that hands out a byte slice / string (%s) and is not one of the accessors whose range the rules decide: "
                        "UNRECOGNISED - it is not established that what it returns is the exact header-designated range" % (fn_["qual"], o_[:80]))
    rep.floor("api-surface", "public slice-returning functions of the slice parser", n_api, 5)
    # the ranges are read off the decoded header structs: that the structs hold the file's fields (not a normalised / clamped copy) is C02
    from ._common import premise
    premise(ctx, rep, "C02", "the header fields that designate ranges are the file's fields", rules={"decode", "decode-reads", "decode-size", "decode-errors", "premise"}, where="src/section.rs, src/segment.rs")
    rep.trusted_base += ["C06: no allocation, hence a &'data [u8] can only be a sub-slice of the input or a 'static constant",
                        "value-preservation of try_into / checked_add on success; semantics of <[u8]>::get"]
