"""Small rule fragments shared by several properties."""
from ..engine import norm as nm


def iterators_only_next(F, rep, rule, adts=None, floor=1):
    """Every in-crate `impl Iterator` (for the given ADTs, or all) defines `next` only: the provided methods (count, last, nth,
    size_hint, fold, ...) are then core's defaults over `next`, so what a rule establishes for `next` holds for every way of
    consuming the iterator.  An override is a second implementation whose agreement with `next` nothing here establishes."""
    n = 0
    for imp in F["impls"]:
        if nm(imp.get("trait") or "") != "iter::Iterator" or (adts is not None and imp["self_adt"] not in adts):
            continue
        n += 1
        names = sorted(i["name"] for i in imp["items"] if i["name"] != "Item")
        sp = imp["span"]
        rep.require(names == ["next"], rule, "no-override:%s" % imp["self_adt"], "%s:%d:%d" % (sp["file"], sp["line"], sp["col"]), "implements only next()",
                    "impl Iterator for %s overrides provided methods %s: their agreement with next() is not established" % (imp["self_adt"], [x for x in names if x != "next"]))
    rep.floor(rule, "Iterator impls defining only next", n, floor)
