"""Small rule fragments shared by several properties."""
from ..engine import norm as nm


def iterators_only_next(F, rep, rule, adts=None, floor=1):
    """Every in-crate `impl Iterator` (for the given ADTs, or all) defines `next` only: the provided methods (count, last, nth,
    size_hint, fold, ...) are then core's defaults over `next`, so what a rule establishes for `next` holds for every way of
    consuming the iterator.  An override is a second implementation whose agreement with `next` nothing here establishes."""
    n = 0
    for imp in F["impls"]:
        if nm(imp.get("trait") or "") != "iter::Iterator" or (adts is not None and imp["self_adt"] not in adts):
            continue
        n += 1
        names = sorted(i["name"] for i in imp["items"] if i["name"] != "Item")
        sp = imp["span"]
        rep.require(names == ["next"], rule, "no-override:%s" % imp["self_adt"], "%s:%d:%d" % (sp["file"], sp["line"], sp["col"]), "implements only next()",
                    "impl Iterator for %s overrides provided methods %s: their agreement with next() is not established" % (imp["self_adt"], [x for x in names if x != "next"]))
    rep.floor(rule, "Iterator impls defining only next", n, floor)


_PREMISE_MEMO = {}
_RUNNING = []


def premise(ctx, rep, pid, what, rules=None, key_filter=None, where="-"):
    """Run (part of) another property's rule module as a premise of this one and require it to hold: what this property's rules take
    for granted about the code they do not look at themselves (field decoding, the read template, the string-table rule, ...).
    `rules`: names of the other module's rules that matter here (None = all); `key_filter`: substring(s) the violation key must contain.
    The sub-report is computed once per process and fact base."""
    import importlib
    from ..runner import Report
    F = ctx.facts()
    mk = (id(F), pid)
    sub = _PREMISE_MEMO.get(mk)
    if sub is None:
        if pid in _RUNNING:
            # a cycle among premises would be an error of the rule set itself: fail closed rather than recurse
            rep.bad("premise", "%s: %s" % (pid, what), where, "premise cycle: %s is already being evaluated (%s)" % (pid, " -> ".join(_RUNNING + [pid])))
            return False
        sub = Report(pid)
        _RUNNING.append(pid)
        try:
            importlib.import_module("analyzer.rules." + pid.lower()).run(ctx, sub)
        finally:
            _RUNNING.pop()
        _PREMISE_MEMO[mk] = sub
    bad = [v for v in sub.violations if (rules is None or v.rule in rules)
           and (key_filter is None or any(k in v.key for k in key_filter))]
    n = len([o for o in sub.obligations if rules is None or o["rule"] in rules])
    rep.require(not bad, "premise", "%s: %s" % (pid, what), where, "%s (%d obligations of %s%s hold)" % (what, n, pid, "" if rules is None else " rules " + "/".join(sorted(rules))),
                "a premise of this property does not hold - %s: %s" % (what, "; ".join("%s: %s" % (v.key, v.msg[:160]) for v in bad[:3])))
    return not bad
