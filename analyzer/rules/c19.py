"""C19 - exported ABI definitions agree with the reference (constants, C layouts, to_str tables)."""
import json
import os
import re
import subprocess

from ..runner import VERIF

LEVEL = "proof"
CONFIG_HANDLED = True   # the rule compares the other feature configurations itself (thorough tier)
RULE_TEXT = ("table comparison, exhaustive: (a) every const-evaluated abi::* constant vs glibc <elf.h> and LLVM-14 "
             "BinaryFormat values of the same name; (b) rustc layout_of of every #[repr(C)] struct vs gABI layout table; "
             "(c) every arm of every *_to_str match table: literal == identifier of the constant the pattern resolves to; "
             "(d) every *_to_string calls its same-stem *_to_str on its parameter and formats the parameter on None")

BITS = {"u8": 8, "u16": 16, "u32": 32, "u64": 64, "usize": 64, "i8": 8, "i16": 16, "i32": 32, "i64": 64, "isize": 64}
# byte-string constants: crate name -> (reference name, suffix the crate adds)
BYTES_ALIASES = {"ELFMAGIC": ("ELFMAG", b""), "ELF_NOTE_GNU": ("ELF_NOTE_GNU", b"\0")}
# symbolic tables that intentionally return display names, not identifiers
NON_SYMBOLIC = {"note_abi_tag_os_to_str": "returns OS display names ('Linux', 'GNU', ...); there is no symbolic form"}


def where(span):
    return "%s:%d:%d" % (span["file"], span["line"], span["col"])


def ref_lookup(tab, name):
    if name in tab:
        return tab[name]
    low = [k for k in tab if k.lower() == name.lower()]
    if len(low) == 1:
        return tab[low[0]]
    return None


def run(ctx, rep):
    ref = json.load(open(os.path.join(VERIF, "ref", "abi_constants.json")))
    lay = json.load(open(os.path.join(VERIF, "ref", "abi_layouts.json")))["structs"]
    f = ctx.facts()
    rep.trusted_base += ["glibc <elf.h> and LLVM-14 BinaryFormat headers as ABI reference (ref/abi_constants.json)",
                        "gABI layout table ref/abi_layouts.json (validated against <elf.h> by clang static asserts in the thorough tier)",
                        "rustc const-eval, layout_of and HIR path resolution"]

    # ---------------------------------------------------------------- (a) constants
    compared = conflicts = 0
    unchecked = []
    abi_consts = {}
    for c in f["consts"]:
        if c["module"] != "abi":
            continue
        name = c["name"]
        abi_consts[name] = c
        if "val" in c:
            v = int(c["val"])
            bits = BITS.get(c["ty"])
            refs = {}
            for src in ("glibc", "llvm"):
                rv = ref_lookup(ref[src], name)
                if rv is not None:
                    refs[src] = rv
            if not refs:
                unchecked.append(name)
                continue
            m = (1 << bits) if bits else None
            vals = {(rv % m if m else rv) for rv in refs.values()}
            if len(vals) > 1:
                conflicts += 1
                rep.notes.append("constant %s excluded: references disagree with each other %r" % (name, refs))
                continue
            compared += 1
            rv = next(iter(vals))
            rep.require((v % m if m else v) == rv, "abi-constant", "abi::" + name, where(c["span"]),
                        "== %s (%s)" % (rv, "+".join(sorted(refs))),
                        "abi::%s = %d but the reference (%s) defines %d" % (name, v, "+".join(sorted(refs)), rv),
                        {"crate": v, "reference": refs})
        elif "bytes" in c:
            b = bytes(c["bytes"])
            alias = BYTES_ALIASES.get(name)
            rs = ref["glibc_strings"].get(alias[0]) if alias else None
            if rs is None:
                unchecked.append(name)
                continue
            compared += 1
            want = rs.encode("latin-1") + alias[1]
            rep.require(b == want, "abi-constant", "abi::" + name, where(c["span"]), "== %r (glibc %s)" % (want, alias[0]),
                        "abi::%s = %r but glibc %s is %r" % (name, b, alias[0], want))
        else:
            unchecked.append(name)
    rep.floor("abi-constant", "constants compared with a reference", compared, 1000)
    rep.info["constants_compared"] = compared
    rep.info["constants_reference_conflicts"] = conflicts
    rep.info["constants_without_reference"] = sorted(unchecked)

    # derived: header tail sizes
    for nm, st in (("file::ELF32_EHDR_TAILSIZE", "Elf32_Ehdr"), ("file::ELF64_EHDR_TAILSIZE", "Elf64_Ehdr")):
        c = f.consts.get(nm)
        if c is None:
            continue
        want = lay[st]["size"] - 16
        rep.require(int(c["val"]) == want, "abi-constant", nm, where(c["span"]), "== sizeof(%s)-EI_NIDENT = %d" % (st, want),
                    "%s = %s, ABI says %d" % (nm, c["val"], want))

    # ---------------------------------------------------------------- (b) layouts
    n_lay = 0
    for a in f["adts"]:
        if not a["repr_c"]:
            continue
        short = a["path"].split("::")[-1]
        r = lay.get(short)
        if r is None:
            rep.notes.append("repr(C) struct %s has no reference layout (unchecked)" % a["path"])
            continue
        n_lay += 1
        l = a["layout"]
        key = "layout:" + a["path"]
        w = where(a["span"])
        if l is None:
            rep.bad("abi-layout", key, w, "no layout computed")
            continue
        fields = a["variants"][0]["fields"]
        got = [(fd["name"], lf["offset"], lf["size"]) for fd, lf in zip(fields, l["fields"])]
        want = [(x["name"], x["offset"], x["size"]) for x in r["fields"]]
        ok = l["size"] == r["size"] and got == want
        diff = [g for g in got if g not in want] + [("missing",) + x for x in want if x not in got]
        rep.require(ok, "abi-layout", key, w, "size %d, %d fields match" % (r["size"], len(want)),
                    "%s: size %d (ABI %d); differing fields (name, offset, width): %r" % (a["path"], l["size"], r["size"], diff),
                    {"got": got, "want": want})
    rep.floor("abi-layout", "repr(C) structs with reference", n_lay, 16)

    # ---------------------------------------------------------------- (c) to_str tables
    n_arms = n_tabs = 0
    if "to_str" in f["config"]["features"]:
        tables = [t for t in f["match_tables"] if t["module"] == "to_str"]
        names = {t["name"] for t in tables}
        for t in tables:
            nm = t["name"]
            if not nm.endswith("_to_str") or nm.endswith("_to_human_str"):
                continue
            if nm in NON_SYMBOLIC:
                rep.notes.append("%s exempt: %s" % (nm, NON_SYMBOLIC[nm]))
                continue
            if t["scrutinee"] is None or t["scrutinee"] not in t["params"]:
                # not a plain `match param { .. }` (an if-chain, a masked scrutinee, ...): decided by the value-based rule below alone
                continue
            n_tabs += 1
            delegates = False
            for arm in t["arms"]:
                w = where(arm["span"])
                val = arm["value"]
                lit = None
                if val.get("call") == "Some" and len(val["args"]) == 1 and "str" in val["args"][0]:
                    lit = val["args"][0]["str"]
                if arm["guard"]:
                    rep.bad("to-str-arm", "to_str::%s:guard" % nm, w, "UNRECOGNISED: guarded arm")
                    continue
                if arm["pat"] == "wild" or arm["pat"] == "binding":
                    if val.get("path") != "None":
                        # the default arm hands the value on (to a private helper holding the rest of the table): what comes back for
                        # which value is decided by the value-based rule below
                        rep.notes.append("%s: default arm is not the literal None (%r): judged by value" % (nm, val))
                    continue
                n_arms += 1
                if arm["pat"] == "const":
                    cname = arm["const_name"]
                    key = "to_str::%s:%s" % (nm, cname)
                    cdef = f.consts.get(arm["const"])
                    exported = cdef is not None and cdef["reachable_pub"]
                    if lit is None:
                        rep.bad("to-str-arm", key, w, "UNRECOGNISED arm value %r" % (val,))
                    else:
                        rep.require(lit == cname and exported, "to-str-arm", key, w, "literal == identifier",
                                    "%s maps %s (= %s) to %r, which is not the identifier of that exported constant"
                                    % (nm, arm["const"], arm.get("val"), lit), {"literal": lit, "constant": arm["const"]})
                elif arm["pat"] == "lit":
                    key = "to_str::%s:lit%s" % (nm, arm.get("val"))
                    c = abi_consts.get(lit or "")
                    ok = (lit is not None and c is not None and "val" in c and arm.get("val") is not None
                          and int(c["val"]) == int(arm["val"]) * (-1 if arm.get("negated") else 1) and c["reachable_pub"])
                    rep.require(ok, "to-str-arm", key, w, "literal pattern equals abi::%s" % lit,
                                "%s maps the number %s to %r, which is not an exported constant with that value"
                                % (nm, arm.get("val"), lit))
                else:
                    rep.bad("to-str-arm", "to_str::%s:?" % nm, w, "UNRECOGNISED pattern kind %s" % arm["pat"])
        # ---- the same tables judged by value on the type-checked program (insensitive to how the table is written: match, if-chain,
        # helper holding part of it): every outcome Some("NAME") is reached exactly under `param == abi::NAME` for an exported constant
        # NAME; every other outcome is None
        from ..engine import analyze_fn as _an_fn
        from ..terms import T as _T
        n_vt = n_varms = 0
        for fn_ in f.all_fns():
            nm = fn_["qual"].split("::")[-1]
            if fn_["module"] != "to_str" or fn_.get("kind") == "Closure" or not fn_.get("reachable_pub") or not nm.endswith("_to_str") \
                    or nm.endswith("_to_human_str") or nm in NON_SYMBOLIC:
                continue
            n_vt += 1
            w = where(fn_["span"])
            an_ = _an_fn(f, fn_)
            lv = an_.ret_leaves()
            if lv is not None and any(t_.has_tree() for t_, _ in lv):
                lv = an_.expand_trees(lv)
            if lv is None:
                rep.bad("to-str-value", "to_str::%s" % nm, w, "UNRECOGNISED: cannot enumerate the outcomes of %s" % nm)
                continue
            p1_ = _T.param(1)
            msgs = []
            for t_, st_ in lv:
                if t_.op == "agg" and t_.args[3] == "None":
                    continue
                lit_ = None
                if t_.op == "agg" and t_.args[3] == "Some" and t_.args[4] and t_.args[4][0].op == "bytes":
                    try:
                        lit_ = bytes(t_.args[4][0].args[0]).decode()
                    except Exception:
                        lit_ = None
                if lit_ is None:
                    msgs.append("UNRECOGNISED outcome %s" % repr(t_)[:80])
                    continue
                n_varms += 1
                c_ = abi_consts.get(lit_)
                vals_ = {g[2] for g in st_.facts if g[0] == "eq" and _same_value(g[1], p1_)}
                if c_ is None or "val" not in c_ or not c_["reachable_pub"]:
                    msgs.append("%r is not the identifier of an exported constant" % lit_)
                elif vals_ != {int(c_["val"])}:
                    msgs.append("%r is returned under %s, expected exactly for the value %s of abi::%s"
                                % (lit_, ("values %s" % sorted(vals_)) if vals_ else "a condition other than a test of the parameter for one value", c_["val"], lit_))
            rep.require(not msgs, "to-str-value", "to_str::%s" % nm, w, "every Some(name) is reached exactly for the value of the exported constant of that name; all else None",
                        "%s: %s" % (nm, "; ".join(msgs[:4])))
        rep.floor("to-str-value", "symbolic tables", n_vt, 10)
        rep.floor("to-str-value", "named outcomes", n_varms, 300)
        rep.floor("to-str-arm", "arms", n_arms, 0)

        # ------------------------------------------------------------ (d) *_to_string
        if "alloc" in f["config"]["features"]:
            from ..engine import analyze_fn
            n_ts = 0
            for fn in f.all_fns():
                if fn["module"] != "to_str" or not fn["qual"].endswith("_to_string"):
                    continue
                n_ts += 1
                check_to_string(f, fn, rep, analyze_fn)
            rep.floor("to-string", "*_to_string functions", n_ts, 9)
    rep.info["to_str_tables"] = n_tabs
    rep.info["to_str_arms"] = n_arms
    rep.info["exhaustive"] = True

    if ctx.tier == "thorough":
        thorough(ctx, rep)


def _same_value(t, p, depth=0):
    """t is p seen through value-preserving conversions: From / Into, a successful try_from / try_into, a widening `as`"""
    from ..terms import INT_BITS, SIGNED
    if t is p:
        return True
    if depth > 4:
        return False
    if t.op == "call" and t.args[0] in ("convert::From::from", "convert::Into::into") and len(t.args[2]) == 1:
        return _same_value(t.args[2][0], p, depth + 1)
    if t.op == "payload" and t.args[1] == "Ok" and t.args[0].op == "call" and t.args[0].args[0] in ("convert::TryFrom::try_from", "convert::TryInto::try_into") \
            and len(t.args[0].args[2]) == 1:
        return _same_value(t.args[0].args[2][0], p, depth + 1)
    if t.op == "cast" and t.args[0] == "IntToInt":
        frm, to = t.args[2], t.args[3]
        if frm in INT_BITS and to in INT_BITS and (INT_BITS[to] > INT_BITS[frm] and (frm not in SIGNED or to in SIGNED)):
            return _same_value(t.args[1], p, depth + 1)
    return False


def check_to_string(f, fn, rep, analyze_fn):
    """X_to_string(p): calls to_str::X_to_str(p) (when it exists) and some fmt Argument is built from &p."""
    from ..engine import T
    stem = fn["qual"][: -len("_to_string")] + "_to_str"
    w = where(fn["span"])
    an = analyze_fn(f, fn)
    sibling = f.fn(stem)
    calls = an.calls()
    if sibling is not None:
        hit = [c for c in calls if c.callee_qual == stem]
        ok = bool(hit) and all(c.args[0] == T.param(1) for c in hit)
        rep.require(ok, "to-string", fn["qual"] + ":delegates", w, "calls %s(param)" % stem,
                    "%s does not call %s on its parameter" % (fn["qual"], stem))
        # the Some payload must flow into the returned String: directly (`s.to_string()`), or through a combinator whose mapping
        # function is a string conversion (`.map_or_else(|| format!(..), str::to_string)`, `.map(String::from)`, ...)
        CONV = ("string::ToString::to_string", "borrow::ToOwned::to_owned", "convert::From::from", "convert::Into::into", "string::String::from_str")
        closures = [g for g in f.all_fns() if g["qual"].startswith(fn["qual"] + "::{closure")]

        def converts(x):
            if x.op == "fnptr":
                q = str(x.args[0])
                return any(k in q for k in ("to_string", "to_owned", "String as std::convert::From", "String as convert::From", "::from", "::into"))
            if x.op == "agg" and x.args[0] == "closure":
                g = f.fn(x.args[1]) if isinstance(x.args[1], str) else None
                if g is not None:
                    return any(c2.declared_norm in CONV and c2.args and c2.args[0].mentions(T.param(2)) for c2 in analyze_fn(f, g).calls())
            return False
        ok2 = False
        for c in calls:
            if c.declared_norm in CONV and hit:
                a0 = c.args[0]
                if a0.mentions(hit[0].result):
                    ok2 = True
            if c.declared_norm in ("option::Option::map_or_else", "option::Option::map_or", "option::Option::map") and hit \
                    and c.args and c.args[0].mentions(hit[0].result) and any(converts(x) for x in c.args[1:]):
                ok2 = True
        if not ok2 and hit:
            # ... or through a private helper `h(opt, ..)` whose own Some(s) case converts s
            from ..engine import program
            prog_ = program(f)
            for c in calls:
                lf_ = prog_.local_fn(c.callee)
                if lf_ is None or prog_.known_name(lf_) or lf_["qual"] == stem:
                    continue
                for k_, a_ in enumerate(c.args):
                    if a_ is hit[0].result or a_.mentions(hit[0].result):
                        han = analyze_fn(f, lf_)
                        pk = T.param(k_ + 1)
                        for c2 in han.calls():
                            if c2.declared_norm in CONV and c2.args and c2.args[0].mentions(pk) and ("var", pk, "Some") in c2.facts:
                                ok2 = True
        rep.require(ok2, "to-string", fn["qual"] + ":some", w, "Some(s) branch converts s",
                    "%s: the Some(s) result of %s does not flow into the returned String" % (fn["qual"], stem))
    # numeric fallback: a fmt argument constructed from a reference to the parameter (in the function or in a closure that captures it)
    ok3 = False
    for c in calls:
        if "fmt::rt::Argument" in c.declared_norm and c.args and c.args[0].is_ref_to_param(1):
            ok3 = True
    for g in [g for g in f.all_fns() if g["qual"].startswith(fn["qual"] + "::{closure")]:
        for c in analyze_fn(f, g).calls():
            if "fmt::rt::Argument" in c.declared_norm and c.args and c.args[0].mentions(T.param(1)):
                # the closure's environment holds (a reference to) the parameter: confirm the capture at the creation site
                for c0 in calls:
                    for x in c0.args:
                        if x.op == "agg" and x.args[0] == "closure" and x.args[1] == g["qual"] and any(y.is_ref_to_param(1) or y is T.param(1) for y in x.args[4]):
                            ok3 = True
    if not ok3:
        # ... or in a private helper that receives the parameter by value (`name_or_hex(X_to_str(v), "X", v)`)
        from ..engine import program
        prog_ = program(f)
        for c in calls:
            lf_ = prog_.local_fn(c.callee)
            if lf_ is None or prog_.known_name(lf_) or lf_["kind"] == "Closure":
                continue
            for k_, a_ in enumerate(c.args):
                if a_ is T.param(1):
                    han = analyze_fn(f, lf_)
                    if any("fmt::rt::Argument" in c2.declared_norm and c2.args and c2.args[0].is_ref_to_param(k_ + 1) for c2 in han.calls()):
                        ok3 = True
    rep.require(ok3, "to-string", fn["qual"] + ":fallback", w, "format!(.. {param} ..)",
                "%s: the fallback text is not formatted from the numeric parameter" % fn["qual"])


def thorough(ctx, rep):
    # oracle re-derivation: regenerate the constant reference from the installed headers; validate layouts with clang
    r = subprocess.run(["python3", os.path.join(VERIF, "tools", "gen_abi_ref.py"), "--check",
                        os.path.join(VERIF, "ref", "abi_constants.json")], capture_output=True, text=True)
    rep.require(r.returncode == 0, "oracle", "abi_constants.json re-derivation", "-", r.stdout.strip(),
                "committed ref/abi_constants.json differs from what the installed headers give: " + r.stdout + r.stderr)
    r = subprocess.run(["python3", os.path.join(VERIF, "tools", "check_layout_ref.py")], capture_output=True, text=True)
    rep.require(r.returncode == 0, "oracle", "abi_layouts.json vs <elf.h>", "-", r.stdout.strip(),
                "ref/abi_layouts.json disagrees with <elf.h>: " + r.stdout + r.stderr)
    # all feature configurations that contain to_str must give the same tables
    base = {t["name"]: t["arms"] for t in ctx.facts()["match_tables"] if t["module"] == "to_str"}
    for feats in (("to_str",), ("alloc", "to_str")):
        other = {t["name"]: t["arms"] for t in ctx.facts(feats)["match_tables"] if t["module"] == "to_str"}
        same = all(_strip(base[k]) == _strip(other[k]) for k in other if k in base and k.endswith("_to_str"))
        rep.require(same, "config", "to_str tables identical under features %s" % "+".join(feats), "-", "identical",
                    "to_str tables differ between feature configurations")
    for feats in ((), ("alloc",)):
        o = ctx.facts(feats)
        a = {c["path"]: c.get("val", c.get("bytes")) for c in ctx.facts()["consts"] if c["module"] == "abi"}
        b = {c["path"]: c.get("val", c.get("bytes")) for c in o["consts"] if c["module"] == "abi"}
        rep.require(a == b, "config", "abi constants identical under features %s" % ("+".join(feats) or "none"), "-",
                    "identical", "abi constants differ between feature configurations")


def _strip(arms):
    return [{k: v for k, v in a.items() if k in ("pat", "const", "const_name", "val", "value", "guard", "negated")} for a in arms]
