"""C11 - GNU hash lookup: soundness clause, lookup linkage, hash-function form."""
from ..engine import analyze_fn, program
from ..terms import T, Term, pp
from .. import prov
from ..prov import norm, show, P, F_, C
from ..hashrules import soundness, gnu_hash_form, fact_norms, wh, walk_exits, walk_compares, early_exits, cond_holds, range_of_next

LEVEL = "other"
EXPLANATION = (
    "Decided: (soundness, any table bytes) every returned (i, symbol) has symbol = symtab.get(i) with that same i and is reached only after "
    "strtab.get_raw(symbol.st_name) compared equal to the query; (lookup linkage, necessary for completeness) bloom word index (hash / W) % nbloom with "
    "W = 32 over u32 words for ELF32 and 64 over u64 words for ELF64, both bit tests hash % W and (hash >> nshift) % W against that same word, bucket "
    "hash % nbucket, chain start bucket - symoffset (None when smaller), match test hash|1 == chain|1, stop on chain & 1, symbol index chain_idx + symoffset; "
    "(hash function) gnu_hash folds the bytes in order with seed 5381 and step h*33 + c mod 2^32 (ring normal form, so (h<<5)+h+c is accepted too). "
    "NOT decided: completeness on well-formed tables as a whole (behavioural); chain-walk bounds are C16.")
RULE_TEXT = "dominance/fact rule on the Some outcomes; provenance normal forms of the guards on the successful path; ring-normal-form template of the hash step"


COUNTERS = set()


def run(ctx, rep):
    COUNTERS.clear()
    F = ctx.facts()
    prov.set_program(program(F))
    an = soundness(F, rep, "hash::GnuHashTable::find", "soundness")
    if an is not None:
        fn = an.fn
        w = wh(fn["span"])
        me = P(1)
        hv = ("call", "hash::gnu_hash", (P(2),))
        nb = ("Div", ("len", F_(F_(me, "buckets"), "data")), ("call", "parse::ParseAt::size_for", (F_(F_(me, "buckets"), "class"),)))
        hdr = F_(me, "hdr")
        # bloom filter and chain walk, judged per ELF class (the function is analysed once under class = ELF32 and once under
        # class = ELF64, so it does not matter whether the class split is a match in find, a helper, or merged values)
        from ..hashrules import some_outcomes
        cls_fi = [("f", i, "class") for i, fd in enumerate(F.adts["hash::GnuHashTable"]["variants"][0]["fields"]) if fd["name"] == "class"][0]
        cls_term = T.proj(T.deref(T.param(1)), cls_fi)
        bucket = ("payload", ("call", "parse::ParsingTable::get", (F_(me, "buckets"), ("Rem", hv, nb))), "Ok")
        so = F_(hdr, "table_start_idx")
        nchain = ("Div", ("len", F_(F_(me, "chains"), "data")), ("call", "parse::ParseAt::size_for", (F_(F_(me, "chains"), "class"),)))
        for cname, W, wty in (("ELF32", 32, "u32"), ("ELF64", 64, "u64")):
            anc = analyze_fn(F, fn, (("var", cls_term, cname),))
            outs = [st for v, st in some_outcomes(anc)]
            kk = "[%s]" % cname
            if not rep.require(bool(outs), "linkage", "find:some" + kk, w, "has a symbol-yielding outcome for %s" % cname, "find never yields a symbol for %s" % cname):
                continue
            st0 = outs[0]
            # the width may be written 8 * W::size_for(self.class) in a helper generic over the word type: with W concrete
            # (u32 / u64, whose size_for is constant) that is the literal again
            from ..terms import rebuild
            from ..engine import State
            mp = {}
            for f in st0.facts:
                for y in f[1:]:
                    if isinstance(y, Term):
                        for x in y.subterms():
                            if x.op == "call" and x.args[0] == "parse::ParseAt::size_for" and x.args[1] and x.args[1][0] in ("u32", "u64") \
                                    and len(x.args[2]) == 1 and x.args[2][0] is cls_term:
                                mp[x] = T.const("usize", 4 if x.args[1][0] == "u32" else 8)
            if mp:
                st0 = State(st0.env, frozenset(tuple(rebuild(y, mp) if isinstance(y, Term) else y for y in f) for f in st0.facts))
            fs = fact_norms(st0)
            word = ("payload", ("call", "parse::ParsingTable::get",
                                (("agg", "parse::ParsingTable", "ParsingTable", (F_(me, "endian"), F_(me, "class"), F_(me, "bloom"), ("agg", "marker::PhantomData", "PhantomData", ()))),
                                 ("Rem", ("Div", hv, C(W)), F_(hdr, "nbloom")))), "Ok")
            bit = lambda x: ("Eq",) + tuple(sorted((("BitAnd",) + tuple(sorted((word, ("Shl", C(1), ("Rem", x, C(W)))), key=repr)), C(0)), key=repr))
            # the same bit number written with a mask: W is a power of two, so x % W = x & (W - 1) for the unsigned hash
            bitm = lambda x: ("Eq",) + tuple(sorted((("BitAnd",) + tuple(sorted((word, ("Shl", C(1), ("BitAnd",) + tuple(sorted((x, C(W - 1)), key=repr)))), key=repr)), C(0)), key=repr))
            h2 = ("payload", ("call", "u32::checked_shr", (hv, F_(hdr, "nshift"))), "Some")
            rep.require(("false", bit(hv)) in fs or ("false", bitm(hv)) in fs, "linkage", "bloom:bit1" + kk, w, "first bloom bit = hash %% %d of bloom[(hash / %d) %% nbloom]" % (W, W),
                        "%s: the successful path does not test bit (hash %% %d) of the bloom word bloom[(hash / %d) %% nbloom]" % (cname, W, W))
            rep.require(("false", bit(h2)) in fs or ("false", bitm(h2)) in fs, "linkage", "bloom:bit2" + kk, w, "second bloom bit = (hash >> nshift) %% %d on the same word" % W,
                        "%s: the successful path does not test bit ((hash >> nshift) %% %d) of the same bloom word" % (cname, W))
            # the word is read from a table of class-sized words
            tys = set()
            for f in st0.facts:
                if f[0] == "var" and f[1].op == "call" and f[1].args[0] == "parse::ParsingTable::get" and "bloom" in pp(f[1].args[2][0]):
                    g = [x for x in f[1].args[1] if not x.startswith("'")]
                    tys.add(g[-1] if g else None)
            for c in anc.calls():
                if c.callee_qual == "parse::ParsingTable::get" and "bloom" in pp(c.args[0]) + pp(c.arg_values()[0]) and c.block in anc.entry:
                    g = [x for x in (c.callee.get("generics") or []) if not x.startswith("'")]
                    tys.add(g[-1] if g else None)
            rep.require(tys == {wty}, "linkage", "bloom:word-type" + kk, w, "%s reads %s words" % (cname, wty), "%s: bloom words are read as %s" % (cname, sorted(map(str, tys))))
            rep.require(("false", ("Lt", bucket, so)) in fs, "linkage", "chain:start-guard" + kk, w, "bucket value below symoffset means absent",
                        "the successful path does not require buckets[hash %% nbucket] >= symoffset")
            # chain range: `for i in (bucket - symoffset)..nchain`, or the same as a counter loop
            rng = None
            for c in anc.calls():
                if c.declared_norm == "iter::IntoIterator::into_iter" and c.block in anc.entry:
                    a0 = norm(c.arg_values()[0])
                    if a0[0] == "agg" and a0[1] == "ops::Range":
                        rng = a0[3]
            if rng is None and len(anc.loops) == 1:
                hdrb = next(iter(anc.loops))
                body = anc.loops[hdrb]
                for ph, ops in anc.phi_ops.items():
                    if ph.args[0] != (anc.fid, hdrb):
                        continue
                    ent = [norm(v) for p, v in ops.items() if p not in body]
                    bk = [norm(v) for p, v in ops.items() if p in body]
                    if ent == [("-", bucket, so)] and bk and all(x == prov.ADD(norm(ph), C(1)) for x in bk):
                        for b_, d in anc.switches.items():
                            nd = norm(d)
                            if b_ in body and nd[0] == "Lt" and nd[1] == norm(ph):
                                rng = (ent[0], nd[2])
                                COUNTERS.add(norm(ph))
            rep.require(rng is not None and tuple(rng) == (("-", bucket, so), nchain), "linkage", "chain:range" + kk, w, "walk chain entries (bucket - symoffset) .. nchain",
                        "the chain walk covers %s" % (show(("agg", "ops::Range", None, tuple(rng)))[:200] if rng else None))
            # match test: hash | 1 == chain | 1   (or (hash ^ chain) >> 1 == 0: equal except for bit 0)
            okm = False
            for f in fs:
                if f[0] != "true" or f[1][0] != "Eq":
                    continue
                a_, b_ = f[1][1], f[1][2]
                chain_word = lambda z: isinstance(z, tuple) and z and z[0] == "payload" and z[1][0] == "call" and z[1][1] == "parse::ParsingTable::get" and z[1][2][0] == F_(me, "chains")
                for x, y in ((a_, b_), (b_, a_)):
                    if x == ("BitOr",) + tuple(sorted((hv, C(1)), key=repr)) and isinstance(y, tuple) and y[0] == "BitOr" and C(1) in y and any(chain_word(z) for z in y[1:]):
                        okm = True
                    if x == C(0) and isinstance(y, tuple) and y[0] == "Shr" and y[2] == C(1) and isinstance(y[1], tuple) and y[1][0] == "BitXor" \
                            and hv in y[1][1:] and any(chain_word(z) for z in y[1][1:]):
                        okm = True
            rep.require(okm, "linkage", "chain:match" + kk, w, "hash | 1 == chain[i] | 1", "the successful path does not compare the hash with the chain entry ignoring bit 0")
            # answers given before the walk: only for the reasons for which a well-formed table cannot contain the name
            zero = lambda x: ("Eq",) + tuple(sorted((x, C(0)), key=repr))
            early_atoms = {zero(nb), ("Lt", nb[1], nb[2]), zero(F_(hdr, "nbloom")), bit(hv), bit(h2), bitm(hv), bitm(h2), ("Lt", bucket, so),
                           ("Le", nchain, ("-", bucket, so))}          # the chain range (bucket - symoffset)..nchain is empty

            def early_ok(d, val, _atoms=early_atoms):
                if d in (nb, F_(hdr, "nbloom")):
                    return val == "0"              # a `match` on the count itself with an arm for 0
                atom, pol = cond_holds(d, val)
                if atom[0] == "Eq" and len(atom) == 3:
                    atom = ("Eq",) + tuple(sorted(atom[1:], key=repr))
                if not pol and atom[0] == "Lt" and len(atom) == 3 and ("Le", atom[2], atom[1]) in _atoms:
                    return True                    # !(a < b) is b <= a (branch conditions are told in one spelling)
                return pol and atom in _atoms
            def width_consts(t_):
                # 8 * W::size_for(self.class) with W concrete (u32 / u64): the literal width again (as for the facts above)
                mp_ = {x: T.const("usize", 4 if x.args[1][0] == "u32" else 8) for x in t_.subterms()
                       if x.op == "call" and x.args[0] == "parse::ParseAt::size_for" and x.args[1] and x.args[1][0] in ("u32", "u64")
                       and len(x.args[2]) == 1 and x.args[2][0] is cls_term}
                return rebuild(t_, mp_) if mp_ else t_
            early_exits(anc, rep, "linkage", "find" + kk, w, early_ok, "no buckets, no bloom words, a clear bloom bit, bucket value below symoffset, empty chain range",
                        pre=width_consts)
        # returned index = chain index + symoffset
        from ..hashrules import some_outcomes
        for v, st in some_outcomes(an):
            n = norm(v)
            i = n[3][0] if n[0] == "agg" else None
            ok = i is not None and i[0] == "+" and F_(F_(P(1), "hdr"), "table_start_idx") in i[1:]
            rep.require(ok, "linkage", "chain:index", w, "symbol index = chain index + symoffset", "the returned index is %s" % (show(i)[:160] if i else None))
        # stop bit
        stops = [b for b, d in an.switches.items() if b in an.entry and "chains" in pp(d) and norm(d)[0] in ("Ne", "Eq") and "BitAnd" in repr(norm(d)) and C(1) in _flat(norm(d))]
        rep.require(bool(stops), "linkage", "chain:stop", w, "stop when chain[i] & 1", "the chain walk never tests the stop bit (chain & 1)")
        # ways out of the walk: the range is exhausted, the stop bit, a failed read, or the match
        def stop(d, val, sw):
            if d[0] == "discr" and d[1][0] == "fresh" and range_of_next(an, sw) is not None:   # the range itself is rule chain:range
                return val == "0" or "leaves while the range still has entries"
            if d[0] == "Lt" and d[1] in COUNTERS and d[2] == nchain:                            # the same range as a counter loop (rule chain:range)
                return val == "0" or "leaves while the range still has entries"
            if d[0] in ("Ne", "Eq") and len(d) == 3:
                band = [x for x in d[1:] if isinstance(x, tuple) and x[0] == "BitAnd" and C(1) in x[1:] and "chains" in repr(x)]
                cst = [x for x in d[1:] if x in (C(0), C(1))]
                if len(band) == 1 and len(cst) == 1:
                    # the branch value under which the stop bit is set: (x & 1) != 0, or (x & 1) == 1
                    set_when_true = (d[0] == "Ne") == (cst[0] == C(0))
                    return (val == "otherwise") == set_when_true or "leaves when the stop bit is clear"
            return None
        walk_exits(an, rep, "linkage", "find", w, stop, "chain range exhausted, or stop bit set")
        # an entry may be passed over without a name comparison only because its hash differs from the query's (ignoring bit 0)
        def chain_word(z):
            return isinstance(z, tuple) and z and z[0] == "payload" and z[1][0] == "call" and z[1][1] == "parse::ParsingTable::get" and z[1][2][0] == F_(me, "chains")

        def hash_mismatch(d, val):
            if d[0] not in ("Eq", "Ne") or len(d) != 3:
                return False
            differ = (val == "0") if d[0] == "Eq" else (val == "otherwise")
            if not differ:
                return False
            for x, y in ((d[1], d[2]), (d[2], d[1])):
                if x == ("BitOr",) + tuple(sorted((hv, C(1)), key=repr)) and isinstance(y, tuple) and y[0] == "BitOr" and C(1) in y and any(chain_word(z) for z in y[1:]):
                    return True
                if x == C(0) and isinstance(y, tuple) and y[0] == "Shr" and y[2] == C(1) and isinstance(y[1], tuple) and y[1][0] == "BitXor" \
                        and hv in y[1][1:] and any(chain_word(z) for z in y[1][1:]):
                    return True
            return False
        walk_compares(an, rep, "linkage", "find", w, hash_mismatch, " unless the entry's hash differs from the query's")
    # constructor: 16-byte header, nbloom class-sized words, nbucket u32 buckets, chains = the rest
    fn = F.fn("hash::GnuHashTable::new")
    if fn is not None:
        an2 = analyze_fn(F, fn)
        from ..hashrules import ctor_refusals
        ctor_refusals(rep, "linkage", "new", an2, wh(fn["span"]))
        data = P(3)
        H = prov.PARSE("hash::GnuHashHeader", P(1), P(2), C(0), data)
        got = {}
        for v, st in prov.ok_outcomes(an2):
            c32 = an2.truth(st.facts, T.bin("Eq", T.discr(T.param(2)), T.const("isize", 0), "isize"))
            cls = "ELF32" if ("var", T.param(2), "ELF32") in st.facts else "ELF64" if ("var", T.param(2), "ELF64") in st.facts else None
            got[cls] = norm(v)
        ok = set(got) == {"ELF32", "ELF64"}
        for cls, wsz in (("ELF32", 4), ("ELF64", 8)):
            b_end = prov.ADD(C(16), prov.MUL(C(wsz), F_(H, "nbloom")))
            k_end = prov.ADD(b_end, prov.MUL(C(4), F_(H, "nbucket")))
            tab = lambda d: ("agg", "parse::ParsingTable", "ParsingTable", (P(1), P(2), d, ("agg", "marker::PhantomData", "PhantomData", ())))
            want = ("agg", "hash::GnuHashTable", "GnuHashTable", (H, P(1), P(2), prov.SLICE(data, C(16), b_end), tab(prov.SLICE(data, b_end, k_end)), tab(("slice_from", data, k_end))))
            if got.get(cls) != want:
                ok = False
        rep.require(ok, "linkage", "new", wh(fn["span"]), "header 16 bytes, bloom nbloom x {4,8} bytes by class, nbucket x 4 bytes of buckets, chains = the rest",
                    "GnuHashTable::new lays the section out as %s" % {k: show(v)[:260] for k, v in got.items()})
    gnu_hash_form(F, rep)
    # what the lookup rules take for granted about the code they call: words / headers / symbols decode per the ABI (C02), tables index
    # and iterate coherently (C09), and get_raw returns the NUL-terminated string at the offset (C15)
    from ._common import premise
    premise(ctx, rep, "C02", "hash header, table words and symbols decode per the ABI", rules={"decode", "decode-reads", "decode-size", "decode-errors", "premise"}, where="src/hash.rs, src/symbol.rs")
    premise(ctx, rep, "C09", "ParsingTable len / get / is_empty are coherent", rules={"table", "iterator", "entry-advance"}, where="src/parse.rs")
    premise(ctx, rep, "C15", "get_raw returns the string at the offset", rules={"strtab"}, where="src/string_table.rs")
    rep.trusted_base += ["C02 (header / word decoding), C09 (table get), C15 (get_raw), C16 (the walk is bounded)", "slice equality in core"]


def _flat(n):
    out = []
    if isinstance(n, tuple):
        out.append(n)
        for x in n:
            out.extend(_flat(x))
    return out
