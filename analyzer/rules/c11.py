"""C11 - GNU hash lookup: soundness clause, lookup linkage, hash-function form."""
from ..engine import analyze_fn, program
from ..terms import T, pp
from .. import prov
from ..prov import norm, show, P, F_, C
from ..hashrules import soundness, gnu_hash_form, fact_norms, wh, walk_exits, range_of_next

LEVEL = "other"
EXPLANATION = (
    "Decided: (soundness, any table bytes) every returned (i, symbol) has symbol = symtab.get(i) with that same i and is reached only after "
    "strtab.get_raw(symbol.st_name) compared equal to the query; (lookup linkage, necessary for completeness) bloom word index (hash / W) % nbloom with "
    "W = 32 over u32 words for ELF32 and 64 over u64 words for ELF64, both bit tests hash % W and (hash >> nshift) % W against that same word, bucket "
    "hash % nbucket, chain start bucket - symoffset (None when smaller), match test hash|1 == chain|1, stop on chain & 1, symbol index chain_idx + symoffset; "
    "(hash function) gnu_hash folds the bytes in order with seed 5381 and step h*33 + c mod 2^32 (ring normal form, so (h<<5)+h+c is accepted too). "
    "NOT decided: completeness on well-formed tables as a whole (behavioural); chain-walk bounds are C16.")
RULE_TEXT = "dominance/fact rule on the Some outcomes; provenance normal forms of the guards on the successful path; ring-normal-form template of the hash step"


def run(ctx, rep):
    F = ctx.facts()
    prov.set_program(program(F))
    an = soundness(F, rep, "hash::GnuHashTable::find", "soundness")
    if an is not None:
        fn = an.fn
        w = wh(fn["span"])
        me = P(1)
        hv = ("call", "hash::gnu_hash", (P(2),))
        nb = ("Div", ("len", F_(F_(me, "buckets"), "data")), ("call", "parse::ParseAt::size_for", (F_(F_(me, "buckets"), "class"),)))
        hdr = F_(me, "hdr")
        # bloom word selection per class
        wphi = fphi = None
        for ph, ops in an.phi_ops.items():
            vals = sorted((norm(v) for v in ops.values()), key=repr)
            if vals == [C(32), C(64)]:
                wphi = ph
        rep.require(wphi is not None, "linkage", "bloom:width", w, "bloom word width is 32 / 64 by class", "no class-dependent bloom width {32, 64} found")
        if wphi is not None:
            blk = wphi.args[0]
            word = lambda W, wide: ("payload", ("call", "parse::ParsingTable::get",
                                                (("agg", "parse::ParsingTable", "ParsingTable", (F_(me, "endian"), F_(me, "class"), F_(me, "bloom"), ("agg", "marker::PhantomData", "PhantomData", ()))),
                                                 ("Rem", ("Div", hv, C(W)), F_(hdr, "nbloom")))), "Ok")
            for ph, ops in an.phi_ops.items():
                if ph.args[0] == blk and ph is not wphi:
                    by_w = {}
                    for p, v in ops.items():
                        by_w[norm(an.phi_ops[wphi][p])] = norm(v)
                    if by_w == {C(32): word(32, False), C(64): word(64, True)}:
                        fphi = ph
                        # word types: the 32-bit word comes from a u32 table, the 64-bit one from a u64 table
                        tys = {}
                        for c in an.calls():
                            if c.callee_qual == "parse::ParsingTable::get" and "bloom" in pp(c.args[0]) + pp(c.arg_values()[0]):
                                g = [x for x in (c.callee.get("generics") or []) if not x.startswith("'")]
                                tys[c.block] = g[-1] if g else None
                        rep.require(sorted(tys.values(), key=str) == ["u32", "u64"], "linkage", "bloom:word-type", w, "ELF32 reads u32 words, ELF64 reads u64 words",
                                    "bloom words are read as %s" % sorted(map(str, tys.values())))
            rep.require(fphi is not None, "linkage", "bloom:word", w, "word = bloom[(hash / W) % nbloom] for W = 32 / 64",
                        "the bloom word is not bloom[(hash / W) %% nbloom] over the class's word size")
        outs = [st for v, st in __import__("analyzer.hashrules", fromlist=["some_outcomes"]).some_outcomes(an)]
        if outs and wphi is not None and fphi is not None:
            fs = fact_norms(outs[0])
            Wn, Fn = norm(wphi), norm(fphi)
            bit = lambda x: ("Eq",) + tuple(sorted((("BitAnd",) + tuple(sorted((Fn, ("Shl", C(1), ("Rem", x, Wn))), key=repr)), C(0)), key=repr))
            h2 = ("payload", ("call", "u32::checked_shr", (hv, F_(hdr, "nshift"))), "Some")
            rep.require(("false", bit(hv)) in fs, "linkage", "bloom:bit1", w, "first bloom bit = hash % W", "the successful path does not test bit (hash %% W) of the bloom word")
            rep.require(("false", bit(h2)) in fs, "linkage", "bloom:bit2", w, "second bloom bit = (hash >> nshift) % W on the same word",
                        "the successful path does not test bit ((hash >> nshift) %% W) of the same bloom word")
            bucket = ("payload", ("call", "parse::ParsingTable::get", (F_(me, "buckets"), ("Rem", hv, nb))), "Ok")
            so = F_(hdr, "table_start_idx")
            rep.require(("false", ("Lt", bucket, so)) in fs, "linkage", "chain:start-guard", w, "bucket value below symoffset means absent",
                        "the successful path does not require buckets[hash %% nbucket] >= symoffset")
            # loop range and per-entry tests
            rng = None
            for c in an.calls():
                if c.declared_norm == "iter::IntoIterator::into_iter":
                    a0 = norm(c.arg_values()[0])
                    if a0[0] == "agg" and a0[1] == "ops::Range":
                        rng = a0
            nchain = ("Div", ("len", F_(F_(me, "chains"), "data")), ("call", "parse::ParseAt::size_for", (F_(F_(me, "chains"), "class"),)))
            rep.require(rng is not None and rng[3] == (("-", bucket, so), nchain), "linkage", "chain:range", w, "walk chain entries (bucket - symoffset) .. nchain",
                        "the chain walk covers %s" % (show(rng)[:200] if rng else None))
            idxs = [f for f in fs if f[0] == "true" and f[1][0] == "Eq" and "BitOr" in repr(f[1])]
            okm = False
            for f in idxs:
                a, b = f[1][1], f[1][2]
                for x, y in ((a, b), (b, a)):
                    if x == ("BitOr",) + tuple(sorted((hv, C(1)), key=repr)) and y[0] == "BitOr" and C(1) in y and any(
                            z != C(1) and z[0] == "payload" and z[1][0] == "call" and z[1][1] == "parse::ParsingTable::get" and z[1][2][0] == F_(me, "chains") for z in y[1:]):
                        okm = True
            rep.require(okm, "linkage", "chain:match", w, "hash | 1 == chain[i] | 1", "the successful path does not compare (hash | 1) with (chain entry | 1)")
        # returned index = chain index + symoffset
        from ..hashrules import some_outcomes
        for v, st in some_outcomes(an):
            n = norm(v)
            i = n[3][0] if n[0] == "agg" else None
            ok = i is not None and i[0] == "+" and F_(F_(P(1), "hdr"), "table_start_idx") in i[1:]
            rep.require(ok, "linkage", "chain:index", w, "symbol index = chain index + symoffset", "the returned index is %s" % (show(i)[:160] if i else None))
        # stop bit
        stops = [b for b, d in an.switches.items() if b in an.entry and "chains" in pp(d) and norm(d)[0] in ("Ne", "Eq") and "BitAnd" in repr(norm(d)) and C(1) in _flat(norm(d))]
        rep.require(bool(stops), "linkage", "chain:stop", w, "stop when chain[i] & 1", "the chain walk never tests the stop bit (chain & 1)")
        # ways out of the walk: the range is exhausted, the stop bit, a failed read, or the match
        def stop(d, val, sw):
            if d[0] == "discr" and d[1][0] == "fresh" and range_of_next(an, sw) is not None:   # the range itself is rule chain:range
                return val == "0" or "leaves while the range still has entries"
            if d[0] in ("Ne", "Eq") and len(d) == 3:
                band = [x for x in d[1:] if isinstance(x, tuple) and x[0] == "BitAnd" and C(1) in x[1:] and "chains" in repr(x)]
                cst = [x for x in d[1:] if x in (C(0), C(1))]
                if len(band) == 1 and len(cst) == 1:
                    # the branch value under which the stop bit is set: (x & 1) != 0, or (x & 1) == 1
                    set_when_true = (d[0] == "Ne") == (cst[0] == C(0))
                    return (val == "otherwise") == set_when_true or "leaves when the stop bit is clear"
            return None
        walk_exits(an, rep, "linkage", "find", w, stop, "chain range exhausted, or stop bit set")
    # constructor: 16-byte header, nbloom class-sized words, nbucket u32 buckets, chains = the rest
    fn = F.fn("hash::GnuHashTable::new")
    if fn is not None:
        an2 = analyze_fn(F, fn)
        data = P(3)
        H = prov.PARSE("hash::GnuHashHeader", P(1), P(2), C(0), data)
        got = {}
        for v, st in prov.ok_outcomes(an2):
            c32 = an2.truth(st.facts, T.bin("Eq", T.discr(T.param(2)), T.const("isize", 0), "isize"))
            cls = "ELF32" if ("var", T.param(2), "ELF32") in st.facts else "ELF64" if ("var", T.param(2), "ELF64") in st.facts else None
            got[cls] = norm(v)
        ok = set(got) == {"ELF32", "ELF64"}
        for cls, wsz in (("ELF32", 4), ("ELF64", 8)):
            b_end = prov.ADD(C(16), prov.MUL(C(wsz), F_(H, "nbloom")))
            k_end = prov.ADD(b_end, prov.MUL(C(4), F_(H, "nbucket")))
            tab = lambda d: ("agg", "parse::ParsingTable", "ParsingTable", (P(1), P(2), d, ("agg", "marker::PhantomData", "PhantomData", ())))
            want = ("agg", "hash::GnuHashTable", "GnuHashTable", (H, P(1), P(2), prov.SLICE(data, C(16), b_end), tab(prov.SLICE(data, b_end, k_end)), tab(("slice_from", data, k_end))))
            if got.get(cls) != want:
                ok = False
        rep.require(ok, "linkage", "new", wh(fn["span"]), "header 16 bytes, bloom nbloom x {4,8} bytes by class, nbucket x 4 bytes of buckets, chains = the rest",
                    "GnuHashTable::new lays the section out as %s" % {k: show(v)[:260] for k, v in got.items()})
    gnu_hash_form(F, rep)
    rep.trusted_base += ["C02 (header / word decoding), C09 (table get), C15 (get_raw), C16 (the walk is bounded)", "slice equality in core"]


def _flat(n):
    out = []
    if isinstance(n, tuple):
        out.append(n)
        for x in n:
            out.extend(_flat(x))
    return out
