"""C14 - note iteration yields exactly the notes laid out in the section/segment (slicing, padding idiom, typed dispatch)."""
from ..engine import analyze_fn, norm as nm, program, State
from ..terms import T, Term, pp
from .. import prov
from ..prov import norm, show, P, F_, C, ADD, SLICE, PARSE, AS

LEVEL = "other"
EXPLANATION = (
    "Decided, on every success path of Note::parse_at (acyclic path enumeration, provenance normal forms): the header is parsed with "
    "Class::ELF32 (three 32-bit words for both classes) and the note's own endian at the cursor; name = data[hdr_end .. hdr_end+namesz]; "
    "desc = data[pad(name_end) .. +descsz]; final cursor = pad(desc_end), where pad is one of the recognised align-up idioms on the iterator's "
    "align (x + (a - x % a) exactly when x % a > 0; next_multiple_of) and align == 0 is an error; the typed variants are produced exactly under "
    "name == \"GNU\\0\" with n_type NT_GNU_ABI_TAG / NT_GNU_BUILD_ID with the same desc bytes (ABI tag decoded with the note's endian), otherwise "
    "NoteAny{n_type, name, desc}; NoteIterator::next hands its own endian/class/align/offset/data to parse_at and stops at the first failure; "
    "name_str = trim_end_matches(from_utf8(name)?, NUL); both parsers pass the file's endianness/class and sh_addralign / p_align. "
    "NOT decided: the numeric correctness of the padding expression for every residue (the idiom is recognised, not evaluated).")
RULE_TEXT = "provenance templates over the 50 paths of Note::parse_at, NoteIterator::{new,next}, NoteAny::name_str and the four call sites of NoteIterator::new"


def wh(span):
    return "%s:%d:%d" % (span["file"], span["line"], span["col"])


def cval(F, name):
    c = F.consts.get("abi::" + name)
    return int(c["val"]) if c and "val" in c else None


def pad_variant(n, x, align):
    """is n == pad(x) in one of the recognised forms; returns 'padded' | 'aligned' | None"""
    if n == x:
        return "aligned"
    if n == ADD(x, ("-", align, ("Rem", x, align))):
        return "padded"
    if n[0] == "call" and n[1] in ("usize::next_multiple_of",) and n[2] == (x, align):
        return "nmo"
    if n[0] == "payload" and n[1][0] == "call" and n[1][1] == "usize::checked_next_multiple_of" and n[1][2] == (x, align):
        return "nmo"
    return None


def guard_rem_positive(an, st, x_norm, align_norm):
    """truth of (x % align > 0) on this path, located by normal form; `rem > 0`, `rem != 0` and `rem == 0` are the same test on an unsigned value"""
    want = ("Rem", x_norm, align_norm)
    for f in st.facts:
        if f[0] in ("true", "false") and f[1].op == "bin" and f[1].args[0] in ("Lt", "Eq", "Ne"):
            o, a, b = f[1].args[0], f[1].args[1], f[1].args[2]
            zero = lambda z: z.op == "const" and z.args[1] == 0
            if o == "Lt" and zero(a) and norm(b) == want:
                return f[0] == "true"
            if o in ("Eq", "Ne") and ((zero(a) and norm(b) == want) or (zero(b) and norm(a) == want)):
                return (f[0] == "true") == (o == "Ne")
        if f[0] in ("eq", "ne") and f[2] == 0 and isinstance(f[1], type(T.param(1))) and norm(f[1]) == want:
            return f[0] == "ne"
    return None


def run(ctx, rep):
    F = ctx.facts()
    prov.set_program(program(F))
    from ._common import iterators_only_next
    iterators_only_next(F, rep, "iterator", {"note::NoteIterator"}, 1)
    fn = F.fn("note::Note::parse_at")
    if fn is None:
        rep.bad("note", "Note::parse_at", "src/note.rs", "anchor missing: Note::parse_at")
        return
    an = analyze_fn(F, fn)
    w = wh(fn["span"])
    endian, cls, align, off, data = P(1), P(2), P(3), P(4), P(5)
    ELF32 = ("agg", "file::Class", "ELF32", ())
    H = PARSE("note::NoteHeader", endian, ELF32, off, data)
    name_start = ADD(off, C(12))
    name_end = ADD(name_start, F_(H, "n_namesz"))
    name = SLICE(data, name_start, name_end)
    GNU = F.consts["abi::ELF_NOTE_GNU"]["bytes"]
    ABI_TAG, BUILD_ID = cval(F, "NT_GNU_ABI_TAG"), cval(F, "NT_GNU_BUILD_ID")
    rep.require(bytes(GNU) == b"GNU\0" and (ABI_TAG, BUILD_ID) == (1, 3), "constants", "ELF_NOTE_GNU / NT_GNU_*", "src/abi.rs", "GNU\\0, 1, 3",
                "ELF_NOTE_GNU=%r NT_GNU_ABI_TAG=%s NT_GNU_BUILD_ID=%s" % (bytes(GNU), ABI_TAG, BUILD_ID))
    paths = an.paths()
    if paths is None:
        rep.bad("note", "Note::parse_at", w, "UNRECOGNISED: Note::parse_at is not loop-free / has too many paths")
        return
    # completeness: a record is refused only because it does not fit / cannot be decoded (header or typed content unreadable, a size that
    # does not convert or overflows, name / descriptor range outside the data) or the alignment is 0 - never on a further condition
    def fmt_cause(c):
        k = c[0]
        if k in ("conv", "overflow", "parse", "slice", "read"):
            return True
        if k == "explicit":
            return c[1] == "UnexpectedAlignment"
        if k == "via":
            return all(fmt_cause(x) for x in c[2])
        return False
    stray = []
    n_causes = 0
    for c, t_, st_ in prov.failure_causes(an):
        n_causes += 1
        if not fmt_cause(c):
            stray.append("%s %s" % (c[0], [show(x)[:80] if isinstance(x, tuple) else x for x in c[1:3]]))
    rep.require(not stray, "note", "refusals", w, "%d error outcomes: unreadable header / typed content, size conversion or overflow, range outside the data, align == 0" % n_causes,
                "Note::parse_at refuses a record for a reason the note format does not give (%s): a whole record ends the iteration early" % "; ".join(stray)[:300])
    p4lv = (("M", T.param(4)), ())
    nm_term = None
    n_ok = 0
    kinds = set()
    align_err = False
    for t, st, calls in paths:
        if t.op == "agg" and t.args[3] == "Err":
            if "UnexpectedAlignment" in pp(t):
                z = an.truth(st.facts, T.bin("Eq", T.param(3), T.const("usize", 0), "usize"))
                rep.require(z is True, "note", "align-zero", w, "UnexpectedAlignment exactly for align == 0", "UnexpectedAlignment returned under a different condition")
                align_err = True
            continue
        if not (t.op == "agg" and t.args[3] == "Ok"):
            rep.bad("note", "outcome", w, "UNRECOGNISED outcome %s" % pp(t)[:160])
            continue
        n_ok += 1
        zero = an.truth(st.facts, T.bin("Eq", T.param(3), T.const("usize", 0), "usize"))
        v = norm(t.args[4][0])
        variant = v[2] if v[0] == "agg" else None
        # locate desc / name in the value
        if variant == "Unknown":
            any_ = v[3][0]
            ntype, gname, desc = any_[3]
        elif variant == "GnuBuildId":
            desc = v[3][0][3][0]
            gname, ntype = None, None
        elif variant == "GnuAbiTag":
            pr = v[3][0]
            desc = pr[5] if pr[0] == "parse" else None
            gname, ntype = None, None
        else:
            rep.bad("note", "value", w, "UNRECOGNISED note value %s" % show(v)[:200])
            continue
        msgs = []
        if zero is not False:
            msgs.append("a note is produced although align may be 0")
        if desc is None or desc[0] != "slice" or desc[1] != data:
            msgs.append("descriptor is not a sub-slice of the note data: %s" % show(desc)[:160])
        else:
            ds, de = desc[2], desc[3]
            pv1 = pad_variant(ds, name_end, align)
            if pv1 is None:
                msgs.append("descriptor starts at %s, expected pad(name_end = %s)" % (show(ds)[:160], show(name_end)))
            elif pv1 in ("padded", "aligned"):
                g = guard_rem_positive(an, st, name_end, align)
                if g is not (pv1 == "padded"):
                    msgs.append("descriptor start is %s but name_end %% align > 0 is %s on this path" % (pv1, g))
            if de != ADD(ds, F_(H, "n_descsz")):
                msgs.append("descriptor end is %s, expected start + n_descsz" % show(de)[:160])
            cur = norm(an.read(st, p4lv))
            pv2 = pad_variant(cur, de, align)
            if pv2 is None:
                msgs.append("final cursor %s is not pad(desc_end)" % show(cur)[:200])
            elif pv2 in ("padded", "aligned"):
                g = guard_rem_positive(an, st, de, align)
                if g is not (pv2 == "padded"):
                    msgs.append("final cursor is %s but desc_end %% align > 0 is %s on this path" % (pv2, g))
        if variant == "Unknown":
            if gname != name:
                msgs.append("name is %s, expected %s" % (show(gname)[:160], show(name)))
            if ntype != F_(H, "n_type"):
                msgs.append("n_type is %s" % show(ntype))
        # typed dispatch guards
        name_t = _name_term(an, calls, st, name)
        is_gnu = _name_is(an, st, name_t, GNU, name)
        nty = _ntype_term(an, calls)
        if variant in ("GnuBuildId", "GnuAbiTag"):
            wantv = BUILD_ID if variant == "GnuBuildId" else ABI_TAG
            if is_gnu is not True:
                msgs.append("typed variant %s produced without the name being proven equal to \"GNU\\0\"" % variant)
            nty_ok = nty is not None and ("eq", nty, wantv) in st.facts
            if not nty_ok:
                # the header may have been parsed by a private helper: find the test by the provenance of the tested value
                nty_ok = any(f[0] == "eq" and f[2] == wantv and isinstance(f[1], Term) and norm(f[1]) == F_(H, "n_type") for f in st.facts)
            if not nty_ok:
                msgs.append("typed variant %s produced without n_type == %d" % (variant, wantv))
            if variant == "GnuAbiTag":
                pr = v[3][0]
                if not (pr[0] == "parse" and pr[1] == "note::NoteGnuAbiTag" and pr[2] == endian and pr[4] == C(0)):
                    msgs.append("ABI tag decoded as %s (expected the note's own endian at offset 0 of the descriptor)" % show(pr)[:200])
        else:
            if is_gnu is True and nty is not None and (("eq", nty, ABI_TAG) in st.facts or ("eq", nty, BUILD_ID) in st.facts):
                msgs.append("a GNU ABI-tag / build-id note is returned as Unknown")
        kinds.add(variant)
        rep.require(not msgs, "note", "parse_at:%s" % variant, w, "name/desc slices, padding idiom and typed dispatch as specified", "Note::parse_at (%s): %s" % (variant, "; ".join(msgs)))
    rep.require(align_err, "note", "align-zero:present", w, "align == 0 is rejected", "Note::parse_at has no UnexpectedAlignment outcome for align == 0")
    rep.require(kinds == {"Unknown", "GnuBuildId", "GnuAbiTag"}, "note", "variants", w, "all three variants produced", "variants produced: %s" % sorted(kinds))
    rep.floor("note", "success paths of Note::parse_at", n_ok, 3)   # one per variant; the padding may or may not branch
    # header parse call
    hc = [c for c in an.calls() if c.callee_qual == "<note::NoteHeader as parse::ParseAt>::parse_at"]
    good = len(hc) == 1 and hc[0].args[0] is T.param(1) and norm(hc[0].args[1]) == ELF32 and hc[0].arg_lvs[2] == p4lv and hc[0].args[3] is T.param(5)
    if not hc:
        # parsed inside a private helper: the header every success path depends on is the parse, with the note's endian and
        # Class::ELF32, of the data at the incoming cursor (that is what the normal form H says)
        good = n_ok > 0 and all(any(isinstance(y, Term) and any(norm(z) == H for z in y.subterms() if z.op == "payload")
                                    for f in st_.facts for y in f[1:])
                                for t_, st_, _ in paths if t_.op == "agg" and t_.args[3] == "Ok")
    rep.require(good, "note", "header-class", w, "header parsed with Class::ELF32, the note's endian, at the cursor",
                "note header parse call: %s" % [pp(a)[:60] for c in hc for a in c.args])

    # ---- NoteIterator
    it = F.adts["note::NoteIterator"]
    fi = {fd["name"]: ("f", i, fd["name"]) for i, fd in enumerate(it["variants"][0]["fields"])}
    fn2 = F.fn("<note::NoteIterator as std::iter::Iterator>::next")
    if fn2 is not None:
        an2 = analyze_fn(F, fn2)
        self_ = T.deref(T.param(1))
        f = lambda n_: T.proj(self_, fi[n_])
        R = T.call("note::Note::parse_at", ("E",), [f("endian"), f("class"), f("align"), T.refval(f("offset")), f("data")])
        okp = 0
        for t, st, calls in an2.paths() or []:
            if t.op == "agg" and t.args[3] == "None" and ("var", R, "Err") in st.facts:
                continue    # parse_at failed: `.ok()` (or the equivalent match) ends the iteration
            if t.op == "agg" and t.args[3] == "None":
                e = an2.truth(st.facts, T.bin("Eq", T.length(f("data")), T.const("usize", 0), "usize"))
                if e is not True:
                    # ... or for a cursor at / past the end of the data: the header read at the cursor fails there without moving it
                    # (C04), so the parse would end the iteration the same way
                    from ..prover import Prover as _Pv
                    ln_, off_ = T.length(f("data")), f("offset")
                    at_end = _Pv(an2).le(ln_, off_, st.facts)
                    for g in st.facts:
                        if not at_end and g[0] in ("true", "eq") and isinstance(g[1], Term):
                            x = g[1].args[1] if (g[0] == "true" and g[1].op == "bin" and g[1].args[0] == "Eq" and g[1].args[2].op == "const" and g[1].args[2].args[1] == 0) else \
                                (g[1] if (g[0] == "eq" and g[2] == 0) else None)
                            if x is not None and x.op == "call" and x.args[0] == "usize::saturating_sub" and x.args[2][0] is ln_ and x.args[2][1] is off_:
                                at_end = True
                    e = True if at_end else e
                rep.require(e is True, "iterator", "next:none", wh(fn2["span"]), "early None only for empty data / a cursor at the end", "NoteIterator::next returns None early under another condition")
            elif t.op == "agg" and t.args[3] == "Some" and t.args[4][0] is T.payload(R, "Ok") and ("var", R, "Ok") in st.facts:
                okp += 1
            else:
                rep.bad("iterator", "next:outcome", wh(fn2["span"]), "NoteIterator::next is not Note::parse_at(self.endian, self.class, self.align, &mut self.offset, self.data).ok(): %s" % pp(t)[:200])
        rep.require(okp == 1, "iterator", "next", wh(fn2["span"]), "next = parse_at(own fields).ok(): the first failure ends iteration", "%d parsing paths" % okp)
    fn3 = F.fn("note::NoteIterator::new")
    if fn3 is not None:
        rt = analyze_fn(F, fn3).ret_term()
        want = T.agg("adt", "note::NoteIterator", 0, "NoteIterator", [T.param(1), T.param(2), T.param(3), T.param(4), T.const("usize", 0)])
        rep.require(rt is want, "iterator", "new", wh(fn3["span"]), "starts at offset 0 with the given endian/class/align/data", "NoteIterator::new builds %s" % pp(rt))
    # ---- name_str
    fn4 = F.fn("note::NoteAny::name_str")
    if fn4 is not None:
        an4 = analyze_fn(F, fn4)
        nmf = T.proj(T.deref(T.param(1)), ("f", 1, "name"))
        utf = T.call("str::from_utf8", (), [nmf])
        oks = [t for t, st, c in an4.paths() or [] if t.op == "agg" and t.args[3] == "Ok"]
        good = len(oks) == 1 and oks[0].args[4][0].op == "call" and oks[0].args[4][0].args[0] == "str::trim_end_matches" \
            and oks[0].args[4][0].args[2][0] is T.payload(utf, "Ok") and oks[0].args[4][0].args[2][1] is T.const("char", 0)
        rep.require(good, "name-str", "NoteAny::name_str", wh(fn4["span"]), "trim_end_matches(from_utf8(name)?, '\\0')", "name_str returns %s" % [pp(t)[:200] for t in oks])
    # ---- call sites of NoteIterator::new in both parsers
    want_align = {"section_data_as_notes": "sh_addralign", "segment_data_as_notes": "p_align"}
    n_sites = 0
    for fnx in F.all_fns():
        short = fnx["qual"].split("::")[-1]
        if short not in want_align or fnx["module"] not in ("elf_bytes", "elf_stream"):
            continue
        anx = analyze_fn(F, fnx)
        for c in anx.calls():
            if c.callee_qual != "note::NoteIterator::new":
                continue
            n_sites += 1
            a = [norm(x) for x in c.arg_values()]
            ehdr = F_(P(1), "ehdr")
            good = a[0] == F_(ehdr, "endianness") and a[1] == F_(ehdr, "class") and a[2] == AS("usize", F_(P(2), want_align[short]))
            rep.require(good, "wiring", fnx["qual"], c.where(), "NoteIterator::new(file endianness, file class, %s as usize, ..)" % want_align[short],
                        "%s constructs the note iterator with (%s, %s, %s)" % (fnx["qual"], show(a[0]), show(a[1]), show(a[2])))
    rep.floor("wiring", "NoteIterator::new call sites", n_sites, 4 if "std" in F["config"]["features"] else 2)
    from ._common import premise
    premise(ctx, rep, "C02", "NoteHeader / NoteGnuAbiTag decode per the note format", rules={"decode", "decode-reads", "decode-size", "decode-errors", "derived", "premise"}, where="src/note.rs")
    rep.trusted_base += ["C02: NoteHeader / NoteGnuAbiTag decoding; C03 for the section/segment buffer handed to the iterator",
                        "core: slice pattern matching against a constant, str::from_utf8, trim_end_matches"]


def _name_term(an, calls, st=None, name_norm=None):
    """the term of the name slice on this path: the value whose length the path tests and whose provenance is the name range
    (so it is found whether the slicing is done in parse_at itself or in a helper); else the payload of the first get on the data parameter"""
    if st is not None and name_norm is not None:
        for f in sorted(st.facts, key=repr):
            if f[0] == "eq" and isinstance(f[1], type(T.param(1))) and f[1].op == "len" and norm(f[1].args[0]) == name_norm:
                return f[1].args[0]
            # (the length of a successful range view folds to end - start: the slice is then found through a byte test on it)
            if f[0] == "eq" and isinstance(f[1], type(T.param(1))) and f[1].op == "proj" and f[1].args[1][0] in ("cidx", "idx") \
                    and f[1].args[0].op == "deref" and norm(f[1].args[0].args[0]) == name_norm:
                return f[1].args[0].args[0]
    for c in calls:
        if c.declared_norm == "[T]::get" or c.callee_qual.endswith("ReadBytesExt<'data>>::get_bytes"):
            if c.args[0] is T.param(5):
                r = c.result
                v = T.payload(r, "Ok")
                if v.op == "payload" and v.args[1] == "Ok":
                    v = T.payload(r, "Some")
                return v
    return None


def _name_is(an, st, name_t, const_bytes, name_norm=None):
    """True iff the path facts pin len(name) and every byte to the constant (a slice pattern), or the whole-slice comparison
    `name == b"GNU\\0"` holds on the path"""
    def strip(x):
        while x.op in ("deref", "refval"):
            x = x.args[0]
        return x
    for f in st.facts:
        if f[0] in ("true", "false") and f[1].op == "bin" and f[1].args[0] in ("Eq", "Ne"):
            a_, b_ = strip(f[1].args[1]), strip(f[1].args[2])
            for x_, k_ in ((a_, b_), (b_, a_)):
                same = (name_t is not None and x_ is strip(name_t)) or (name_norm is not None and norm(x_) == name_norm)
                if same and k_.op == "bytes" and bytes(k_.args[0]) == bytes(const_bytes):
                    return True if (f[0] == "true") == (f[1].args[0] == "Eq") else None
    if name_t is None:
        return None
    if ("eq", T.length(name_t), len(const_bytes)) not in st.facts:
        return None
    for i, b in enumerate(const_bytes):
        el = T.proj(T.deref(name_t), ("cidx", i, False))
        el2 = T.proj(T.deref(name_t), ("idx", T.const("usize", i)))
        if ("eq", el, b) not in st.facts and ("eq", el2, b) not in st.facts:
            return None
    return True


def _ntype_term(an, calls):
    for c in calls:
        if c.callee_qual == "<note::NoteHeader as parse::ParseAt>::parse_at":
            h = T.payload(c.result, "Ok")
            return T.proj(h, ("f", 2, "n_type"))
    return None
