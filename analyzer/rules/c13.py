"""C13 - GNU symbol-version queries resolve to the right requirement/definition (linkage provenance)."""
import re
from ..engine import analyze_fn, norm as nm, program, State
from ..terms import T, Term, pp
from .. import prov
from ..prov import norm, show, P, F_, C, ADD, SLICE, PARSE

LEVEL = "other"
EXPLANATION = (
    "Decided (linkage provenance, necessary conditions): get_requirement returns {file: strs.get(vn.vn_file), name: strs.get(vna.vna_name), "
    "hash: vna.vna_hash, flags: vna.vna_flags, hidden: bit 15 of v} exactly under vna.vna_other == (v & 0x7fff), where v = version_ids.get(sym_idx)?, "
    "vna comes from the aux iterator that was yielded together with that vn, and strs is the string table paired with the verneed iterator; "
    "get_definition analogously (vd.vd_ndx == v & 0x7fff; names = that record's aux iterator + the verdef string table); the four record iterators "
    "yield parse(data @ offset), start the aux list at record start + *_aux with *_cnt entries and advance by record start + *_next; both parsers wire "
    "sh_info as count, offset 0, the string table of shdrs[sh_link], and pair SHT_GNU_VERSYM/VERNEED/VERDEF sections with the index table / need / def "
    "iterators. A record is only returned after version_ids.get(sym_idx) succeeded, so an index beyond the versym table never yields one. "
    "NOT decided: correctness of the resolution over arbitrary record graphs as a whole (behavioural).")
RULE_TEXT = "provenance normal forms of the Some outcomes of the two queries, of the items/advances of the four iterators, and of the constructor call sites in both parsers"


def wh(span):
    return "%s:%d:%d" % (span["file"], span["line"], span["col"])


def cval(F, name):
    c = F.consts.get("abi::" + name)
    return int(c["val"]) if c and "val" in c else None


def some_outcomes(an):
    out = []
    for t, st in an.ret_leaves() or []:
        if t.op == "agg" and t.args[3] == "Ok" and t.args[4][0].op == "agg" and t.args[4][0].args[3] == "Some":
            out.append((t.args[4][0].args[4][0], st))
    return out


def item_of(an, n, iter_ty):
    """n must be  <iter_ty as Iterator>::next(S)!Some[.k] ; returns (S normal form, k or None)"""
    k = None
    if n[0] == "fld" and n[2] in (0, 1):
        k = n[2]
        n = n[1]
    if n[0] == "payload" and n[2] == "Some" and n[1][0] == "call" and n[1][1].startswith("<%s as" % iter_ty) and n[1][1].endswith("::next"):
        return n[1][2][0], k
    if n[0] == "payload" and n[2] == "Some" and n[1][0] == "call" and n[1][1] == "iter::find":
        return n[1][2][0], k       # the first item of the iterator that satisfies the search predicate (checked by the caller)
    return None, None


def check_query(F, rep, q, kind):
    fn = F.fn(q)
    if fn is None:
        rep.bad("query", q, "src/gnu_symver.rs", "anchor missing: %s" % q)
        return
    an = analyze_fn(F, fn)
    w = wh(fn["span"])
    me = P(1)
    v = ("payload", ("call", "parse::ParsingTable::get", (F_(me, "version_ids"), P(2))), "Ok")
    v0 = F_(v, "0")
    idx = ("BitAnd",) + tuple(sorted((v0, C(0x7fff)), key=repr))
    hidden = ("Ne",) + tuple(sorted((("BitAnd",) + tuple(sorted((v0, C(0x8000)), key=repr)), C(0)), key=repr))
    outs = some_outcomes(an)
    rep.require(len(outs) >= 1, "query", q + ":some", w, "has a record-yielding outcome", "%s never yields a record" % q)
    getv = T.call("parse::ParsingTable::get", ("E", "gnu_symver::VersionIndex"), [T.refval(T.proj(T.deref(T.param(1)), ("f", 0, "version_ids"))), T.param(2)])
    # completeness: `Ok(None)` only because the table is absent or because the search ran out of records - an early `return Ok(None)`
    # under any other condition (e.g. "unversioned" indices 0 / 1) hides records that the section does contain
    tab_field = F_(me, "verneeds" if kind == "need" else "verdefs")
    n_none = 0
    for t_, st_ in an.ret_leaves() or []:
        if not (t_.op == "agg" and t_.args[3] == "Ok" and t_.args[4][0].op == "agg" and t_.args[4][0].args[3] == "None"):
            continue
        n_none += 1
        why = None
        for f in st_.facts:
            if f[0] == "var" and f[2] == "None" and isinstance(f[1], Term):
                x = f[1]
                nx = norm(x)
                if nx == tab_field or (nx[0] == "call" and nx[1] == "option::Option::as_ref" and nx[2] == (tab_field,)):
                    why = "table absent"
                elif x.op == "call" and (x.args[0].endswith("::next") or x.args[0] in ("iter::find", "iter::find_map", "iter::Iterator::find", "iter::Iterator::find_map")):
                    why = "search exhausted"
        rep.require(why is not None, "query", q + ":none#%d" % n_none, w, "Ok(None) only when the table is absent or the search is exhausted",
                    "%s returns Ok(None) on a path that is neither `table absent` nor `search exhausted` (guards: %s): records the section contains are not reported"
                    % (q, sorted(pp(f[1])[:80] for f in st_.facts if f[0] in ("true", "false") and "phi" not in pp(f[1])[:80])[:4]))
    rep.require(n_none >= 1, "query", q + ":none", w, "has an Ok(None) outcome", "%s never returns Ok(None)" % q)
    for val, st in outs:
        n = norm(val)
        msgs = []
        if not (n[0] == "agg"):
            rep.bad("query", q + ":value", w, "UNRECOGNISED record value %s" % show(n)[:200])
            continue
        adt = F.adts[n[1]]
        f = dict(zip([fd["name"] for fd in adt["variants"][0]["fields"]], n[3]))
        if kind == "need":
            strs = F_(("payload", F_(me, "verneeds"), "Some"), 1)
            nested = need_record_nested(F, an, val, f, strs, idx, me)
            if nested is not None:
                msgs += nested
                if f.get("hidden") != hidden:
                    msgs.append("hidden is %s, expected bit 15 of versym[sym_idx]" % show(f.get("hidden"))[:160])
                if ("var", getv, "Ok") not in st.facts and not any(fa[0] == "var" and fa[2] == "Ok" and norm(fa[1]) == v[1] for fa in st.facts):
                    msgs.append("a record is returned without version_ids.get(sym_idx) having succeeded")
                rep.require(not msgs, "query", q + ":record", w, "fields, pairing and index guard as specified (nested search form)", "%s: %s" % (q, "; ".join(msgs)))
                continue
            # name / hash / flags come from one aux record
            vna = None
            nm_ = f.get("name")
            if nm_ and nm_[0] == "payload" and nm_[1][0] == "call" and nm_[1][1] == "string_table::StringTable::get" and nm_[1][2][0] == strs \
                    and nm_[1][2][1][0] == "fld" and nm_[1][2][1][2] == "vna_name":
                vna = nm_[1][2][1][1]
            else:
                msgs.append("name is %s, expected verneed_strs.get(vna.vna_name)" % show(nm_)[:160])
            fl = f.get("file")
            vn = None
            if fl and fl[0] == "payload" and fl[1][0] == "call" and fl[1][1] == "string_table::StringTable::get" and fl[1][2][0] == strs \
                    and fl[1][2][1][0] == "fld" and fl[1][2][1][2] == "vn_file":
                vn = fl[1][2][1][1]
            else:
                msgs.append("file is %s, expected verneed_strs.get(vn.vn_file)" % show(fl)[:160])
            if vna is not None:
                if f.get("hash") != F_(vna, "vna_hash"):
                    msgs.append("hash is %s, not that record's vna_hash" % show(f.get("hash"))[:120])
                if f.get("flags") != F_(vna, "vna_flags"):
                    msgs.append("flags is %s, not that record's vna_flags" % show(f.get("flags"))[:120])
                S, k = item_of(an, vna, "gnu_symver::VerNeedAuxIterator")
                if S is None:
                    msgs.append("the aux record %s is not an item of a VerNeedAuxIterator" % show(vna)[:120])
                # guard: vna_other == index(v)
                g = _guard_eq(an, st, F_(vna, "vna_other"), idx)
                if g is not True and vna[0] == "payload" and vna[1][0] == "call" and vna[1][1] == "iter::find":
                    # `vna_iter.find(|vna| vna.vna_other == wanted)`: the guard is the search predicate
                    from .c20 import search_predicate
                    for x in val.subterms():
                        if x.op == "call" and x.args[0] == "iter::find" and len(x.args[2]) == 2 and norm(T.payload(x, "Some")) == vna:
                            pred = search_predicate(F, an, x.args[2][1])
                            want_p = ("Eq",) + tuple(sorted((F_(("ITEM",), "vna_other"), idx), key=repr))
                            if pred == want_p:
                                g = True
                if g is not True:
                    msgs.append("the record is returned without vna_other == (versym & 0x7fff) being established (guard=%s)" % g)
            if vn is not None and vna is not None:
                if not _paired(an, vn, vna, "gnu_symver::VerNeedIterator"):
                    msgs.append("the aux record is not drawn from the aux iterator yielded together with the VerNeed whose vn_file is used")
        else:
            item = None
            h = f.get("hash")
            if h and h[0] == "fld" and h[2] == "vd_hash":
                item = h[1]
            else:
                msgs.append("hash is %s, expected vd.vd_hash" % show(h)[:120])
            if item is not None:
                if f.get("flags") != F_(item, "vd_flags"):
                    msgs.append("flags is %s, not that record's vd_flags" % show(f.get("flags"))[:120])
                S, k = item_of(an, item, "gnu_symver::VerDefIterator")
                if S is None or k != 0:
                    msgs.append("the record %s is not the VerDef of a VerDefIterator item" % show(item)[:120])
                names = f.get("names")
                okn = names and names[0] == "agg" and "SymbolNamesIterator" in names[1] and names[3][0] == ("fld", item[1], 1) \
                    and "verdefs" in show(names[3][1])
                if not okn:
                    msgs.append("names is %s, expected SymbolNamesIterator{vda_iter: that item's aux iterator, strtab: the verdef string table}" % show(names)[:200])
                g = _guard_eq(an, st, F_(item, "vd_ndx"), idx)
                if g is not True and item[0] == "fld" and item[1][0] == "payload" and item[1][1][0] == "call" and item[1][1][1] == "iter::find":
                    # `iter.find(|(vd, _)| vd.vd_ndx == wanted)`: the guard is the search predicate
                    from .c20 import search_predicate
                    for x in val.subterms():
                        if x.op == "call" and x.args[0] == "iter::find" and len(x.args[2]) == 2:
                            pred = search_predicate(F, an, x.args[2][1])
                            want_p = ("Eq",) + tuple(sorted((F_(F_(("ITEM",), 0), "vd_ndx"), idx), key=repr))
                            if pred == want_p and "verdefs" in show(norm(x.args[2][0])):
                                g = True
                if g is not True:
                    msgs.append("the record is returned without vd_ndx == (versym & 0x7fff) being established (guard=%s)" % g)
        if f.get("hidden") != hidden:
            msgs.append("hidden is %s, expected bit 15 of versym[sym_idx]" % show(f.get("hidden"))[:160])
        if ("var", getv, "Ok") not in st.facts and not any(fa[0] == "var" and fa[2] == "Ok" and norm(fa[1]) == v[1] for fa in st.facts):
            msgs.append("a record is returned without version_ids.get(sym_idx) having succeeded")
        rep.require(not msgs, "query", q + ":record", w, "fields, pairing and index guard as specified", "%s: %s" % (q, "; ".join(msgs)))


def _apply_closure(F, an, clo, args):
    """the value of a closure applied to symbolic arguments, its captures replaced by what they held; None if not expressible"""
    if not (clo.op == "agg" and clo.args[0] == "closure" and isinstance(clo.args[1], str)):
        return None
    cf = F.fn(clo.args[1])
    if cf is None:
        return None
    rt = analyze_fn(F, cf).ret_term()
    if rt is None or rt.op == "phi":
        rt = program(F).closed_tree(cf)
    if rt is None:
        return None
    env_ty = nm(cf["body"]["locals"][1]["ty"]) if len(cf["body"]["locals"]) > 1 else ""
    env = T.refval(clo) if env_ty.startswith("&") else clo
    try:
        return program(F).subst(an, State({}, frozenset()), rt, [env] + list(args))
    except KeyError:
        return None


def need_record_nested(F, an, val, f, strs, idx, me):
    """get_requirement written as one nested search:
         verneeds.find_map(|(vn, mut aux)| aux.find(|a| P(a)).map(|a| (g(vn), a)))           or
         verneeds.flat_map(|(vn, aux)| aux.map(move |a| (g(vn), a))).find(|(_, a)| P(a))
    Both yield the pair (g(vn), a) for the first outer item, in section order, whose aux iterator holds an `a` with P(a), and the first
    such `a` - what the two nested loops with an early return compute.  Returns None when the record is not built that way, else the
    list of deviations from: P(a) is a.vna_other == versym & 0x7fff; file = strs[vn.vn_file]; name / hash / flags from that same a."""
    ITEM, INNER = Term("ITEM"), Term("INNER")
    found = None
    for x in val.subterms():
        if x.op != "call" or len(x.args[2]) != 2:
            continue
        if x.args[0] == "iter::find_map":
            body = _apply_closure(F, an, x.args[2][1], [ITEM])
            if body is None or body.op != "mterm":
                continue
            S = body.args[0]
            arms = dict(body.args[1])
            if not (S.op == "call" and S.args[0] == "iter::find" and set(arms) == {"Some", "None"} and arms["None"].op == "agg" and arms["None"].args[3] == "None"):
                continue
            sm = arms["Some"]
            if not (sm.op == "agg" and sm.args[3] == "Some" and sm.args[4][0].op == "agg" and sm.args[4][0].args[0] == "tuple" and len(sm.args[4][0].args[4]) == 2):
                continue
            p0, p1 = sm.args[4][0].args[4]
            if p1 is not T.payload(S, "Some"):
                continue
            pred = _apply_closure(F, an, S.args[2][1], [T.refval(INNER)])
            found = (x, norm(x.args[2][0]), norm(S.args[2][0]), norm(p0), norm(pred) if pred is not None else None)
        elif x.args[0] == "iter::find" and x.args[2][0].op == "call" and x.args[2][0].args[0].endswith("Iterator::flat_map") and len(x.args[2][0].args[2]) == 2:
            fm = x.args[2][0]
            body = _apply_closure(F, an, fm.args[2][1], [ITEM])
            if body is None or not (body.op == "call" and body.args[0].endswith("Iterator::map") and len(body.args[2]) == 2):
                continue
            pair = _apply_closure(F, an, body.args[2][1], [INNER])
            if pair is None or not (pair.op == "agg" and pair.args[0] == "tuple" and len(pair.args[4]) == 2 and pair.args[4][1] is INNER):
                continue
            pred = _apply_closure(F, an, x.args[2][1], [T.refval(pair)])
            found = (x, norm(fm.args[2][0]), norm(body.args[2][0]), norm(pair.args[4][0]), norm(pred) if pred is not None else None)
        if found:
            break
    if not found:
        return None
    x, outer, inner_src, p0, pred = found
    NS = norm(T.payload(x, "Some"))

    def re_(n):
        """a field expression of the found pair, rewritten over the virtual outer item and inner record"""
        if n == ("fld", NS, 0):
            return p0
        if n == ("fld", NS, 1):
            return ("INNER",)
        if isinstance(n, tuple):
            return tuple(re_(y) for y in n)
        return n
    msgs = []
    if outer != F_(("payload", F_(me, "verneeds"), "Some"), 0):
        msgs.append("the outer search runs over %s, expected the VerNeed iterator of the table" % show(outer)[:120])
    if inner_src != ("fld", ("ITEM",), 1):
        msgs.append("the inner search runs over %s, expected the aux iterator yielded together with the VerNeed" % show(inner_src)[:120])
    want_p = ("Eq",) + tuple(sorted((F_(("INNER",), "vna_other"), idx), key=repr))
    if pred != want_p:
        msgs.append("the search predicate is %s, expected vna_other == (versym & 0x7fff)" % (show(pred)[:160] if pred else None))
    def idx_of(t):
        if t and t[0] == "payload" and t[1][0] == "call" and t[1][1] == "string_table::StringTable::get" and t[1][2][0] == strs and t[2] == "Ok":
            return re_(t[1][2][1])
        return None
    if idx_of(f.get("file")) != F_(F_(("ITEM",), 0), "vn_file"):
        msgs.append("file is %s, expected verneed_strs.get(vn.vn_file) of the VerNeed whose aux record matched" % show(f.get("file"))[:160])
    if idx_of(f.get("name")) != F_(("INNER",), "vna_name"):
        msgs.append("name is %s, expected verneed_strs.get(vna.vna_name) of the matching aux record" % show(f.get("name"))[:160])
    if re_(f.get("hash")) != F_(("INNER",), "vna_hash"):
        msgs.append("hash is %s, not the matching record's vna_hash" % show(f.get("hash"))[:120])
    if re_(f.get("flags")) != F_(("INNER",), "vna_flags"):
        msgs.append("flags is %s, not the matching record's vna_flags" % show(f.get("flags"))[:120])
    return msgs


def _guard_eq(an, st, a_norm, b_norm):
    for f in st.facts:
        if f[0] in ("true", "false") and f[1].op == "bin" and f[1].args[0] in ("Eq", "Ne"):
            x, y = norm(f[1].args[1]), norm(f[1].args[2])
            if {repr(x), repr(y)} == {repr(a_norm), repr(b_norm)}:
                eq = (f[1].args[0] == "Eq") == (f[0] == "true")
                return eq
    return None


def _paired(an, vn, vna, outer_ty):
    """vna = next(AUX)!Some where AUX's loop-entry value is item.1 of the outer iterator item whose .0 is vn"""
    S, _ = item_of(an, vna, "gnu_symver::VerNeedAuxIterator")
    if S is not None and S[0] == "fld" and S[2] == 1 and vn == ("fld", S[1], 0) and item_of(an, S, outer_ty)[0] is not None:
        return True      # both halves of the same item of the outer iterator, used directly
    if S is None or S[0] != "phi":
        return False
    # vn is a loop-carried copy of outer item .0 ; find phi terms
    outer_items = set()
    for ph, ops in an.phi_ops.items():
        for p, val in ops.items():
            n = norm(val)
            if n[0] == "fld" and n[2] in (0, 1):
                base, k = item_of(an, n, outer_ty)
                if base is not None:
                    outer_items.add((norm(ph), n[2], repr(n[1])))
    aux_src = {r for (phn, k, r) in outer_items if phn == S and k == 1}
    vn_src = {r for (phn, k, r) in outer_items if phn == vn and k == 0}
    return bool(aux_src) and bool(vn_src) and aux_src == vn_src


ITERS = {
    "gnu_symver::VerDefIterator": ("gnu_symver::VerDef", "vd_next", ("gnu_symver::VerDefAuxIterator", "vd_cnt", "vd_aux")),
    "gnu_symver::VerNeedIterator": ("gnu_symver::VerNeed", "vn_next", ("gnu_symver::VerNeedAuxIterator", "vn_cnt", "vn_aux")),
    "gnu_symver::VerDefAuxIterator": ("gnu_symver::VerDefAux", "vda_next", None),
    "gnu_symver::VerNeedAuxIterator": ("gnu_symver::VerNeedAux", "vna_next", None),
}


def norm_ty(ty):
    from ..engine import norm as _n
    return _n(ty)


def check_iter(F, rep, ity):
    rec, nextf, aux = ITERS[ity]
    q = "<%s as std::iter::Iterator>::next" % ity
    fn = F.fn(q)
    if fn is None:
        rep.bad("iterator", q, "src/gnu_symver.rs", "anchor missing: %s" % q)
        return
    an = analyze_fn(F, fn)
    w = wh(fn["span"])
    me = P(1)
    R = PARSE(rec, F_(me, "endian"), F_(me, "class"), F_(me, "offset"), F_(me, "data"))
    adt = F.adts[ity]
    oi = [i for i, fd in enumerate(adt["variants"][0]["fields"]) if fd["name"] == "offset"][0]
    off_lv = (("M", T.param(1)), (("f", oi, "offset"),))
    n_some = 0
    for t, st, calls in an.paths() or []:
        if not (t.op == "agg" and t.args[3] == "Some"):
            continue
        n_some += 1
        n = norm(t.args[4][0])
        msgs = []
        if aux is None:
            if n != R:
                msgs.append("item is %s, expected %s" % (show(n)[:160], show(R)))
        else:
            aty, cntf, auxf = aux
            ok = n[0] == "agg" and len(n[3]) == 2 and n[3][0] == R
            if not ok:
                msgs.append("item is %s, expected (parse(record), aux iterator)" % show(n)[:200])
            else:
                a = n[3][1]
                aadt = F.adts[aty]
                af = dict(zip([fd["name"] for fd in aadt["variants"][0]["fields"]], a[3])) if a[0] == "agg" else {}
                if af.get("count") != F_(R, cntf):
                    msgs.append("aux count is %s, expected %s" % (show(af.get("count"))[:100], cntf))
                start = af.get("offset")
                okstart = start in (ADD(F_(me, "offset"), F_(R, auxf)), ("call", "usize::saturating_add", (F_(me, "offset"), F_(R, auxf))),
                                    ("call", "usize::saturating_add", (F_(R, auxf), F_(me, "offset"))))
                if not okstart:
                    msgs.append("aux list starts at %s, expected record start + %s" % (show(start)[:160], auxf))
                if af.get("data") != F_(me, "data") or af.get("endian") != F_(me, "endian") or af.get("class") != F_(me, "class"):
                    msgs.append("aux iterator does not share the record iterator's data/endian/class")
        # advance
        cur = norm(an.read(st, off_lv))
        if cur not in (ADD(F_(me, "offset"), F_(R, nextf)), F_(me, "offset")):
            msgs.append("offset advances to %s, expected record start + %s" % (show(cur)[:160], nextf))
        # the declared count: one unit spent per record; given up altogether (set to 0) only when the next link cannot be followed - the
        # cursor would overflow, or the link is 0 (any other reason ends the iteration before records a forward layout may place later)
        ci_ = [i for i, fd in enumerate(adt["variants"][0]["fields"]) if fd["name"] == "count"]
        if ci_:
            clv = (("M", T.param(1)), (("f", ci_[0], "count"),))
            cinit = T.proj(T.deref(T.param(1)), ("f", ci_[0], "count"))
            cfin = an.simp(an.read(st, clv), st.facts)
            if cfin.op == "const" and cfin.args[1] == 0:
                overflow = any(f[0] == "var" and f[2] == "None" and isinstance(f[1], Term) and f[1].op == "call" and "::checked_add" in f[1].args[0] for f in st.facts)
                link0 = any(f[0] == "eq" and f[2] == 0 and isinstance(f[1], Term) and nextf in pp(f[1])[-40:] for f in st.facts) or \
                    any(f[0] == "true" and isinstance(f[1], Term) and f[1].op == "bin" and f[1].args[0] == "Eq" and nextf in pp(f[1]) and "0_u" in pp(f[1]) for f in st.facts)
                last = any(f[0] == "eq" and f[1] is cinit and f[2] == 1 for f in st.facts) or \
                    an.truth(st.facts, T.bin("Eq", cinit, T.const("u64", 1), "u64")) is True
                def same_cursor(f):
                    # `offset (+) next == offset`: the link is 0 told through the cursor not moving
                    if not (isinstance(f[1], Term) and f[1].op == "bin" and f[1].args[0] in ("Eq", "Ne") and (f[0] == "true") == (f[1].args[0] == "Eq")):
                        return False
                    for x, y in ((f[1].args[1], f[1].args[2]), (f[1].args[2], f[1].args[1])):
                        if x.op == "payload" and x.args[1] == "Some" and x.args[0].op == "call" and "::checked_add" in x.args[0].args[0] and y in x.args[0].args[2]:
                            return True
                    return False
                link0 = link0 or any(f[0] in ("true", "false") and same_cursor(f) for f in st.facts)
                if not link0:
                    # ... or through the new cursor not lying past the old one (`new_off > self.offset` is false)
                    from ..prover import Prover as _Pv
                    for f in st.facts:
                        if f[0] == "var" and f[2] == "Some" and isinstance(f[1], Term) and f[1].op == "call" and "::checked_add" in f[1].args[0]:
                            new_ = T.payload(f[1], "Some")
                            if any(_Pv(an).le(new_, a_, st.facts) for a_ in f[1].args[2]):
                                link0 = True
                if not (overflow or link0 or last):
                    msgs.append("the declared count is set to 0 although the next link (%s) is non-zero and the cursor did not overflow: later records are never reached" % nextf)
        rep.require(not msgs, "iterator", q, w, "item = parse(data @ offset), advance by %s%s" % (nextf, ", aux list at +%s with %s entries" % (aux[2], aux[1]) if aux else ""),
                    "%s: %s" % (q, "; ".join(msgs)))
    rep.require(n_some >= 1, "iterator", q + ":yields", w, "has yielding paths", "%s never yields" % q)
    # completeness: the iteration ends only because the declared count is used up, there are no bytes, or the record at the cursor
    # cannot be decoded - never on a further condition on a record that was decoded (later records would be lost to every query)
    ci = [i for i, fd in enumerate(adt["variants"][0]["fields"]) if fd["name"] == "count"]
    di = [i for i, fd in enumerate(adt["variants"][0]["fields"]) if fd["name"] == "data"]
    self_ = T.deref(T.param(1))
    n_none = 0
    stray = 0
    for t, st, calls in an.paths() or []:
        if not (t.op == "agg" and t.args[3] == "None"):
            continue
        n_none += 1
        why = None
        if any(f[0] == "var" and f[2] == "Err" and isinstance(f[1], Term) and f[1].op == "call" and f[1].args[0].endswith("::parse_at") for f in st.facts):
            why = "record not decodable"
        for c in calls:
            if why is None and c.callee_qual.endswith("::parse_at") and an.variant_known(an.simp(c.result, st.facts), "Err", st.facts):
                why = "record not decodable"
        if why is None and ci:
            cnt = T.proj(self_, ("f", ci[0], "count"))
            cty = norm_ty(adt["variants"][0]["fields"][ci[0]]["ty"])
            if an.truth(st.facts, T.bin("Eq", cnt, T.const(cty, 0), cty)) is True:
                why = "count used up"
        if why is None and di:
            dat = T.proj(self_, ("f", di[0], "data"))
            if an.truth(st.facts, T.bin("Eq", T.length(dat), T.const("usize", 0), "usize")) is True:
                why = "no bytes"
        if why is None:
            stray += 1
    rep.require(stray == 0 and n_none >= 1, "iterator", q + ":ends", w, "%d ways to end: count used up, no bytes, record at the cursor not decodable" % n_none,
                "%s ends the iteration on %d path(s) for another reason than a used-up count, empty data or an undecodable record: the records after that point are lost" % (q, stray))


WIRING = {"gnu_symver::VerNeedIterator::new": "SHT_GNU_VERNEED", "gnu_symver::VerDefIterator::new": "SHT_GNU_VERDEF", "parse::ParsingTable::new": "SHT_GNU_VERSYM"}


def check_wiring(F, rep, q):
    fn = F.fn(q)
    if fn is None:
        rep.bad("wiring", q, "-", "anchor missing: %s" % q)
        return
    an = analyze_fn(F, fn)
    w = wh(fn["span"])
    # which local receives Some(item) under sh_type == K
    by_const = {}
    arms = []      # (constant, the header whose sh_type is tested, block entered when sh_type == constant)
    for b, d in an.switches.items():
        if b not in an.entry:
            continue
        t = an.blocks[b]["term"]
        if d.op == "bin" and d.args[0] == "Eq" and d.args[2].op == "const" and d.args[1].op == "proj" and d.args[1].args[1][2] == "sh_type":
            # `if shdr.sh_type == K`
            true_succ = [tb for vv, tb in t["targets"] if int(vv) != 0] or [t["otherwise"]]
            tb = t["otherwise"] if not any(int(vv) != 0 for vv, _ in t["targets"]) else true_succ[0]
            arms.append((d.args[2].args[1], d.args[1].args[0], tb))
        elif d.op == "proj" and d.args[1][2] == "sh_type":
            # `match shdr.sh_type { K => .., }`
            for vv, tb in t["targets"]:
                arms.append((int(vv), d.args[0], tb))
    for K_, item, tb in arms:
        env = an.exit_env.get(tb, {})
        for (root, path), val in env.items():
            if root[0] == "L" and not path and val.op == "agg" and val.args[3] == "Some" and val.args[4] and \
                    (val.args[4][0] is item or val.args[4][0] is T.deref(item) or norm(val.args[4][0]) == norm(item)):
                before = an.entry[tb].env.get((root, path))
                if before is not val:
                    by_const.setdefault(K_, set()).add(root[1])
    n = 0
    for c in an.calls():
        kname = WIRING.get(c.callee_qual)
        if kname is None:
            continue
        a = [norm(x) for x in c.arg_values()]
        buf = a[-1]
        if c.callee_qual == "parse::ParsingTable::new" and "gnu_symver" not in " ".join(c.callee.get("generics") or []):
            continue
        n += 1
        K = cval(F, kname)
        L = by_const.get(K)
        msgs = []
        if not L:
            msgs.append("no Option local is set under sh_type == %s" % kname)
        else:
            if not any(("('L', %d)" % l) in repr(buf) for l in L):
                msgs.append("the buffer %s is not the data of the section found under sh_type == %s" % (show(buf)[:200], kname))
        ehdr = F_(P(1), "ehdr")
        if a[0] != F_(ehdr, "endianness") or a[1] != F_(ehdr, "class"):
            msgs.append("not constructed with the file's endianness/class")
        if c.callee_qual != "parse::ParsingTable::new":
            if not (a[2][0] == "fld" and a[2][2] == "sh_info") or (L and not any(("('L', %d)" % l) in repr(a[2]) for l in L)):
                msgs.append("count is %s, expected that section's sh_info" % show(a[2])[:120])
            if a[3] != C(0):
                msgs.append("starting offset is %s, expected 0" % show(a[3]))
        rep.require(not msgs, "wiring", "%s|%s" % (q, c.callee_qual), c.where(), "%s over the %s section: sh_info count, offset 0, file endianness/class" % (c.callee_qual.split("::")[-2], kname),
                    "%s: %s: %s" % (q, c.callee_qual, "; ".join(msgs)))
    # the value that is returned is judged in any case; the call-site view below adds the diagnosis at the construction sites when the
    # constructions are call sites of this body (they need not be: closures handed to map / transpose, helpers)
    judged = wiring_by_value(F, rep, q, an, by_const, w)
    # completeness of "no version table": the construction of the table is by-passed only because there are no section headers or no
    # SHT_GNU_VERSYM section was found (or a read failed) - not on a further condition on that section
    from ..hashrules import early_exits
    ctor = [c for c in an.calls() if c.callee_qual == "gnu_symver::SymbolVersionTable::new" and c.block in an.entry]
    KV = cval(F, "SHT_GNU_VERSYM")

    def no_versym(d, val):
        txt = repr(d)
        if d[0] in ("Eq", "Ne") and len(d) == 3:
            inner = [x for x in d[1:] if isinstance(x, tuple) and x and x[0] == "discr"]
            if len(inner) == 1 and any(isinstance(x, tuple) and x and x[0] == "c" for x in d[1:]):
                return no_versym(inner[0], val)          # is_some() / is_none() of that Option
        if d[0] == "call" and str(d[1]).endswith("::is_empty") and "shdrs" in txt and "sh_" not in txt.replace("shdrs", ""):
            return True
        if d[0] == "discr":
            if any(("('L', %d)" % l) in txt for l in by_const.get(KV, ())) or str(KV) in txt:
                return True          # the Option that receives the VERSYM header (loop form), or the result of a search for that type
            return "shdrs" in txt and "sh_" not in txt.replace("shdrs", "")
        return d[0] in ("Eq", "Ne", "Lt") and "shdrs" in txt and ("len" in txt or "is_empty" in txt) and "sh_" not in txt.replace("shdrs", "")
    if len(ctor) == 1:
        early_exits(an, rep, "wiring", q, w, no_versym, "no section headers, no SHT_GNU_VERSYM section", target=ctor[0].block,
                    subject="the construction of the version table", lost="symbol versions are reported absent for an object that has them")
    else:
        rep.bad("wiring", q + ":early", w, "UNRECOGNISED: %d calls of SymbolVersionTable::new (expected the one that builds the answer)" % len(ctor))
    if n != 3 and judged:
        return
    rep.require(n == 3, "wiring", q + ":constructors", w, "index table, need iterator and def iterator are constructed", "%d of the 3 constructors found" % n)
    # string tables come from shdrs[sh_link] of the need / def section
    st_calls = [c for c in an.calls() if c.callee_qual == "string_table::StringTable::new"]
    links = 0
    for c in st_calls:
        b = norm(c.arg_values()[0])
        if "sh_link" in repr(b):
            links += 1
    rep.require(links == 2, "wiring", q + ":strings", w, "both string tables are the data of shdrs[sh_link]", "%d string tables located through sh_link" % links)


def wiring_by_value(F, rep, q, an, by_const, w):
    """Every Some(SymbolVersionTable{version_ids, verneeds, verdefs}) the function returns is wired as specified:
    version_ids = u16 table over the bytes of the header found under sh_type == SHT_GNU_VERSYM; verneeds / verdefs = None, or
    (iterator(file endianness, class, count = H.sh_info, bytes of H, offset 0), StringTable(bytes of shdrs[H.sh_link])) with H the
    header found under SHT_GNU_VERNEED / SHT_GNU_VERDEF.  Returns True when it judged (reported) the wiring."""
    from ..prov import ok_outcomes
    me = P(1)
    ehdr = F_(me, "ehdr")
    KS = {k: cval(F, k) for k in ("SHT_GNU_VERSYM", "SHT_GNU_VERNEED", "SHT_GNU_VERDEF")}
    outs = []
    for v, st in ok_outcomes(an):
        n = norm(v)
        if n[0] == "agg" and n[2] == "Some" and n[3] and n[3][0][0] == "agg" and "SymbolVersionTable" in str(n[3][0][1]) and len(n[3][0][3]) == 3:
            outs.append((n[3][0][3], st))
    if not outs:
        return False

    def kind_of(H, st):
        """which section kind the header term H (normal form) was selected under"""
        ks = set()
        ph_ = H[1] if (H[0] == "payload" and H[1][0] == "phi") else (H[2][0] if (H[0] == "call" and H[1] == "option::Option::unwrap" and H[2][0][0] == "phi") else None)
        if ph_ is not None:
            mm = re.search(r"\('L', (\d+)\)", ph_[2])
            if mm:
                for kname, K in KS.items():
                    if int(mm.group(1)) in by_const.get(K, ()):
                        ks.add(kname)
        for f in st.facts:
            if f[0] == "eq" and isinstance(f[1], Term) and f[1].op == "proj" and f[1].args[1][2] == "sh_type" and norm(f[1].args[0]) == H:
                for kname, K in KS.items():
                    if f[2] == K:
                        ks.add(kname)
        return ks

    def bytes_of(b):
        """(start, end) normal forms of a file-byte buffer of either parser"""
        if b[0] == "slice" and b[1] == F_(me, "data"):
            return b[2], b[3]
        if b[0] == "file":
            return b[1], b[2]
        return None

    def section_of(b):
        r = bytes_of(b)
        if r and r[0][0] == "fld" and r[0][2] == "sh_offset" and r[1] == prov.ADD(r[0], F_(r[0][1], "sh_size")):
            return r[0][1]
        return None
    n_ok = 0
    for (ids, needs, defs), st in outs:
        msgs = []
        H = section_of(ids[3][2]) if ids[0] == "agg" and len(ids[3]) >= 3 else None
        if H is None or ids[3][0] != F_(ehdr, "endianness") or ids[3][1] != F_(ehdr, "class") or "SHT_GNU_VERSYM" not in kind_of(H, st):
            msgs.append("version_ids is %s, expected the u16 table over the bytes of the SHT_GNU_VERSYM section with the file's endianness/class" % show(ids)[:200])
        for val, kname, what in ((needs, "SHT_GNU_VERNEED", "verneeds"), (defs, "SHT_GNU_VERDEF", "verdefs")):
            if val == ("agg", "option::Option", "None", ()):
                continue
            okv = False
            if val[0] == "agg" and val[2] == "Some" and val[3][0][0] == "agg" and len(val[3][0][3]) == 2:
                it, strs = val[3][0][3]
                if it[0] == "agg" and len(it[3]) == 5 and strs[0] == "agg" and "StringTable" in str(strs[1]):
                    e_, c_, cnt, buf, off = it[3]
                    Hk = section_of(buf)
                    Hs = section_of(strs[3][0])
                    link_ok = Hs is not None and Hk is not None and (
                        Hs == ("payload", ("call", "parse::ParsingTable::get", (("payload", F_(me, "shdrs"), "Some"), F_(Hk, "sh_link"))), "Ok")
                        or Hs == ("payload", ("call", "[T]::get", (("call", "ops::Deref::deref", (F_(me, "shdrs"),)), F_(Hk, "sh_link"))), "Some"))
                    okv = (Hk is not None and kname in kind_of(Hk, st) and e_ == F_(ehdr, "endianness") and c_ == F_(ehdr, "class")
                           and cnt == F_(Hk, "sh_info") and off == C(0) and link_ok)
            if not okv:
                msgs.append("%s is %s, expected (iterator over the %s section: sh_info records from offset 0, file endianness/class; string table = bytes of shdrs[sh_link])"
                            % (what, show(val)[:260], kname))
        rep.require(not msgs, "wiring", "%s:value#%d" % (q, n_ok), w, "returned table wired as specified (judged on the returned value)", "%s: %s" % (q, "; ".join(msgs)))
        n_ok += 1
    shapes = {(x[1] != ("agg", "option::Option", "None", ()), x[2] != ("agg", "option::Option", "None", ())) for x, _ in outs}
    rep.require((True, True) in shapes, "wiring", q + ":constructors", w, "an outcome with both the need and the def iterator exists", "no outcome carries both record iterators: %s" % sorted(shapes))
    return True


def run(ctx, rep):
    F = ctx.facts()
    prov.set_program(program(F))
    rep.require((cval(F, "VER_NDX_VERSION"), cval(F, "VER_NDX_HIDDEN")) == (0x7fff, 0x8000), "constants", "VER_NDX_VERSION/HIDDEN", "src/abi.rs", "0x7fff / 0x8000",
                "VER_NDX_VERSION=%s VER_NDX_HIDDEN=%s" % (cval(F, "VER_NDX_VERSION"), cval(F, "VER_NDX_HIDDEN")))
    rep.require((cval(F, "SHT_GNU_VERSYM"), cval(F, "SHT_GNU_VERNEED"), cval(F, "SHT_GNU_VERDEF")) == (0x6fffffff, 0x6ffffffe, 0x6ffffffd), "constants", "SHT_GNU_VER*",
                "src/abi.rs", "gABI/GNU values", "SHT_GNU_VERSYM/VERNEED/VERDEF have unexpected values")
    check_query(F, rep, "gnu_symver::SymbolVersionTable::get_requirement", "need")
    check_query(F, rep, "gnu_symver::SymbolVersionTable::get_definition", "def")
    for ity in ITERS:
        check_iter(F, rep, ity)
    from ._common import iterators_only_next
    iterators_only_next(F, rep, "iterator", set(ITERS) | {"gnu_symver::SymbolNamesIterator"}, 5)
    check_wiring(F, rep, "elf_bytes::ElfBytes::symbol_version_table")
    if "std" in F["config"]["features"]:
        check_wiring(F, rep, "elf_stream::ElfStream::symbol_version_table")
    fn = F.fn("gnu_symver::SymbolVersionTable::new")
    if fn is not None:
        rt = analyze_fn(F, fn).ret_term()
        want = T.agg("adt", "gnu_symver::SymbolVersionTable", 0, "SymbolVersionTable", [T.param(1), T.param(2), T.param(3)])
        rep.require(rt is want, "wiring", "SymbolVersionTable::new", wh(fn["span"]), "stores its three parts unchanged", "SymbolVersionTable::new builds %s" % pp(rt))
    fn = F.fn("<gnu_symver::SymbolNamesIterator as std::iter::Iterator>::next")
    if fn is not None:
        an = analyze_fn(F, fn)
        ok = False
        for t, st, calls in an.paths() or []:
            if t.op == "agg" and t.args[3] == "Some":
                n = norm(t.args[4][0])
                ok = n[0] == "call" and n[1] == "string_table::StringTable::get" and n[2][0] == F_(P(1), "strtab") and n[2][1][0] == "fld" and n[2][1][2] == "vda_name"
        rep.require(ok, "iterator", "SymbolNamesIterator::next", wh(fn["span"]), "names = strtab.get(vda.vda_name) for each aux record", "SymbolNamesIterator::next does not look vda_name up in its string table")
    # cited so far, run from now on: the records and VersionIndex::{index, is_hidden} decode per the ABI (C02), the index table is coherent
    # (C09), names are read by the string-table rule (C15)
    from ._common import premise
    premise(ctx, rep, "C02", "version records and VersionIndex decode per the ABI", rules={"decode", "decode-reads", "decode-size", "decode-errors", "derived", "premise"}, where="src/gnu_symver.rs")
    premise(ctx, rep, "C09", "the version index table is coherent", rules={"table", "iterator", "entry-advance"}, where="src/parse.rs")
    premise(ctx, rep, "C15", "names are the strings at the recorded offsets", rules={"strtab"}, where="src/string_table.rs")
    rep.trusted_base += ["C02: decoding of the version records and of VersionIndex::{index,is_hidden}; C15: string lookup; C16: iterator termination"]
