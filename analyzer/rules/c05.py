"""C05 - header tables are located exactly as the ELF header (and shdr[0]) declare."""
from ..engine import analyze_fn, norm as nm, program, State
from ..terms import T, Term, pp
from .. import prov
from ..prov import norm, show, ok_outcomes, P, F_, C, ADD, MUL, SLICE, ENTSIZE, PARSE, AS

LEVEL = "proof"
RULE_TEXT = ("provenance normal forms (value origin with error plumbing stripped) of every success outcome of find_shdrs / find_phdrs / "
             "parse_section_headers / parse_program_headers / section_headers_with_strtab (both parsers) compared with the gABI rule, together "
             "with the guard each outcome is reached under; must-pass-through rule for validate_entsize at the 9 confirmed instances; "
             "default body of ParseAt::validate_entsize and absence of overrides")

SH = "section::SectionHeader"
PH = "segment::ProgramHeader"


def wh(span):
    return "%s:%d:%d" % (span["file"], span["line"], span["col"])


def cval(F, name):
    c = F.consts.get("abi::" + name)
    return int(c["val"]) if c and "val" in c else None


def guard_val(an, st, term, value):
    """truth of (term == value) under the outcome's facts"""
    ty = "usize"
    r = an.truth(st.facts, T.bin("Eq", term, T.const(ty, value), ty))
    if r is None and term.op == "cast" and term.args[0] == "IntToInt":
        # the same test made on the field before it is widened (`match ehdr.e_shnum { 0 => .. }`)
        x, frm = term.args[1], term.args[2]
        r = an.truth(st.facts, T.bin("Eq", x, T.const(frm, value), frm))
    return r


def norm_ty_name(t):
    return nm(t) if isinstance(t, str) else t


def table_outcomes(F, rep, q, kind, file_is_stream):
    """kind = 'sh' | 'ph'"""
    fn = F.fn(q)
    if fn is None:
        rep.bad("table-location", q, "-", "anchor missing: %s" % q)
        return
    an = analyze_fn(F, fn)
    w = wh(fn["span"])
    eh = P(1)
    data = P(2)
    shoff = F_(eh, "e_shoff")
    off = F_(eh, "e_shoff" if kind == "sh" else "e_phoff")
    ety = SH if kind == "sh" else PH
    ents = ENTSIZE(ety, F_(eh, "e_shentsize" if kind == "sh" else "e_phentsize"))
    endian, cls = F_(eh, "endianness"), F_(eh, "class")

    def buf(a, b):
        return ("file", a, b) if file_is_stream else SLICE(data, a, b)

    if file_is_stream:
        ext_alts = [ADD(shoff, ENTSIZE(SH, F_(eh, "e_shentsize"))), ADD(shoff, ("call", "<section::SectionHeader as parse::ParseAt>::size_for", (cls,)))]
        shdr0_alts = [PARSE(SH, endian, cls, C(0), ("file", shoff, e)) for e in ext_alts]
    else:
        shdr0_alts = [PARSE(SH, endian, cls, shoff, data)]
    plain = F_(eh, "e_shnum" if kind == "sh" else "e_phnum")
    ext_field = "sh_size" if kind == "sh" else "sh_info"
    special = 0 if kind == "sh" else cval(F, "PN_XNUM")
    rep.require(special in (0, 0xffff), "constants", "PN_XNUM", "src/abi.rs", "0xffff", "PN_XNUM = %s" % special)

    def table(num):
        b = buf(off, ADD(off, MUL(ents, num)))
        if file_is_stream:
            return ("call", "iter::Iterator::collect", (("agg", "parse::ParsingIterator", "ParsingIterator", (endian, cls, b, C(0), ("agg", "marker::PhantomData", "PhantomData", ()))),))
        return ("agg", "option::Option", "Some", (("agg", "parse::ParsingTable", "ParsingTable", (endian, cls, b, ("agg", "marker::PhantomData", "PhantomData", ()))),))

    want_plain = table(plain)
    want_ext = [table(F_(s0, ext_field)) for s0 in shdr0_alts]
    want_none = ("call", "default::Default::default", ()) if file_is_stream else ("agg", "option::Option", "None", ())
    seen = set()
    offt = T.proj(T.deref(T.param(1)), _fld(F, "file::FileHeader", "e_shoff" if kind == "sh" else "e_phoff"))
    numt = T.cast("IntToInt", T.proj(T.deref(T.param(1)), _fld(F, "file::FileHeader", "e_shnum" if kind == "sh" else "e_phnum")), "u16", "usize")
    for v, st in ok_outcomes(an):
        n = norm(v)
        absent = an.truth(st.facts, T.bin("Eq", offt, T.const("u64", 0), "u64"))
        if n == want_none:
            rep.require(absent is True, "table-location", q + ":absent", w, "no table exactly when the offset field is 0",
                        "%s reports an absent table under a condition other than %s == 0" % (q, show(off)))
            seen.add("absent")
        elif n == want_plain:
            g = guard_val(an, st, numt, special)
            rep.require(absent is False and g is False, "table-location", q + ":plain", w,
                        "table = %s when the count field is not the escape value" % show(n if not file_is_stream else n[2][0][3][2]),
                        "%s uses the header count although the escape value (%s) may be present, or without the offset being non-zero" % (q, special))
            seen.add("plain")
        elif n in want_ext:
            g = guard_val(an, st, numt, special)
            rep.require(absent is False and g is True, "table-location", q + ":extended", w,
                        "count = shdr[0].%s exactly when the header count == %s" % (ext_field, special),
                        "%s takes the count from shdr[0].%s under the wrong condition" % (q, ext_field))
            seen.add("ext")
        else:
            rep.bad("table-location", q + ":outcome", w,
                    "%s has a success outcome not allowed by the gABI rule: %s  (expected %s, or with count shdr[0].%s when the header count is %s, or absent)"
                    % (q, show(n)[:400], show(want_plain)[:300], ext_field, special))
    rep.require(seen == {"absent", "plain", "ext"}, "table-location", q + ":outcomes", w, "absent / plain / extended-numbering outcomes present",
                "%s lacks outcome classes: has %s" % (q, sorted(seen)))
    # failure causes: the table is refused only for reasons the header implies (conversion / entry size / overflow / the declared
    # bytes or shdr[0] not being readable); any other error condition rejects files whose declared table does fit
    table_ranges = {(off, ADD(off, MUL(ents, plain)))} | {(off, ADD(off, MUL(ents, F_(s0, ext_field)))) for s0 in shdr0_alts}
    if file_is_stream:
        table_ranges |= {(shoff, e) for e in ext_alts}
    bad = []
    n_fail = 0
    def allowed(cause):
        k = cause[0]
        if k in ("conv", "overflow"):
            return True
        if k == "entsize":
            # only the entry size of this very table is checked against this table's entry type (a shared helper that also validates
            # the *other* table's entry size refuses files the sibling parser opens)
            fld_ = F_(eh, "e_shentsize" if kind == "sh" else "e_phentsize")
            src_ = cause[2][2] if (isinstance(cause[2], tuple) and cause[2] and cause[2][0] == "as") else cause[2]
            return norm_ty_name(cause[1]) == ety and src_ == fld_
        if k == "parse" and cause[1] == SH:
            return True
        if k == "read" and (cause[1], cause[2]) in table_ranges:
            return True
        if k == "via":      # the error of a private helper: each of the helper's own causes must be allowed here
            return all(allowed(c) for c in cause[2])
        return False
    early = []
    for cause, t, st in prov.failure_causes(an):
        n_fail += 1
        if an.truth(st.facts, T.bin("Eq", offt, T.const("u64", 0), "u64")) is not False:
            early.append("%s %s" % (cause[0], [show(x)[:100] if isinstance(x, tuple) else x for x in cause[1:]]))
        if allowed(cause):
            continue
        k = cause[0]
        bad.append("%s %s" % (k, [show(x)[:140] if isinstance(x, tuple) else x for x in cause[1:]]))
    rep.require(not early, "table-location", q + ":absent-never-fails", w,
                "each of the %d failure outcomes is reached only with a non-zero offset field (an absent table is never refused)" % n_fail,
                "%s can fail although %s == 0 says the table is absent (the checks apply to a present table only): %s" % (q, show(off), "; ".join(early)[:500]))
    rep.require(not bad, "table-location", q + ":failures", w, "%d failure outcomes, all implied by the header (conversion, entsize, overflow, declared bytes unreadable)" % n_fail,
                "%s refuses the table under a condition the ELF header does not imply: %s" % (q, "; ".join(bad)[:600]))


def _fld(F, adt, name):
    for i, fd in enumerate(F.adts[adt]["variants"][0]["fields"]):
        if fd["name"] == name:
            return ("f", i, name)
    raise KeyError(name)


def strtab_rule(F, rep, q, stream):
    fn = F.fn(q)
    if fn is None:
        rep.bad("shstrndx", q, "-", "anchor missing: %s" % q)
        return
    an = analyze_fn(F, fn)
    w = wh(fn["span"])
    UNDEF, XINDEX = cval(F, "SHN_UNDEF"), cval(F, "SHN_XINDEX")
    rep.require((UNDEF, XINDEX) == (0, 0xffff), "constants", "SHN_UNDEF/SHN_XINDEX", "src/abi.rs", "0 / 0xffff", "SHN_UNDEF=%s SHN_XINDEX=%s" % (UNDEF, XINDEX))
    me = P(1)
    ndx_field = T.proj(T.proj(T.deref(T.param(1)), _fld(F, "elf_stream::ElfStream" if stream else "elf_bytes::ElfBytes", "ehdr")), _fld(F, "file::FileHeader", "e_shstrndx"))
    seen = set()
    n_none = 0
    for v, st in ok_outcomes(an):
        n = norm(v)
        strs = n[3][1] if n[0] == "agg" and len(n[3]) == 2 else None
        if strs is None:
            rep.bad("shstrndx", q + ":outcome", w, "UNRECOGNISED success value %s" % show(n)[:200])
            continue
        is_undef = an.truth(st.facts, T.bin("Eq", ndx_field, T.const("u16", UNDEF), "u16"))
        is_x = an.truth(st.facts, T.bin("Eq", ndx_field, T.const("u16", XINDEX), "u16"))
        if strs == ("agg", "option::Option", "None", ()):
            seen.add("none")
            continue
        # Some(StringTable(buffer of shdrs[idx]))
        flds = prov.leaves_fields(strs)
        idx_direct = any(f == ("fld", ("fld", me, "ehdr"), "e_shstrndx") for f in flds)
        idx_link = any(f[2] == "sh_link" for f in flds)
        offs = {f[2] for f in flds} & {"sh_offset", "sh_size"}
        ok_shape = strs[0] == "agg" and strs[1] == "option::Option" and strs[2] == "Some" and "StringTable" in str(strs[3][0][1]) and offs == {"sh_offset", "sh_size"}
        if idx_link:
            rep.require(ok_shape and is_x is True, "shstrndx", q + ":xindex", w, "index = shdr[0].sh_link exactly when e_shstrndx == SHN_XINDEX",
                        "%s: string-table index taken from sh_link under the wrong condition, or buffer not [sh_offset, sh_offset+sh_size): %s" % (q, show(strs)[:300]))
            z = [f for f in flds if f[2] == "sh_link"]
            def _is_hdr0(h):
                if "[T]::first(" in show(h) and h[0] == "payload" and h[1][0] == "call" and h[1][1] == "[T]::first" and h[2] == "Some":
                    return True      # `.first()`: element 0
                return "0" in show(h)
            base0 = all(_is_hdr0(f[1]) for f in z)
            rep.require(base0, "shstrndx", q + ":xindex-shdr0", w, "sh_link is read from section header 0", "%s reads sh_link from %s" % (q, [show(f[1])[:80] for f in z]))
            seen.add("xindex")
        elif idx_direct:
            rep.require(ok_shape and is_x is False and is_undef is False, "shstrndx", q + ":direct", w,
                        "index = e_shstrndx when it is neither SHN_UNDEF nor SHN_XINDEX",
                        "%s: uses e_shstrndx directly although it may be SHN_XINDEX / SHN_UNDEF, or wrong buffer: %s" % (q, show(strs)[:300]))
            seen.add("direct")
        else:
            rep.bad("shstrndx", q + ":outcome", w, "%s: string table located by %s, neither e_shstrndx nor shdr[0].sh_link" % (q, show(strs)[:300]))
    # completeness: "no string table" is answered only when e_shstrndx is SHN_UNDEF or there are no section headers at all - judged on
    # the decisions that by-pass the construction of the string table (so `a || b` in one test and a `match` on a pair are the same)
    from ..hashrules import early_exits, cond_holds
    ctor = [c for c in an.calls() if c.callee_qual == "string_table::StringTable::new" and c.block in an.entry]
    if not ctor:
        # the constructor is applied inside a combinator closure (`read_bytes(..).map(|b| (.., Some(StringTable::new(b))))`): the read of
        # the table's bytes is the step every table-yielding path passes
        reads = [c for c in an.calls() if c.block in an.entry and (c.callee_qual in ("elf_stream::CachingReader::read_bytes",) or c.declared_norm == "parse::ReadBytesExt::get_bytes")]
        ctor = sorted(reads, key=lambda c: an.rpo_index[c.block])[-1:]

    def absent_ok(d, val):
        if d == norm(ndx_field):
            return val == str(UNDEF)                     # `match e_shstrndx { SHN_UNDEF => .. }`
        atom, pol = cond_holds(d, val)
        txt = show(atom)
        if atom[0] == "Eq" and len(atom) == 3 and norm(ndx_field) in atom[1:] and C(UNDEF) in atom[1:]:
            return pol                                   # e_shstrndx == SHN_UNDEF
        if "shdrs" in txt and "sh_" not in txt.replace("shdrs", "") and "e_sh" not in txt:
            # a test of the section header table itself: is_empty() / len() == 0 / first() is None / section_headers() is None
            return True
        return False
    if len(ctor) == 1:
        early_exits(an, rep, "shstrndx", q, w, absent_ok, "e_shstrndx == SHN_UNDEF, no section headers", target=ctor[0].block,
                    subject="the construction of the section-name string table", lost="the table e_shstrndx designates is withheld")
    else:
        rep.bad("shstrndx", q + ":early", w, "UNRECOGNISED: %d constructions of the string table (expected one)" % len(ctor))
    rep.require({"direct", "xindex", "none"} <= seen, "shstrndx", q + ":outcomes", w, "direct / SHN_XINDEX / absent outcomes present", "%s outcome classes: %s" % (q, sorted(seen)))


# instances confirmed by reading (DESIGN.md appendix C): function -> (validated type, size field)
ENTSIZE_INSTANCES = [
    ("elf_bytes::find_shdrs", SH, "e_shentsize", "some"),
    ("elf_stream::parse_section_headers", SH, "e_shentsize", "nonempty"),
    ("elf_bytes::find_phdrs", PH, "e_phentsize", "some"),
    ("elf_stream::parse_program_headers", PH, "e_phentsize", "nonempty"),
    ("elf_bytes::ElfBytes::section_data_as_symbol_table", "symbol::Symbol", "sh_entsize", "all"),
    ("elf_stream::ElfStream::get_symbol_table_of_type", "symbol::Symbol", "sh_entsize", "some"),
    ("elf_bytes::ElfBytes::symbol_version_table", "gnu_symver::VersionIndex", "sh_entsize", "some"),
    ("elf_stream::ElfStream::symbol_version_table", "gnu_symver::VersionIndex", "sh_entsize", "some"),
    ("elf_bytes::ElfBytes::section_data_as_dynamic", "dynamic::Dyn", "sh_entsize", "all"),
]


def entsize_rule(F, rep):
    n = 0
    for q, ty, field, mode in ENTSIZE_INSTANCES:
        fn = F.fn(q)
        if fn is None:
            if q.startswith("elf_stream") and "std" not in F["config"]["features"]:
                continue
            rep.bad("entsize-validated", q, "-", "anchor missing: %s" % q)
            continue
        n += 1
        an = analyze_fn(F, fn)
        w = wh(fn["span"])
        # must-pass-through, read off the outcomes (so the validation may sit in a helper): every success outcome that yields a table
        # was reached with validate_entsize::<ty>(class, <field>) == Ok
        def is_validation(x):
            if x.op != "call":
                return False
            f_, g_, a_ = x.args
            if f_ == "parse::ParseAt::validate_entsize":
                tyok = bool(g_) and nm(g_[0]) == ty
            elif f_.endswith("ParseAt>::validate_entsize"):
                tyok = nm(f_[1:].split(" as ")[0]) == ty
            else:
                return False
            src = norm(a_[1]) if len(a_) > 1 else ()
            return tyok and src and src[0] in ("fld", "as") and any(ff[2] == field for ff in prov.leaves_fields(src))
        good = True
        detail = ""
        n_yield = 0
        for v, st in ok_outcomes(an):
            nv = norm(v)
            yields = not (nv == ("agg", "option::Option", "None", ()) or nv == ("call", "default::Default::default", ()))
            if not yields:
                continue
            n_yield += 1
            if not any(f[0] == "var" and f[2] == "Ok" and is_validation(f[1]) for f in st.facts):
                good = False
                detail = "a success outcome yields a table without the validation having succeeded: %s" % show(nv)[:160]
        if n_yield == 0:
            good = False
            detail = "no table-yielding outcome"
        rep.require(good, "entsize-validated", "%s<%s>(%s)" % (q, ty.split("::")[-1], field), w,
                    "validate_entsize::<%s>(class, %s) succeeds on every path that yields the table" % (ty.split("::")[-1], field),
                    "%s does not validate %s against size_for::<%s>(class) on every success path (%s)" % (q, field, ty.split("::")[-1], detail))
    rep.floor("entsize-validated", "instances", n, 9 if "std" in F["config"]["features"] else 5)
    # the rejection reaches the user: every in-crate caller of one of these functions turns its failure into its own failure (a caller
    # that drops the error - `.ok()`, `unwrap_or`, `if let Ok` - answers "no table" / falls back for a table whose entry size is wrong)
    from ..streamrules import result_propagated
    qs = {q for q, _, _, _ in ENTSIZE_INSTANCES if F.fn(q) is not None}
    ids = {F.fn(q)["id"]: q for q in qs}
    n_sites = 0
    for caller in F.all_fns():
        if not any(blk["term"]["k"] == "call" and "indirect" not in blk["term"]["callee"]
                   and (blk["term"]["callee"].get("resolved_id") or blk["term"]["callee"].get("id")) in ids for blk in caller["body"]["blocks"]):
            continue
        can = analyze_fn(F, caller)
        for c in can.calls():
            cq = ids.get(c.callee.get("resolved_id") or c.callee.get("id"))
            if cq is None or c.block not in can.entry:
                continue
            n_sites += 1
            okp, why = result_propagated(can, c)
            rep.require(okp, "entsize-validated", "%s|caller:%s" % (cq, caller["qual"]), c.where(), "the rejection is propagated by %s (%s)" % (caller["qual"], why),
                        "%s calls %s and does not turn its failure (a wrong entry size among them) into an error: %s" % (caller["qual"], cq, why))
    rep.floor("entsize-validated", "callers of the validating functions", n_sites, 7 if "std" in F["config"]["features"] else 4)
    # the validator itself
    fn = F.fn("parse::ParseAt::validate_entsize")
    if fn is None:
        rep.bad("entsize-validated", "ParseAt::validate_entsize", "src/parse.rs", "anchor missing: default method")
        return
    an = analyze_fn(F, fn)
    p1, p2 = T.param(1), T.param(2)
    size = T.call("parse::ParseAt::size_for", ("Self",), [p1])
    okc = errc = 0
    for t, st in an.ret_leaves() or []:
        eq = an.truth(st.facts, T.bin("Eq", p2, size, "usize"))
        if t.op == "agg" and t.args[3] == "Ok":
            okc += 1
            # under the accepted condition entsize == size_for(class) either spelling of the value is the same number
            rep.require((t.args[4][0] is p2 or t.args[4][0] is size) and eq is True, "entsize-validated", "validate_entsize:ok", wh(fn["span"]), "Ok(entsize) iff entsize == size_for(class)",
                        "validate_entsize accepts under %s and returns %s" % (eq, pp(t)))
        elif t.op == "agg" and t.args[3] == "Err":
            errc += 1
            e = t.args[4][0]
            rep.require(e.op == "agg" and e.args[3] == "BadEntsize" and eq is False, "entsize-validated", "validate_entsize:err", wh(fn["span"]),
                        "BadEntsize otherwise", "validate_entsize rejects with %s under equality=%s" % (pp(e), eq))
    rep.require(okc == 1 and errc == 1, "entsize-validated", "validate_entsize:outcomes", wh(fn["span"]), "one accept, one reject outcome", "%d/%d outcomes" % (okc, errc))
    for imp in F["impls"]:
        if imp.get("trait") == "parse::ParseAt":
            names = sorted(i["name"] for i in imp["items"])
            rep.require(names == ["parse_at", "size_for"], "entsize-validated", "no-override:%s" % (imp["self_adt"] or imp["self"]), wh(imp["span"]),
                        "does not override validate_entsize", "impl ParseAt for %s overrides %s" % (imp["self"], names))


def run(ctx, rep):
    F = ctx.facts()
    prov.set_program(program(F))
    table_outcomes(F, rep, "elf_bytes::find_shdrs", "sh", False)
    table_outcomes(F, rep, "elf_bytes::find_phdrs", "ph", False)
    strtab_rule(F, rep, "elf_bytes::ElfBytes::section_headers_with_strtab", False)
    if "std" in F["config"]["features"]:
        table_outcomes(F, rep, "elf_stream::parse_section_headers", "sh", True)
        table_outcomes(F, rep, "elf_stream::parse_program_headers", "ph", True)
        strtab_rule(F, rep, "elf_stream::ElfStream::section_headers_with_strtab", True)
    entsize_rule(F, rep)
    # minimal_parse / open_stream use these helpers with the parsed header and the whole file
    fn = F.fn("elf_bytes::ElfBytes::minimal_parse")
    if fn is not None:
        an = analyze_fn(F, fn)
        for callee in ("elf_bytes::find_shdrs", "elf_bytes::find_phdrs"):
            cs = [c for c in an.calls() if c.callee_qual == callee]
            good = len(cs) == 1 and norm(cs[0].arg_values()[1]) == P(1) and "parse_tail" in show(norm(cs[0].arg_values()[0]))
            rep.require(good, "table-location", "minimal_parse->" + callee, wh(fn["span"]), "called with the parsed header and the whole file buffer",
                        "minimal_parse calls %s with %s" % (callee, [show(norm(a))[:80] for c in cs for a in c.arg_values()]))
        for v, st in ok_outcomes(an):
            n = norm(v)
            good = n[0] == "agg" and len(n[3]) == 4 and n[3][1] == P(1) and "find_shdrs" in show(n[3][2]) and "find_phdrs" in show(n[3][3])
            rep.require(good, "table-location", "minimal_parse:fields", wh(fn["span"]), "ElfBytes{ehdr, data, shdrs: find_shdrs, phdrs: find_phdrs}",
                        "minimal_parse builds %s" % show(n)[:300])
    # the rules above speak about e_shoff / e_shnum / ... of the FileHeader struct and sh_size / sh_info / sh_link of shdr[0]: that these
    # are the file's fields (not normalised on the way in) is C02; that the stream parser's read_bytes(a, b) hands back file[a..b) is the
    # cache protocol shared with C07 / C08
    from ._common import premise
    premise(ctx, rep, "C02", "FileHeader / SectionHeader fields are the file's fields", rules={"decode", "decode-reads", "decode-size", "decode-errors", "premise"}, where="src/file.rs, src/section.rs")
    if "std" in F["config"]["features"]:
        from ..streamrules import rule_cache_protocol, rule_load_before_get
        from ..runner import Report
        subc = Report("C05")
        rule_cache_protocol(F, subc)
        rule_load_before_get(F, subc)
        rep.require(not subc.violations, "premise", "stream reads return the requested file range (cache protocol)", "src/elf_stream.rs",
                    "read_bytes(a, b) answers from a buffer cached for exactly [a, b)",
                    "the stream parser's cache can answer a read with other bytes than the requested range: %s" % "; ".join("%s: %s" % (v.key, v.msg[:140]) for v in subc.violations[:3]))
    rep.trusted_base += ["C02 for the decoding of the header / shdr[0] fields, C19 for PN_XNUM / SHN_XINDEX / SHN_UNDEF",
                        "semantics of checked_mul/checked_add/try_into (value-preserving on success) and <[u8]>::get"]
