"""C10 - byte-order specs gate files; ident defects are reported as what they are."""
from ..engine import analyze_fn, norm
from ..terms import T, Term, pp

LEVEL = "proof"
RULE_TEXT = ("exact evaluation of the switch structure of the three from_ei_data impls over the whole u8 domain (accepted set, result "
             "variant, error payload); outcome-by-outcome provenance of verify_ident / parse_ident (error variant, payload bytes, guard); "
             "both parsers feed file bytes [0,16) to parse_ident::<E> with the handle's own E and store its results unchanged")


def wh(span):
    return "%s:%d:%d" % (span["file"], span["line"], span["col"])


def cval(F, name):
    c = F.consts.get("abi::" + name)
    return int(c["val"]) if c and "val" in c else None


def idx(buf, i):
    return T.proj(T.deref(buf), ("idx", T.const("usize", i)))


def _strip(x):
    while x.op in ("deref", "refval", "ref") and x.op != "ref":
        x = x.args[0]
    return x


def first4_elem(x, buf):
    """x is byte i (< 4) of buf, read directly or through a view of its first four bytes: returns i or None"""
    if x.op == "proj" and x.args[1][0] == "idx" and x.args[1][1].op == "const":
        i, base = x.args[1][1].args[1], _strip(x.args[0])
        if base is buf and 0 <= i < 4:
            return i
        if is_first4(base, buf) and 0 <= i < 4:
            return i
    return None


def is_first4(x, buf):
    """x denotes exactly the bytes buf[0..4] (as an array, a slice view or the head of a split)"""
    x = _strip(x)
    c4 = lambda t: t.op == "const" and t.args[1] == 4
    c0 = lambda t: t.op == "const" and t.args[1] == 0
    if x.op == "agg" and x.args[0] == "array" and len(x.args[4]) == 4:
        return all(first4_elem(e, buf) == i for i, e in enumerate(x.args[4]))
    if x.op == "proj" and x.args[1][:2] == ("f", 0) and x.args[0].op == "call" and x.args[0].args[0] in ("[T]::split_at",):
        a = x.args[0].args[2]
        return _strip(a[0]) is buf and c4(a[1])
    if x.op == "payload" and x.args[1] in ("Some", "Ok") and x.args[0].op == "call":
        f, a = x.args[0].args[0], x.args[0].args[2]
        if f in ("[T]::get", "[T]::first_chunk", "[T]::split_at_checked", "[T]::split_first_chunk") and _strip(a[0]) is buf:
            if f == "[T]::get" and a[1].op == "agg" and a[1].args[1] in ("ops::Range", "ops::RangeTo"):
                r = a[1].args[4]
                return c4(r[-1]) and (len(r) == 1 or c0(r[0]))
            return False
        if f in ("convert::TryInto::try_into", "convert::TryFrom::try_from") and len(a) == 1:
            return is_first4(a[0], buf)
    if x.op == "call" and x.args[0] == "ops::Index::index" and _strip(x.args[2][0]) is buf:
        r = x.args[2][1]
        if r.op == "agg" and r.args[1] in ("ops::Range", "ops::RangeTo"):
            return c4(r.args[4][-1]) and (len(r.args[4]) == 1 or c0(r.args[4][0]))
    return False


def is_magic_const(x, magic_bytes):
    x = _strip(x)
    while x.op == "unsize":
        x = _strip(x.args[0])
    if x.op == "bytes":
        return bytes(x.args[0]) == bytes(magic_bytes)
    if x.op == "agg" and x.args[0] == "array":
        return [e.args[1] if e.op == "const" else None for e in x.args[4]] == list(magic_bytes)
    return False


def magic_truth(facts, buf, magic_bytes):
    """truth, on this path, of `buf[0..4] == ELFMAGIC` (whatever view of the four bytes the comparison is written on); None if untested"""
    for f in facts:
        if f[0] in ("true", "false") and f[1].op == "bin" and f[1].args[0] in ("Eq", "Ne"):
            a, b = f[1].args[1], f[1].args[2]
            if (is_first4(a, buf) and is_magic_const(b, magic_bytes)) or (is_first4(b, buf) and is_magic_const(a, magic_bytes)):
                return (f[0] == "true") == (f[1].args[0] == "Eq")
        # `buf.starts_with(&ELFMAGIC)` (on the buffer or on a view of its first bytes): the first four bytes equal the magic
        if f[0] in ("true", "false") and f[1].op == "call" and f[1].args[0] == "[T]::starts_with" and len(f[1].args[2]) == 2:
            x, m = f[1].args[2]
            if is_magic_const(m, magic_bytes) and _is_prefix_view(x, buf):
                return f[0] == "true"
    return None


def _is_prefix_view(x, buf, depth=0):
    """x is buf, or a view of buf from its first byte on (get(..n)?, get(0..n)?, first_chunk()?, an unsized array view of those)"""
    x = _strip(x)
    while x.op in ("unsize",) and depth < 6:
        x, depth = _strip(x.args[0]), depth + 1
    if x is buf:
        return True
    if depth < 6 and x.op == "payload" and x.args[1] in ("Some", "Ok") and x.args[0].op == "call":
        f, a = x.args[0].args[0], x.args[0].args[2]
        if f == "[T]::first_chunk":
            return _is_prefix_view(a[0], buf, depth + 1)
        if f == "[T]::get" and len(a) == 2 and a[1].op == "agg" and a[1].args[1] in ("ops::Range", "ops::RangeTo"):
            r = a[1].args[4]
            return (len(r) == 1 or (r[0].op == "const" and r[0].args[1] == 0)) and _is_prefix_view(a[0], buf, depth + 1)
    return False


def run(ctx, rep):
    F = ctx.facts()
    LSB, MSB = cval(F, "ELFDATA2LSB"), cval(F, "ELFDATA2MSB")
    rep.require(LSB == 1 and MSB == 2, "constants", "ELFDATA2LSB/MSB", "src/abi.rs", "1 / 2", "ELFDATA2LSB=%s ELFDATA2MSB=%s" % (LSB, MSB))
    p1 = T.param(1)

    # ---------------------------------------------------------------- from_ei_data
    want = {
        "endian::LittleEndian": {LSB: ("endian::LittleEndian", "LittleEndian")},
        "endian::BigEndian": {MSB: ("endian::BigEndian", "BigEndian")},
        "endian::AnyEndian": {LSB: ("endian::AnyEndian", "Little"), MSB: ("endian::AnyEndian", "Big")},
    }
    n = 0
    for imp in F["impls"]:
        if imp.get("trait") != "endian::EndianParse":
            continue
        st_ = imp["self_adt"] or imp["self"]
        q = "<%s as endian::EndianParse>::from_ei_data" % st_
        fn = F.fn(q)
        if fn is None or st_ not in want:
            rep.bad("from-ei-data", st_, wh(imp["span"]), "UNRECOGNISED EndianParse impl %s: no reference accepted set" % st_)
            continue
        n += 1
        an = analyze_fn(F, fn)
        # an impl written in terms of a sibling impl (`match AnyEndian::from_ei_data(b)? { Little => Ok(LittleEndian), .. }`):
        # the sibling is described by cases, so that the accepted set is again a set of tests on the byte
        sib = {c.callee_qual for c in an.calls() if c.callee_qual != q and c.callee_qual.endswith(" as endian::EndianParse>::from_ei_data")}
        prog_ = None
        if sib:
            from ..engine import Program
            prog_ = Program(F, dissolve=sib)
        # the parameter is one byte: the function is evaluated for each of its 256 values (the shape of the tests - match, if-chain,
        # inverted early returns, a bit mask - does not matter; what is decided is the accepted set and what each rejection carries)
        msgs = []
        accepted = {}
        for k in range(256):
            ak = prog_.analysis(fn, (("eq", p1, k),)) if prog_ is not None else analyze_fn(F, fn, (("eq", p1, k),))
            lv = ak.ret_leaves() if ak is not None else None
            outs = {ak.simp(t, st.facts) for t, st in lv} if lv else set()
            if len(outs) != 1:
                msgs.append("UNRECOGNISED: for EI_DATA = %d the outcome is not determined (%d candidates)" % (k, len(outs)))
                if len(msgs) > 3:
                    break
                continue
            t = next(iter(outs))
            if t.op == "agg" and t.args[3] == "Ok" and t.args[4][0].op == "agg":
                accepted[k] = (t.args[4][0].args[1], t.args[4][0].args[3])
            elif t.op == "agg" and t.args[3] == "Err":
                e = t.args[4][0]
                carried = e.args[4][0] if (e.op == "agg" and e.args[4]) else None
                good = e.op == "agg" and e.args[3] == "UnsupportedElfEndianness" and (carried is p1 or (carried is not None and carried.op == "const" and carried.args[1] == k))
                if not good and len(msgs) < 4:
                    msgs.append("EI_DATA = %d is rejected with %s, expected UnsupportedElfEndianness(ei_data)" % (k, pp(e)[:120]))
            elif len(msgs) < 4:
                msgs.append("UNRECOGNISED outcome %s for EI_DATA = %d" % (pp(t)[:120], k))
        ok = not msgs
        if ok and accepted != want[st_]:
            ok = False
            msgs.append("accepted set %r, expected %r" % (accepted, want[st_]))
        rep.require(ok, "from-ei-data", st_, wh(fn["span"]), "evaluated for all 256 values: accepts exactly %s, rejects all else with the offending byte" % sorted(want[st_]),
                    "%s::from_ei_data: %s" % (st_, "; ".join(msgs)))
    rep.floor("from-ei-data", "impls", n, 3)

    # ---------------------------------------------------------------- verify_ident
    EI = {k: cval(F, k) for k in ("EI_CLASS", "EI_DATA", "EI_VERSION", "EI_OSABI", "EI_ABIVERSION", "EI_NIDENT", "EV_CURRENT", "ELFCLASS32", "ELFCLASS64")}
    rep.require(EI == {"EI_CLASS": 4, "EI_DATA": 5, "EI_VERSION": 6, "EI_OSABI": 7, "EI_ABIVERSION": 8, "EI_NIDENT": 16,
                       "EV_CURRENT": 1, "ELFCLASS32": 1, "ELFCLASS64": 2}, "constants", "EI_* indices", "src/abi.rs", "gABI values", "EI constants: %r" % EI)
    magic_c = F.consts.get("abi::ELFMAGIC")
    fn = F.fn("file::verify_ident")
    if fn is None:
        rep.bad("ident", "file::verify_ident", "src/file.rs", "anchor missing: file::verify_ident")
    else:
        from ..census import inherited_assumptions
        an = analyze_fn(F, fn, inherited_assumptions(F, fn))
        w = wh(fn["span"])
        MT = lambda facts: magic_truth(facts, p1, magic_c["bytes"])
        ver = idx(p1, EI["EI_VERSION"])
        seen = set()
        for t, st in an.ret_leaves() or []:
            facts = st.facts
            if t.op == "agg" and t.args[3] == "Err":
                e = t.args[4][0]
                if e.op == "agg" and e.args[3] == "BadMagic":
                    arr = e.args[4][0]
                    arr = an.simp(arr, facts)
                    # the four bytes, as an array built from them or as a copy of the view buf[..4] (copy_from_slice / try_into)
                    good = is_first4(arr, p1) and MT(facts) is False
                    rep.require(good, "ident", "verify_ident:BadMagic", w, "BadMagic([b0..b3]) iff bytes[0..4] != ELFMAGIC",
                                "BadMagic outcome: payload %s under magic-equal=%s" % (pp(arr), MT(facts)))
                    seen.add("magic")
                elif e.op == "agg" and e.args[3] == "UnsupportedVersion":
                    tup = e.args[4][0]
                    wanttup = T.agg("tuple", None, 0, None, [T.cast("IntToInt", ver, "u8", "u64"), T.const("u64", EI["EV_CURRENT"])])
                    good = tup is wanttup and ("ne", ver, EI["EV_CURRENT"]) in facts and MT(facts) is True
                    rep.require(good, "ident", "verify_ident:UnsupportedVersion", w, "UnsupportedVersion((data[6], 1)) iff magic ok and data[6] != 1",
                                "UnsupportedVersion outcome: payload %s, guards %s" % (pp(tup), sorted(pp(f[1]) for f in facts if f[0] in ("eq", "ne"))))
                    seen.add("version")
                else:
                    rep.bad("ident", "verify_ident:other-error", w, "UNRECOGNISED error outcome %s" % pp(t))
            elif t.op == "agg" and t.args[3] == "Ok":
                good = ("eq", ver, EI["EV_CURRENT"]) in facts and MT(facts) is True
                rep.require(good, "ident", "verify_ident:Ok", w, "Ok iff magic == ELFMAGIC and data[6] == EV_CURRENT",
                            "verify_ident succeeds under weaker conditions: %s" % sorted(str(f[:1]) + pp(f[1]) for f in facts))
                seen.add("ok")
            else:
                rep.bad("ident", "verify_ident:outcome", w, "UNRECOGNISED outcome %s" % pp(t))
        rep.require(seen == {"magic", "version", "ok"}, "ident", "verify_ident:outcomes", w, "3 outcome classes",
                    "verify_ident outcome classes %s" % sorted(seen))

    # ---------------------------------------------------------------- parse_ident
    fn = F.fn("file::parse_ident")
    if fn is None:
        rep.bad("ident", "file::parse_ident", "src/file.rs", "anchor missing: file::parse_ident")
    else:
        an = analyze_fn(F, fn)
        w = wh(fn["span"])
        cls = idx(p1, EI["EI_CLASS"])
        fed = T.call("endian::EndianParse::from_ei_data", ("E",), [idx(p1, EI["EI_DATA"])])
        vid = T.call("file::verify_ident", (), [p1])

        def ident_view(x, depth=0):
            """x is the buffer itself or a view of its first EI_NIDENT bytes: data.get(..16)?, data.get(0..16)?, data.first_chunk::<16>()?"""
            while x.op in ("refval", "deref", "unsize") and depth < 6:
                x, depth = x.args[0], depth + 1
            if x is p1:
                return True
            if x.op == "payload" and x.args[1] == "Ok" and x.args[0].op == "call" and len(x.args[0].args[2]) == 1 \
                    and x.args[0].args[0] in ("convert::TryInto::try_into", "convert::TryFrom::try_from"):
                return ident_view(x.args[0].args[2][0], depth + 1)      # <&[u8; 16]>::try_from(view)?: the same bytes as an array
            if x.op == "payload" and x.args[1] == "Some" and x.args[0].op == "call":
                c_ = x.args[0]
                if c_.args[0] == "[T]::first_chunk" and ident_view(c_.args[2][0], depth + 1):
                    return True
                if c_.args[0] == "[T]::get" and len(c_.args[2]) == 2 and c_.args[2][1].op == "agg" and ident_view(c_.args[2][0], depth + 1):
                    r_ = c_.args[2][1]
                    n16 = T.const("usize", EI["EI_NIDENT"])
                    return (r_.args[1] == "ops::RangeTo" and r_.args[4][0] is n16) or \
                        (r_.args[1] == "ops::Range" and r_.args[4][0] is T.const("usize", 0) and r_.args[4][1] is n16)
            return False
        # verify_ident may be handed the ident view instead of the whole buffer (the bytes it looks at are the same)
        for c_ in an.calls():
            if c_.callee_qual == "file::verify_ident" and c_.block in an.entry and c_.args and ident_view(c_.arg_values()[0]):
                vid = c_.result if c_.result.op == "call" else vid
        seen = set()
        for t, st in an.ret_leaves() or []:
            facts = st.facts
            if t.op == "agg" and t.args[3] == "Ok":
                tup = t.args[4][0]
                if tup.op != "agg" or len(tup.args[4]) != 4:
                    rep.bad("ident", "parse_ident:Ok", w, "UNRECOGNISED Ok value %s" % pp(tup))
                    continue
                e, c, osabi, abiv = tup.args[4]
                cname = c.args[3] if c.op == "agg" else None
                wantv = {"ELF32": EI["ELFCLASS32"], "ELF64": EI["ELFCLASS64"]}.get(cname)
                good = (e is T.payload(fed, "Ok") and wantv is not None and ("eq", cls, wantv) in facts
                        and osabi is idx(p1, EI["EI_OSABI"]) and abiv is idx(p1, EI["EI_ABIVERSION"]) and ("var", vid, "Ok") in facts)
                rep.require(good, "ident", "parse_ident:Ok:%s" % cname, w,
                            "(E::from_ei_data(data[5])?, Class::%s iff data[4]==%s, data[7], data[8]) after verify_ident" % (cname, wantv),
                            "parse_ident Ok outcome %s under guards %s" % (pp(tup), sorted(pp(f[1]) + "=" + str(f[2]) for f in facts if f[0] == "eq")))
                seen.add(cname)
            elif t.op == "agg" and t.args[3] == "Err":
                e = t.args[4][0]
                if e.op == "agg" and e.args[3] == "UnsupportedElfClass":
                    good = (e.args[4][0] is cls and ("ne", cls, 1) in facts and ("ne", cls, 2) in facts and ("var", vid, "Ok") in facts)
                    rep.require(good, "ident", "parse_ident:UnsupportedElfClass", w, "UnsupportedElfClass(data[4]) iff data[4] not in {1,2}",
                                "UnsupportedElfClass outcome payload %s guards %s" % (pp(e.args[4][0]), sorted((f[0], f[2]) for f in facts if f[0] in ("eq", "ne") and f[1] is cls)))
                    seen.add("class")
                elif e is T.payload(fed, "Err") or e is T.call("convert::From::from", (), [T.payload(fed, "Err")]):
                    seen.add("endian")
                    rep.ok("ident", "parse_ident:endian-error", w, "E::from_ei_data's error is propagated unchanged")
                elif e is T.payload(vid, "Err") or e is T.call("convert::From::from", (), [T.payload(vid, "Err")]):
                    seen.add("verify")
                    rep.ok("ident", "parse_ident:verify-error", w, "verify_ident's error is propagated unchanged")
                elif e.op == "agg" and e.args[3] == "SliceReadError":
                    lenlt = T.bin("Lt", T.length(p1), T.const("usize", EI["EI_NIDENT"]), "usize")
                    no_view = any(f[0] == "var" and f[2] == "None" and f[1].op == "call" and ident_view(T.payload(f[1], "Some")) and f[1].args[2][0] is not None
                                  and not (T.payload(f[1], "Some") is p1) for f in facts)        # data.get(..16) / first_chunk::<16>() is None: fewer than 16 bytes
                    # ... or the (unreachable) failure of converting the exact-length view into an array, reported the same way
                    no_view = no_view or any(f[0] == "var" and f[2] == "Err" and f[1].op == "call" and len(f[1].args[2]) == 1
                                             and f[1].args[0] in ("convert::TryInto::try_into", "convert::TryFrom::try_from") and ident_view(f[1].args[2][0]) for f in facts)
                    rep.require(an.truth(facts, lenlt) is True or no_view, "ident", "parse_ident:short", w, "short buffer (< EI_NIDENT) is an error",
                                "SliceReadError outcome not guarded by len < EI_NIDENT")
                    seen.add("short")
                else:
                    rep.bad("ident", "parse_ident:other-error", w, "UNRECOGNISED error outcome %s" % pp(t))
            else:
                rep.bad("ident", "parse_ident:outcome", w, "UNRECOGNISED outcome %s" % pp(t))
        rep.require({"ELF32", "ELF64", "class", "endian", "verify"} <= seen, "ident", "parse_ident:outcomes", w, "outcome classes %s" % sorted(seen),
                    "parse_ident outcome classes %s (expected ELF32, ELF64, class, endian, verify)" % sorted(seen))

    # ---------------------------------------------------------------- both parsers hand [0,16) to parse_ident::<E>
    for q, reader in (("elf_bytes::ElfBytes::minimal_parse", None), ("elf_stream::ElfStream::open_stream", "elf_stream::CachingReader::read_bytes")):
        fn = F.fn(q)
        if fn is None:
            if reader is None or "std" in F["config"]["features"]:
                rep.bad("feed", q, "-", "anchor missing: %s" % q)
            continue
        an = analyze_fn(F, fn)
        w = wh(fn["span"])
        pcs = [c for c in an.calls() if c.callee_qual == "file::parse_ident"]
        if not pcs:
            # the header may be read by a private helper of the opening function (`read_file_header(&mut reader)`): judged there
            from ..engine import program as _prog
            pr_ = _prog(F)
            helpers = []
            for c_ in an.calls():
                lf_ = pr_.local_fn(c_.callee)
                if lf_ is not None and not pr_.known_name(lf_) and lf_["kind"] != "Closure" and lf_ not in helpers:
                    if any(x.callee_qual == "file::parse_ident" for x in analyze_fn(F, lf_).calls()):
                        helpers.append(lf_)
            if len(helpers) == 1:
                an = analyze_fn(F, helpers[0])
                pcs = [c for c in an.calls() if c.callee_qual == "file::parse_ident"]
        good = len(pcs) == 1 and pcs[0].callee.get("generics") == ["E"]
        if good:
            a = pcs[0].args[0]
            if reader is None:
                rng = T.agg("adt", "ops::Range", 0, "Range", [T.const("usize", 0), T.const("usize", 16)])
                good = a is T.payload(T.call("[T]::get", ("u8", "ops::Range<usize>"), [p1, rng]), "Some")
            else:
                src = an.call_site_of(a) if a.op == "payload" and a.args[1] == "Ok" else None
                from ..prov import read_bytes_bounds as _rbb
                bnd_ = _rbb(src.args) if (src is not None and src.callee_qual == reader) else None
                good = (bnd_ is not None and bnd_[0] is T.const("usize", 0) and bnd_[1] is T.const("usize", 16))
        rep.require(good, "feed", q, w, "parse_ident::<E>(file bytes [0,16))",
                    "%s does not pass exactly bytes [0,16) of the file to parse_ident::<E> (args: %s)" % (q, [pp(x) for c in pcs for x in c.args]))
        # parse_tail receives that ident unchanged
        tcs = [c for c in an.calls() if c.callee_qual == "file::FileHeader::parse_tail"]
        good = len(tcs) == 1 and len(pcs) == 1 and tcs[0].args[0] is T.payload(pcs[0].result, "Ok")
        rep.require(good, "feed", q + ":tail", w, "FileHeader::parse_tail(ident, ..) gets parse_ident's result", "%s: ident passed to parse_tail is not parse_ident's result" % q)
    fn = F.fn("file::FileHeader::parse_tail")
    if fn is not None:
        an = analyze_fn(F, fn)
        oks = [t for t, _ in an.ret_leaves() or [] if t.op == "agg" and t.args[3] == "Ok"]
        good = bool(oks)
        for t in oks:
            h = t.args[4][0]
            if h.op != "agg":
                good = False
                continue
            fields = dict(zip([f["name"] for f in F.adts["file::FileHeader"]["variants"][0]["fields"]], h.args[4]))
            for name, i in (("endianness", 0), ("class", 1), ("osabi", 2), ("abiversion", 3)):
                if fields.get(name) is not T.proj(p1, ("f", i, None)):
                    good = False
        rep.require(good, "feed", "parse_tail:ident-fields", wh(fn["span"]), "endianness/class/osabi/abiversion = ident.0..3",
                    "FileHeader::parse_tail does not store the ident tuple fields unchanged")
    # ---------------------------------------------------------------- endianness / class plumbing in both parsers
    # every lazy view, table, iterator or decoder created by an accessor gets the file's own byte order and class
    from .. import prov
    from ..engine import program
    prov.set_program(program(F))
    n_sites = 0
    for fnx in F.all_fns():
        if fnx["module"] not in ("elf_bytes", "elf_stream"):
            continue
        anx = analyze_fn(F, fnx)
        for c in anx.calls():
            lf = F.by_id.get(c.callee.get("resolved_id") or c.callee.get("id") or "")
            ins = (lf or {}).get("sig", {}).get("inputs") if lf else None
            is_parse = c.declared_norm == "parse::ParseAt::parse_at" or c.callee_norm.endswith(" as parse::ParseAt>::parse_at")
            if not is_parse and not (ins and len(ins) >= 2 and ins[0] == "E" and ins[1] == "file::Class"):
                continue
            n_sites += 1
            a = [prov.norm(x) for x in c.arg_values()[:2]]
            good = (a[0][0] == "fld" and a[0][2] == "endianness" and a[1][0] == "fld" and a[1][2] == "class" and a[0][1] == a[1][1])
            rep.require(good, "plumbing", "%s|%s" % (fnx["qual"], c.callee_norm), c.where(), "constructed with the file header's endianness and class",
                        "%s creates %s with (%s, %s) instead of the file's own endianness and class (an AnyEndian handle would then decode differently from the matching fixed spec)"
                        % (fnx["qual"], c.callee_norm, prov.show(a[0])[:80], prov.show(a[1])[:80]))
    rep.floor("plumbing", "view/decoder construction sites in the two parsers", n_sites, 30 if "std" in F["config"]["features"] else 15)
    # "AnyEndian gives what the matching fixed spec gives" rests on every spec using the trait's provided read methods (no override) and on
    # is_little agreeing with the variant: C04.  The stream parser hands parse_ident the bytes it read: the I/O protocol (C07 / C17).
    from ._common import premise
    premise(ctx, rep, "C04", "all specs share the provided read methods; is_little matches the variant", where="src/endian.rs")
    if "std" in F["config"]["features"]:
        from ..streamrules import rule_io_protocol
        from ..runner import Report
        subio = Report("C10")
        rule_io_protocol(F, subio)
        rep.require(not subio.violations, "premise", "the stream parser's reads deliver the bytes of the file (I/O protocol)", "src/elf_stream.rs",
                    "seek + read_exact into a buffer of the requested length, cached only after success",
                    "the bytes handed to parse_ident by the stream parser need not be the file's: %s" % "; ".join("%s: %s" % (v.key, v.msg[:140]) for v in subio.violations[:3]))
    rep.trusted_base += ["slice equality / indexing semantics of core", "C04 (no impl overrides a read method; is_little agrees with the variant) for "
                        "'AnyEndian then behaves as the matching fixed spec'"]
