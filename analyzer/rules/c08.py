"""C08 - the stream parser never panics, its allocations are bounded by the stream length, and its reads are lazy."""
from ..census import Census, base_facts
from ..engine import norm as nm, analyze_fn, norm
from ..streamrules import (rule_load_before_get, rule_cache_protocol, rule_io_protocol, stream_fns, is_io_call, wh)
from ..terms import T, Term, pp

REQUIRES = ("std",)
LEVEL = "proof"
RULE_TEXT = ("(a) panic-site census over module elf_stream (as C01) with a typestate rule for the one `expect`: every get_bytes(r) is dominated "
             "by the success edge of load_bytes(r) with no clear_cache in between; (b) every allocating call site is enumerated and its size "
             "operand is dominated by the guard `range.end <= stream_len`, collects consume iterators over already-bounded buffers; "
             "(c) Read/Seek are touched only in CachingReader::{new,load_bytes}; open_stream reads exactly ident, header tail, shdr[0] if "
             "needed and the two tables; every later read site's range is get_data_range(shdr)/get_file_data_range(phdr)")

ALLOC_OK = {
    "default::Default::default": "Vec/HashMap::default allocate nothing",
    "collections::HashMap::new": "an empty map allocates nothing",
    "vec::Vec::new": "an empty vector allocates nothing",
    "clone::Clone::clone": "clones of ranges / integers / shared references: no heap (the module holds no owning value that is cloned)",
    "result::Result::map_err": "moves", "result::Result::map": "moves", "option::Option::ok_or": "moves", "option::Option::map": "moves",
    "vec::Vec::into_boxed_slice": "shrinks in place; no allocation larger than the vector it consumes",
    "collections::HashMap::insert": "one map slot (amortised growth proportional to the number of cached ranges, each of which required a successful read)",
    "collections::HashMap::entry": "as insert: may reserve one map slot for the requested key",
    "collections::hash_map::VacantEntry::insert": "as insert: fills the slot reserved by entry()",
    "collections::HashMap::clear": "frees",
    "collections::HashMap::contains_key": "no allocation",
    "collections::HashMap::get": "no allocation",
    "vec::Vec::is_empty": "no allocation",
    "vec::Vec::as_slice": "no allocation", "vec::Vec::len": "no allocation", "vec::Vec::iter": "no allocation", "vec::Vec::first": "no allocation",
    "vec::Vec::get": "no allocation",
    "ops::Deref::deref": "no allocation",
    "ops::Index::index": "no allocation",
    "convert::From::from": "ParseError::from(io::Error) moves the error",
    "io::Seek::seek": "I/O, no allocation in this crate",
    "io::Read::read_exact": "I/O into a caller-provided buffer",
    "ops::FromResidual::from_residual": "moves the error",
    "ops::Try::branch": "moves",
    "iter::Iterator::find": "no allocation", "[T]::iter": "no allocation", "[T]::get": "no allocation",
    "iter::IntoIterator::into_iter": "no allocation", "iter::Iterator::next": "no allocation",
    "fmt::": "Debug formatting into the caller's Formatter",
}


def in_scope(fn):
    return fn["module"] == "elf_stream"


def run(ctx, rep):
    F = ctx.facts()
    if "std" not in F["config"]["features"]:
        rep.notes.append("elf_stream does not exist without feature std")
        return
    # ------------------------------------------------------------------ (a) panic census + typestate
    base_facts(F, rep)
    n_get = rule_load_before_get(F, rep)
    rule_cache_protocol(F, rep, keys="consistent")
    typestate_ok = not rep.violations

    def extra(fn, an, pv, cs, name):
        if fn["qual"] == "elf_stream::CachingReader::get_bytes" and name == "option::Option::expect" and typestate_ok:
            return ("typestate: all %d call sites of get_bytes are dominated by a successful load_bytes of the same range, "
                    "load_bytes returns Ok only with the key cached, the key form agrees and only open_stream clears the cache" % n_get)
        if name == "vec::from_elem":
            g = alloc_guard(an, cs)
            if g:
                return "allocation size bounded: " + g
        return None

    def extra_panic(fn, an, cs):
        # `let Some(buf) = self.bufs.get(&key) else { panic!(..) }` is the `expect` spelled out
        if fn["qual"] == "elf_stream::CachingReader::get_bytes" and typestate_ok and any(
                f[0] == "var" and f[2] == "None" and f[1].op == "call" and f[1].args[0].endswith("HashMap::get") for f in cs.facts):
            return "typestate: reached only when the cache lookup misses, which the load-before-get rule excludes (%d call sites)" % n_get
        return None

    c = Census(F, rep, "", in_scope)
    c.extra_precondition = extra
    c.extra_panic = extra_panic
    c.run()
    # (the number of trapping operations goes down when plain arithmetic / indexing is replaced by checked forms: the floor guards
    # against the census seeing nothing at all, not against that)
    rep.floor("assert", "census sites in elf_stream (calls + asserts)", sum(v for v in c.counts.values() if isinstance(v, int)), 150)
    rep.floor("assert", "panic-relevant sites in elf_stream (asserts + partial calls)", c.counts["assert"] + c.counts["partial-call"], 1)
    rep.info["site_counts"] = c.counts

    # ------------------------------------------------------------------ (b) allocation sites
    n_alloc = 0
    for fn in stream_fns(F):
        if fn.get("impl") and fn["impl"].get("trait") and "Debug" in fn["impl"]["trait"]:
            continue
        an = analyze_fn(F, fn)
        for cs in an.calls():
            cr = cs.callee.get("resolved_crate") or cs.callee.get("crate")
            name = cs.declared_norm
            generic_alloc = name in ("iter::Iterator::collect", "iter::FromIterator::from_iter", "iter::Extend::extend")
            if (cr in ("core", "compiler_builtins", F["crate"]) and not generic_alloc) or "indirect" in cs.callee:
                continue
            key = "%s|%s" % (fn["qual"], name)
            if name == "vec::from_elem":
                n_alloc += 1
                g = alloc_guard(an, cs)
                rep.require(bool(g), "alloc-bound", key, cs.where(), g or "",
                            "%s allocates vec![_; %s] without a dominating check of the requested end against the stream length"
                            % (fn["qual"], pp(cs.args[1])))
            elif name in ("iter::Iterator::collect", "iter::FromIterator::from_iter"):
                n_alloc += 1
                it = cs.args[0]
                srcs = [x for x in it.subterms() if x.op == "payload" and x.args[1] == "Ok"]
                good = False
                for s in srcs:
                    src = an.call_site_of(s)
                    if src is not None and src.callee_qual == "elf_stream::CachingReader::read_bytes":
                        good = True
                good = good and it.op == "agg" and "ParsingIterator" in (it.args[1] or "")
                rep.require(good, "alloc-bound", key, cs.where(),
                            "collects a ParsingIterator over a buffer returned by read_bytes (<= one entry per entsize bytes of a buffer <= stream length)",
                            "%s collects %s: not an iterator over an already length-checked buffer" % (fn["qual"], pp(it)[:200]))
            else:
                why = None
                for k, v in ALLOC_OK.items():
                    if name == k or (k.endswith("::") and name.startswith(k)):
                        why = v
                rep.require(why is not None, "alloc-bound", key, cs.where(), why or "",
                            "unclassified alloc/std callee %s in %s (may allocate an unbounded amount)" % (name, fn["qual"]))
    rep.floor("alloc-bound", "sized allocation sites (from_elem, collect)", n_alloc, 2)   # 3 on the pinned tree; one shared table reader leaves 2

    # ------------------------------------------------------------------ (c) laziness
    rule_io_protocol(F, rep, "lazy-io")
    check_read_sites(F, rep)
    # the helpers the query read sites take their ranges from yield the header-designated file ranges (not e.g. the memory size)
    from .c03 import range_helpers
    from .. import prov
    from ..engine import program
    prov.set_program(program(F))
    range_helpers(F, rep, "lazy-read-site")
    # the stream parser decodes with the same code as the slice parser (parse / note / hash / gnu_symver / ...): the census above covers
    # module elf_stream; that the shared code it calls does not panic either is C01's census, run here as part of this check
    from ._common import premise
    premise(ctx, rep, "C01", "the decoding code shared with the slice parser has no reachable panic", where="src/")
    rep.trusted_base += ["as C01; std's HashMap/Vec/Box methods listed in ALLOC_OK behave as documented",
                        "an allocation of at most stream-length bytes succeeds (allocation failure on legitimately large streams is out of scope)"]
    rep.assumptions += ["the numeric 'small constant multiple' is not computed: the rule shows each sized allocation <= stream length "
                       "(collect: <= ceil(64/40) x buffer length)"]


def alloc_guard(an, cs):
    """vec::from_elem(x, n): n is the length of the requested range and `range.end <= stream_len` holds at the allocation
    (written as `if end > stream_len { Err }`, `(end <= stream_len).then_some(..).ok_or(..)?`, `stream_len.checked_sub(end)` is Some, ...)"""
    g = _alloc_guard_n(an, cs.args[1], cs.facts)
    if g:
        return g
    # the size is (computed from) a parameter of a private helper (`fetch(start, len)`): the bound is established by its callers
    F = an.F
    fn = an.fn
    if fn.get("reachable_pub") or not any(x.op == "param" for x in cs.args[1].subterms()):
        return None
    from ..engine import program, State
    prog = program(F)
    n_sites = 0
    for cfn in stream_fns(F):
        can = analyze_fn(F, cfn)
        for c in can.calls():
            if (c.callee.get("resolved_id") or c.callee.get("id")) != fn["id"] or c.block not in can.entry:
                continue
            try:
                n2 = prog.subst(can, State(can.exit_env.get(c.block, {}), c.facts), cs.args[1], c.arg_values())
            except KeyError:
                n2 = None
            if n2 is None or not _alloc_guard_n(can, n2, c.facts):
                return None
            n_sites += 1
    if n_sites:
        return "len <= range.end <= self.stream_len at each of the %d call sites of this helper (size passed as a parameter)" % n_sites
    return None


def _alloc_guard_n(an, n, facts):
    from ..prover import Prover
    cs = type("S", (), {"facts": facts})()
    r = None
    if n.op == "call" and n.args[0] == "iter::ExactSizeIterator::len":
        r = n.args[2][0]
        if r.op == "refval":
            r = r.args[0]
        elif r.op == "param" and nm(an.local_ty.get(r.args[0], "")).startswith("&"):
            r = T.deref(r)          # the range is handed to this function by reference
        end = T.proj(r, ("f", 1, "end"))
    elif n.op == "bin" and n.args[0] == "Sub":
        end = n.args[1]
    elif n.op == "call" and n.args[0] == "usize::saturating_sub":
        end = n.args[2][0]
    else:
        return None
    pv = Prover(an)
    sl = [x for f in cs.facts for y in f[1:] if hasattr(y, "subterms") for x in y.subterms() if x.op == "proj" and x.args[1][2] == "stream_len"]
    # ... or a parameter that every caller binds to the reader's stream_len (a free helper function of load_bytes)
    for i in range(1, an.body["arg_count"] + 1):
        if an.names.get(i) == "stream_len" and _bound_to_stream_len(an, i):
            sl.append(T.param(i))
    e64 = T.cast("IntToInt", end, "usize", "u64")
    # `end as u64` may also be written u64::try_from(end)? / end.try_into()?  (value-preserving where it succeeds)
    e64s = [e64] + [T.payload(y, "Ok") for f in cs.facts for z in f[1:] if hasattr(z, "subterms") for y in z.subterms()
                    if y.op == "call" and y.args[0] in ("convert::TryFrom::try_from", "convert::TryInto::try_into") and len(y.args[2]) == 1 and y.args[2][0] is end]
    for slt in {x for x in sl}:
        if any(pv.le(e_, slt, cs.facts) for e_ in e64s):
            return "len(range) <= range.end <= self.stream_len (a guard that fails with an error otherwise dominates the allocation)"
        for f in cs.facts:
            if f[0] == "var" and f[2] == "Some" and f[1].op == "call" and f[1].args[0] == "u64::checked_sub" and f[1].args[2][0] is slt and f[1].args[2][1] is e64:
                return "len(range) <= range.end <= self.stream_len (stream_len.checked_sub(end) succeeded)"
    return None


def _bound_to_stream_len(an, i):
    F = an.F
    sites = 0
    for fn in stream_fns(F):
        for c in analyze_fn(F, fn).calls():
            if (c.callee.get("resolved_id") or c.callee.get("id")) == an.fn["id"]:
                sites += 1
                a = c.args[i - 1] if i - 1 < len(c.args) else None
                if not (a is not None and a.op == "proj" and a.args[1][2] == "stream_len"):
                    return False
    return sites > 0


def check_read_sites(F, rep):
    """provenance of the range of every read_bytes / load_bytes call"""
    p1 = T.param(1)
    n_open = n_query = 0
    OPEN = {"elf_stream::ElfStream::open_stream", "elf_stream::parse_section_headers", "elf_stream::parse_program_headers"}
    BASE_OPEN = frozenset(OPEN)
    # private helpers that only the opening functions call read on their behalf
    from ..engine import program
    prog = program(F)
    callers = {}
    for fn_ in stream_fns(F):
        for cs_ in analyze_fn(F, fn_).calls():
            lf_ = prog.local_fn(cs_.callee)
            if lf_ is not None:
                callers.setdefault(lf_["qual"], set()).add(fn_["qual"])
    grew = True
    while grew:
        grew = False
        for fn_ in stream_fns(F):
            q_ = fn_["qual"]
            if q_ not in OPEN and not prog.known_name(fn_) and fn_["kind"] != "Closure" and callers.get(q_) and callers[q_] <= OPEN:
                OPEN.add(q_)
                grew = True
    RB = "elf_stream::CachingReader::read_bytes"
    # private helpers (of any type in the module) that contain a read site: their call sites are read sites of the caller as well
    reading = {fn_["qual"] for fn_ in stream_fns(F) if fn_["qual"] != RB and not prog.known_name(fn_) and fn_["kind"] != "Closure"
               and any(c_.callee_qual in (RB, "elf_stream::CachingReader::load_bytes") for c_ in analyze_fn(F, fn_).calls())}
    for fn in stream_fns(F):
        an = analyze_fn(F, fn)
        if fn["qual"] == RB:
            # read_bytes(start, end) itself: loads exactly the range it was asked for
            lbs = [c_ for c_ in an.calls() if c_.callee_qual == "elf_stream::CachingReader::load_bytes"]
            want_r = T.agg("adt", "ops::Range", 0, "Range", [T.param(2), T.param(3)])
            if len(fn["sig"].get("inputs", [])) == 2 or len(fn["body"].get("args", [1, 2, 3])) == 2:
                want_r = T.param(2)        # read_bytes(range): loads that very range
            rep.require(len(lbs) == 1 and (lbs[0].args[1] is want_r or lbs[0].args[1] is T.param(2)), "lazy-read-site", RB + "|load_bytes", wh(fn["span"]), "read_bytes(start, end) loads start..end",
                        "read_bytes loads %s, not the range start..end it was asked for" % [pp(c_.args[1])[:120] for c_ in lbs])
            continue
        if fn["qual"] not in OPEN:
            n_query += sum(1 for c_ in an.calls() if (prog.local_fn(c_.callee) or {}).get("qual") in reading)
        for cs in an.calls():
            if cs.callee_qual == "elf_stream::CachingReader::read_bytes":
                from ..prov import read_bytes_bounds
                bnd_ = read_bytes_bounds(cs.args)
                if bnd_ is None:
                    rep.bad("lazy-read-site", "%s|read_bytes" % fn["qual"], cs.where(), "UNRECOGNISED read_bytes call shape")
                    continue
                start, end = bnd_
            elif cs.callee_qual == "elf_stream::CachingReader::load_bytes":
                r = cs.args[1]
                if r.op != "agg":
                    rep.bad("lazy-read-site", "%s|load_bytes" % fn["qual"], cs.where(), "UNRECOGNISED range %s" % pp(r))
                    continue
                start, end = r.args[4]
            else:
                continue
            key = "%s|read(%s, %s)" % (fn["qual"], pp(start)[:90], pp(end)[:90])
            if fn["qual"] in OPEN:
                n_open += 1
                ok, why = open_site_ok(an, start, end)
                if not ok and fn["qual"] not in BASE_OPEN:
                    # a private helper of the opening functions (`read_shdr0(ehdr, reader, shoff)`): the range it reads is judged with
                    # its parameters bound to what each of its callers passes
                    from ..engine import State
                    res = []
                    for cq in sorted(callers.get(fn["qual"], ())):
                        can = analyze_fn(F, F.fn(cq))
                        for c in can.calls():
                            if prog.local_fn(c.callee) is not None and prog.local_fn(c.callee)["qual"] == fn["qual"] and c.block in can.entry:
                                stc = State(can.exit_env.get(c.block, {}), c.facts)
                                try:
                                    s2, e2 = prog.subst(can, stc, start, c.arg_values()), prog.subst(can, stc, end, c.arg_values())
                                except KeyError:
                                    s2 = e2 = None
                                res.append(open_site_ok(can, s2, e2) if s2 is not None and e2 is not None else (False, "arguments of the call in %s not expressible" % cq))
                    if res and all(o for o, _ in res):
                        ok, why = True, "; ".join(sorted({y for _, y in res})) + " (with the arguments of each of its %d call sites)" % len(res)
            else:
                n_query += 1
                ok, why = query_site_ok(start, end)
                if not ok:
                    # the range may be a merge of the ranges of several headers (`let range = if .. {shdr range} else {phdr range}`):
                    # judge the value it has on each path through the function that reaches this read
                    vals = site_values(an, cs, (start, end))
                    if vals:
                        res = [query_site_ok(s_, e_) for s_, e_ in vals]
                        if all(o for o, _ in res):
                            ok, why = True, "; ".join(sorted({y for _, y in res})) + " (on each of %d paths)" % len(vals)
            rep.require(ok, "lazy-read-site", key, cs.where(), why, "%s reads [%s, %s): %s" % (fn["qual"], pp(start)[:120], pp(end)[:120], why))
    rep.floor("lazy-read-site", "read sites while opening", n_open, 4)     # 6 on the pinned tree; sharing the shdr[0] read between the two table parsers leaves 4-5
    rep.floor("lazy-read-site", "read sites in queries", n_query, 14)


def site_values(an, cs, terms):
    """the distinct values the argument terms of call site cs take along the acyclic paths of the function (None: not enumerable)"""
    ps = an.paths()
    if ps is None:
        return None
    idx = [i for i, a in enumerate(cs.args) for t in terms if a is t]
    out = []
    for _, st, calls in ps:
        for c in calls:
            if c.block == cs.block and c.callee_qual == cs.callee_qual:
                if cs.callee_qual.endswith("load_bytes"):
                    r = an.simp(c.args[1], st.facts)
                    v = tuple(r.args[4]) if r.op == "agg" else None
                else:
                    v = (an.simp(c.args[1], st.facts), an.simp(c.args[2], st.facts))
                if v is None:
                    return None
                if v not in out:
                    out.append(v)
    return out


def query_site_ok(start, end):
    for f in ("section::SectionHeader::get_data_range", "segment::ProgramHeader::get_file_data_range"):
        if (start.op == "proj" and end.op == "proj" and start.args[0] is end.args[0] and start.args[1][:2] == ("f", 0)
                and end.args[1][:2] == ("f", 1) and start.args[0].op == "payload" and start.args[0].args[1] == "Ok"
                and start.args[0].args[0].op == "call" and start.args[0].args[0].args[0] == f):
            return True, "range = %s(header) of one header" % f.split("::")[-1]
    return False, "the range is not the data range designated by one section/program header"


def const_values(an, t, depth=0):
    """the set of integers a term built from constants, merges and additions can take; None if it is anything else"""
    if depth > 8:
        return None
    if t.op == "const" and isinstance(t.args[1], int):
        return {t.args[1]}
    if t.op == "phi" and t in an.phi_ops:
        out = set()
        for v in an.phi_ops[t].values():
            s_ = const_values(an, v, depth + 1)
            if s_ is None:
                return None
            out |= s_
        return out
    if t.op == "proj" and t.args[1][:2] == ("f", 0) and t.args[0].op == "bin" and t.args[0].args[0] == "AddWithOverflow":
        t = T.bin("Add", t.args[0].args[1], t.args[0].args[2], t.args[0].args[3]) if False else t.args[0]
        a, b = const_values(an, t.args[1], depth + 1), const_values(an, t.args[2], depth + 1)
        return None if a is None or b is None else {x + y for x in a for y in b}
    if t.op == "bin" and t.args[0] == "Add":
        a, b = const_values(an, t.args[1], depth + 1), const_values(an, t.args[2], depth + 1)
        return None if a is None or b is None else {x + y for x in a for y in b}
    if t.op == "payload" and t.args[1] == "Some" and t.args[0].op == "call" and t.args[0].args[0].endswith("::checked_add") and len(t.args[0].args[2]) == 2:
        a, b = const_values(an, t.args[0].args[2][0], depth + 1), const_values(an, t.args[0].args[2][1], depth + 1)
        return None if a is None or b is None else {x + y for x in a for y in b}
    if t.op in ("mterm", "ite"):
        arms = [a for _, a in t.args[1]] if t.op == "mterm" else [t.args[1], t.args[2]]
        out = set()
        for a in arms:
            s_ = const_values(an, a, depth + 1)
            if s_ is None:
                return None
            out |= s_
        return out
    return None


def open_site_ok(an, start, end):
    """allowed while opening: [0,16), [16,16+tail), [shoff, shoff+entsize|size_for), [shoff, shoff+entsize*shnum), [phoff, phoff+entsize*phnum)"""
    c = lambda v: T.const("usize", v)
    if start is c(0) and end is c(16):
        return True, "ident"
    if start is c(16):
        if const_values(an, end) == {16 + 36, 16 + 48}:
            return True, "header tail (36 / 48 bytes by class)"
        return False, "header tail end is not 16+36 / 16+48"
    # table reads: start = e_shoff | e_phoff (converted to usize), end = start + X in checked arithmetic (normal forms: conversions,
    # `?` plumbing and helper functions do not matter; a clamp or an unchecked operation would show)
    from ..prov import norm as pnorm
    sn, en = pnorm(start), pnorm(end)
    if sn[0] == "fld" and sn[2] in ("e_shoff", "e_phoff") and en[0] == "+" and sn in en[1:]:
        other = [x for x in en[1:] if x != sn]
        return True, "table read at %s with checked size %s" % (sn[2], str(other[0] if other else sn)[:80])
    return False, "not one of: ident, header tail, shdr[0], section header table, program header table"
