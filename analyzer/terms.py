"""Hash-consed value terms for the MIR value engine.

A term denotes an immutable run-time *value*.  Structural equality of terms (== identity, thanks to
interning) implies equality of the values they denote on every execution that reaches both
definitions within one activation of the function (symbols defined inside loops are re-instantiated
per iteration; the engine handles that when it merges states at loop headers)."""

INT_BITS = {"u8": 8, "u16": 16, "u32": 32, "u64": 64, "u128": 128, "usize": 64,
            "i8": 8, "i16": 16, "i32": 32, "i64": 64, "i128": 128, "isize": 64, "bool": 1, "char": 32}
SIGNED = {"i8", "i16", "i32", "i64", "i128", "isize"}
# types whose width depends on the target (assumed 32 or 64 bits): no rule may rely on their exact width
PTR_SIZED = {"usize", "isize"}


class Term:
    __slots__ = ("op", "args", "_hash", "_syms", "_skey", "_tree", "__weakref__")
    _pool = {}

    def __new__(cls, op, *args):
        key = (op,) + args
        t = cls._pool.get(key)
        if t is None:
            t = object.__new__(cls)
            t.op = op
            t.args = args
            t._hash = hash(key)
            t._syms = None
            t._skey = None
            t._tree = None
            cls._pool[key] = t
        return t

    def __hash__(self):
        return self._hash

    def __eq__(self, other):
        return self is other

    def __ne__(self, other):
        return self is not other

    def __repr__(self):
        return pp(self)

    # ---- structure helpers -----------------------------------------------------------
    def children(self):
        for a in self.args:
            if isinstance(a, Term):
                yield a
            elif isinstance(a, tuple):
                for x in _walk_tuple(a):
                    yield x

    def syms(self):
        """set of defining blocks of all symbols (fresh / phi) mentioned"""
        if self._syms is None:
            s = set()
            if self.op in ("fresh", "phi"):
                s.add(self.args[0])  # (fn_id, block)
            elif self.op in ("iternext", "iterstate"):
                s.add(self.args[1])  # defined at the site of the `next` call
            for c in self.children():
                s |= c.syms()
            self._syms = frozenset(s)
        return self._syms

    def mentions(self, other):
        if self is other:
            return True
        return any(c.mentions(other) for c in self.children())

    def subterms(self):
        seen = set()
        stack = [self]
        while stack:
            t = stack.pop()
            if t in seen:
                continue
            seen.add(t)
            yield t
            stack.extend(t.children())

    def has_tree(self):
        """does the term contain a decision node (mterm / ite)?"""
        if self._tree is None:
            self._tree = self.op in ("mterm", "ite") or any(c.has_tree() for c in self.children())
        return self._tree

    def is_const(self):
        return self.op == "const"

    def const_val(self):
        return self.args[1] if self.op == "const" else None

    def is_ref_to_param(self, i):
        """&param_i (a reference to the by-value parameter local) or the parameter itself when it is a reference"""
        t = self
        if t.op == "ref" and t.args[0] == ("L", i) and t.args[1] == ():
            return True
        if t.op == "refval" and t.args[0] is T.param(i):
            return True
        return False


def _walk_tuple(a):
    for x in a:
        if isinstance(x, Term):
            yield x
        elif isinstance(x, tuple):
            for y in _walk_tuple(x):
                yield y


def wrap(val, ty):
    b = INT_BITS.get(ty)
    if b is None:
        return val
    m = 1 << b
    val %= m
    if ty in SIGNED and val >= m >> 1:
        val -= m
    return val


class T:
    """term constructors (with local simplification)"""

    @staticmethod
    def const(ty, val):
        return Term("const", ty, wrap(val, ty) if isinstance(val, int) else val)

    @staticmethod
    def cbytes(b):
        return Term("bytes", bytes(b))

    @staticmethod
    def param(i):
        return Term("param", i)

    @staticmethod
    def fresh(site, tag, ty=None):
        # site = (fn_id, block); tag distinguishes several symbols of one site
        return Term("fresh", site, tag, ty)

    @staticmethod
    def phi(site, key):
        return Term("phi", site, key)

    @staticmethod
    def undef(n):
        return Term("undef", n)

    @staticmethod
    def ref(root, path):
        return Term("ref", root, path)

    @staticmethod
    def refval(v):
        """a shared reference whose pointee value is v (pointer identity abstracted away)"""
        return Term("refval", v)

    @staticmethod
    def deref(p):
        if p.op == "refval":
            return p.args[0]
        return Term("deref", p)

    @staticmethod
    def proj(t, elem):
        # elem: ('f', idx, name) | ('v', idx, name) | ('idx', term) | ('cidx', off, from_end) | ('sub', from, to, from_end)
        k = elem[0]
        if t.op in ("mterm", "ite") and k in ("f", "v"):
            return _dist(t, lambda a: T.proj(a, elem))
        if t.op == "agg":
            kind, adt, vidx, vname, fields = t.args
            if k == "v":
                if elem[2] is not None and vname is not None and elem[2] != vname:
                    return Term("proj", t, elem)  # impossible downcast; keep symbolic
                return t
            if k == "f" and elem[1] < len(fields):
                return fields[elem[1]]
        if t.op == "upd":
            base, overlays = t.args
            for rel, val in overlays:
                if rel == (elem,):
                    return val
            rest = tuple((rel[1:], val) for rel, val in overlays if len(rel) > 1 and rel[0] == elem)
            b = T.proj(base, elem)
            if rest:
                return Term("upd", b, rest)
            # overlay on a different field: unaffected
            if all(rel[0] != elem for rel, _ in overlays):
                return b
        if k == "f" and elem[1] == 0 and t.op == "proj" and t.args[1][0] == "v":
            # payload of a single-field variant: normalise to payload(base, vname)
            base, (_, vidx, vname) = t.args
            if vname in ("Some", "Ok", "Err", "Continue", "Break"):
                return T.payload(base, vname)
        if k == "idx" and t.op == "deref" and elem[1].op == "const" and isinstance(elem[1].args[1], int):
            # element k of a successful prefix / sub-range view of a slice is an element of the slice itself:
            # x.get(..n)?[k] = x[k] (k < n), x.get(a..b)?[k] = x[a + k] (a + k < b), x.first_chunk::<N>()?[k] = x[k]
            v = t.args[0]
            if v.op == "unsize" and isinstance(v.args[1], int) and elem[1].args[1] < v.args[1]:
                # element k (k < N) of `&[T; N]` viewed as a slice is element k of the array
                return T.proj(T.deref(v.args[0]), elem)
            if v.op == "payload" and v.args[1] == "Some" and v.args[0].op == "call":
                c = v.args[0]
                kk = elem[1].args[1]
                if c.args[0] == "[T]::get" and len(c.args[2]) == 2 and c.args[2][1].op == "agg":
                    r = c.args[2][1]
                    if r.args[1] == "ops::RangeTo" and r.args[4][0].op == "const" and kk < r.args[4][0].args[1]:
                        return T.proj(T.deref(c.args[2][0]), elem)
                    if r.args[1] == "ops::Range" and r.args[4][0].op == "const" and r.args[4][1].op == "const" and r.args[4][0].args[1] + kk < r.args[4][1].args[1]:
                        return T.proj(T.deref(c.args[2][0]), ("idx", T.const("usize", r.args[4][0].args[1] + kk)))
                if c.args[0] == "[T]::first_chunk" and len(c.args[2]) == 1:
                    return T.proj(T.deref(c.args[2][0]), elem)
            if v.op == "payload" and v.args[1] == "Ok" and v.args[0].op == "call" and len(v.args[0].args[2]) == 1 \
                    and v.args[0].args[0] in ("convert::TryInto::try_into", "convert::TryFrom::try_from"):
                # <&[T; N]>::try_from(slice)?[k] = slice[k] (the conversion succeeded, so the slice has exactly N elements; k < N is
                # checked statically for arrays)
                src = v.args[0].args[2][0]
                if src.op in ("payload", "refval", "param") or (src.op == "call" and src.args[0] == "ops::Index::index"):
                    return T.proj(T.deref(src), elem)
        return Term("proj", t, elem)

    @staticmethod
    def payload(t, vname):
        # Try::branch / ok_or / aggregates
        if t.op in ("mterm", "ite"):
            r = _payload_tree(t, vname)
            return r if r is not NEVER else Term("payload", t, vname)
        if t.op == "agg":
            kind, adt, vidx, an, fields = t.args
            if an == vname and len(fields) == 1:
                return fields[0]
        if t.op == "call":
            f = t.args[0]
            a = t.args[2]
            if f == "ops::Try::branch":
                inner = a[0]
                ity = t.args[1][0] if t.args[1] else ""
                is_opt = ity.startswith("option::Option")
                if vname == "Continue":
                    return T.payload(inner, "Some" if is_opt else "Ok")
                if vname == "Break":
                    return Term("residual", inner)
            if f == "option::Option::ok_or":
                if vname == "Ok":
                    return T.payload(a[0], "Some")
                if vname == "Err":
                    return a[1]
            if f == "option::Option::ok_or_else" and vname == "Ok":
                return T.payload(a[0], "Some")
            if f == "result::Result::ok":
                if vname == "Some":
                    return T.payload(a[0], "Ok")
            if f == "result::Result::map_err":
                if vname == "Ok":
                    return T.payload(a[0], "Ok")
        return Term("payload", t, vname)

    @staticmethod
    def agg(kind, adt, vidx, vname, fields):
        return Term("agg", kind, adt, vidx, vname, tuple(fields))

    # ---- decision nodes: the value of a callee (or combinator) described by cases -------------------------------
    @staticmethod
    def mterm(x, arms):
        """the arm selected by the variant of x; arms = ((variant name, term), ...) (variants that cannot occur may be missing)"""
        arms = tuple(sorted(arms, key=lambda a: a[0]))
        if x.op == "agg" and x.args[0] == "adt" and x.args[3] is not None:
            for v, t in arms:
                if v == x.args[3]:
                    return t
        if x.op in ("mterm", "ite"):
            # scrutinee is itself a case split: push this selection into its arms
            return _dist(x, lambda a: T.mterm(a, arms))
        if len(arms) == 1:
            return arms[0][1]
        if arms and all(t is arms[0][1] for _, t in arms):
            return arms[0][1]
        return Term("mterm", x, arms)

    @staticmethod
    def ite(c, a, b):
        if c.op == "const":
            return a if c.args[1] else b
        if a is b:
            return a
        if c.op == "un" and c.args[0] == "Not":
            return T.ite(c.args[1], b, a)
        return Term("ite", c, a, b)

    @staticmethod
    def call(fkey, generics, args):
        args = tuple(args)
        if fkey == "option::Option::ok_or" and len(args) == 2 and args[0].op == "agg" and args[0].args[1] == "option::Option":
            if args[0].args[3] == "Some":
                return T.agg("adt", "result::Result", 0, "Ok", [args[0].args[4][0]])
            return T.agg("adt", "result::Result", 1, "Err", [args[1]])
        if fkey in ("option::Option::unwrap", "option::Option::expect", "result::Result::unwrap", "result::Result::expect") and args \
                and args[0].op == "agg" and args[0].args[3] in ("Some", "Ok") and args[0].args[4]:
            return args[0].args[4][0]       # unwrap of a value that is visibly Some / Ok
        return Term("call", fkey, tuple(generics), args)

    @staticmethod
    def discr(t):
        if t.op == "agg" and t.args[0] == "adt":
            return T.const("isize", t.args[2])
        if t.op in ("mterm", "ite"):
            return _dist(t, T.discr)
        return Term("discr", t)

    @staticmethod
    def length(t):
        # length of the slice a fat pointer designates
        if t.op == "bytes":
            return T.const("usize", len(t.args[0]))
        if t.op == "unsize":
            return T.const("usize", t.args[1])
        if t.op == "call" and t.args[0] in ("ops::Index::index", "ops::IndexMut::index_mut") and len(t.args[2]) == 2 and t.args[2][1].op == "agg":
            # s[..k] has length k, s[a..b] has length b - a (the indexing returned, so the range was in bounds)
            r = t.args[2][1]
            if r.args[1] == "ops::RangeTo":
                return r.args[4][0]
            if r.args[1] == "ops::Range":
                return T.bin("Sub", r.args[4][1], r.args[4][0], "usize")
        if t.op == "payload" and t.args[1] == "Some" and t.args[0].op == "call" and t.args[0].args[0] == "[T]::get" and len(t.args[0].args[2]) == 2 \
                and t.args[0].args[2][1].op == "agg":
            # x.get(..n)? has length n, x.get(a..b)? has length b - a (the lookup succeeded, so the range was in bounds)
            r = t.args[0].args[2][1]
            if r.args[1] == "ops::RangeTo":
                return r.args[4][0]
            if r.args[1] == "ops::Range":
                return T.bin("Sub", r.args[4][1], r.args[4][0], "usize")
        if t.op == "proj" and t.args[1][0] == "f" and t.args[0].op == "call" and t.args[0].args[0] == "[T]::split_at":
            s, m = t.args[0].args[2]
            if t.args[1][1] == 0:
                return m  # the first half of split_at(s, mid) has length mid (the call returned, so mid <= len)
        return Term("len", t)

    @staticmethod
    def cast(kind, t, frm, to):
        if kind == "IntToInt" and t.op == "const" and to in INT_BITS and isinstance(t.args[1], int):
            v = t.args[1]
            if frm in INT_BITS and frm not in SIGNED:
                v %= 1 << INT_BITS[frm]
            return T.const(to, v)
        if kind == "IntToInt" and frm == to:
            return t
        if kind.startswith("PointerCoercion(Unsize"):
            # &[T; N] -> &[T]
            n = None
            import re
            m = re.match(r"&(?:'\w+ )?(?:mut )?\[.*; (\d+)\]$", frm)
            if m:
                n = int(m.group(1))
                return Term("unsize", t, n)
            return Term("cast", kind, t, frm, to)
        if kind in ("PtrToPtr", "Transmute") and False:
            return t
        return Term("cast", kind, t, frm, to)

    @staticmethod
    def un(op, x, ty):
        if op == "Not":
            if x.op == "const":
                if ty == "bool":
                    return T.const("bool", 0 if x.args[1] else 1)
                return T.const(ty, ~x.args[1])
            if x.op == "un" and x.args[0] == "Not":
                return x.args[1]
        if op == "Neg" and x.op == "const":
            return T.const(ty, -x.args[1])
        if op == "PtrMetadata":
            return T.length(x)
        return Term("un", op, x, ty)

    @staticmethod
    def bin(op, a, b, ty):
        """ty = operand type. WithOverflow ops give a (value, overflowed) tuple term."""
        ca, cb = a.const_val() if a.op == "const" else None, b.const_val() if b.op == "const" else None
        bits = INT_BITS.get(ty)
        base = op[:-len("WithOverflow")] if op.endswith("WithOverflow") else (op[:-len("Unchecked")] if op.endswith("Unchecked") else op)
        if isinstance(ca, int) and isinstance(cb, int) and bits:
            r = None
            try:
                if base == "Add":
                    r = ca + cb
                elif base == "Sub":
                    r = ca - cb
                elif base == "Mul":
                    r = ca * cb
                elif base == "Div" and cb != 0:
                    r = abs(ca) // abs(cb) * (1 if (ca < 0) == (cb < 0) else -1)
                elif base == "Rem" and cb != 0:
                    r = abs(ca) % abs(cb) * (1 if ca >= 0 else -1)
                elif base == "BitAnd":
                    r = ca & cb
                elif base == "BitOr":
                    r = ca | cb
                elif base == "BitXor":
                    r = ca ^ cb
                elif base == "Shl" and 0 <= cb < bits:
                    r = ca << cb
                elif base == "Shr" and 0 <= cb < bits:
                    r = ca >> cb
                elif base in ("Eq", "Ne", "Lt", "Le", "Gt", "Ge"):
                    rr = {"Eq": ca == cb, "Ne": ca != cb, "Lt": ca < cb, "Le": ca <= cb, "Gt": ca > cb, "Ge": ca >= cb}[base]
                    return T.const("bool", 1 if rr else 0)
            except (OverflowError, ValueError):
                r = None
            if r is not None:
                if op.endswith("WithOverflow"):
                    # the fold is only width-independent when the exact result fits the narrowest possible width
                    lo, hi = (-(1 << (bits - 1)), (1 << (bits - 1)) - 1) if ty in SIGNED else (0, (1 << bits) - 1)
                    if ty in PTR_SIZED:
                        lo, hi = (-(1 << 31), (1 << 31) - 1) if ty in SIGNED else (0, (1 << 32) - 1)
                    ov = not (lo <= r <= hi)
                    if ty in PTR_SIZED and ov:
                        return Term("bin", op, a, b, ty)
                    return T.agg("tuple", None, 0, None, [T.const(ty, r), T.const("bool", 1 if ov else 0)])
                if ty in PTR_SIZED and not (0 <= r < (1 << 31)) and base in ("Add", "Sub", "Mul", "Shl"):
                    return Term("bin", op, a, b, ty)
                return T.const(ty, r)
        # (x + c1) + c2  ->  x + (c1 + c2)   (plain Add only: the checked form keeps its own overflow flag)
        if op == "Add" and b.op == "const" and a.op == "bin" and a.args[0] == "Add" and a.args[2].op == "const" and a.args[3] == ty:
            return T.bin("Add", a.args[1], T.const(ty, a.args[2].args[1] + b.args[1]), ty)
        if op in ("BitAnd", "BitOr", "BitXor") and bits:
            for x_, k_ in ((a, cb), (b, ca)):
                if k_ == 0 and isinstance(k_, int):
                    return T.const(ty, 0) if op == "BitAnd" else x_       # x & 0 = 0 ; x | 0 = x ^ 0 = x
        if base in ("Eq", "Ne") and op == base:
            r = _struct_eq(a, b, 0)
            if r is not None:
                return r if base == "Eq" else T.un("Not", r, "bool")
        if base in ("Eq", "Le", "Ge") and a is b:
            return T.const("bool", 1)
        if base in ("Ne", "Lt", "Gt") and a is b:
            return T.const("bool", 0)
        # canonical operand order for commutative ops
        if base in ("Add", "Mul", "BitAnd", "BitOr", "BitXor", "Eq", "Ne") and not op.endswith("WithOverflow"):
            if _order(b) < _order(a):
                a, b = b, a
        if base == "Gt":
            return Term("bin", "Lt", b, a, ty)
        if base == "Ge":
            return Term("bin", "Le", b, a, ty)
        return Term("bin", op, a, b, ty)


NEVER = Term("never")


def _struct_eq(a, b, d):
    """a == b for values whose shape is known: two constructor applications are equal iff the constructors agree and the fields are
    equal; equality distributes over a decision node (`if c {A} else {B}` == K).  Returns a bool-valued term, or None when the
    comparison is not structural (left to the generic Eq term)."""
    if d > 6:
        return None
    TRUE, FALSE = T.const("bool", 1), T.const("bool", 0)
    for x, y in ((a, b), (b, a)):
        if x.op in ("ite", "mterm") and (y.op in ("agg", "const") and not y.has_tree()):
            arms = []
            for arm in ([x.args[1], x.args[2]] if x.op == "ite" else [v for _, v in x.args[1]]):
                r = T.const("bool", 1) if arm is y else _struct_eq(arm, y, d + 1)
                if r is None:
                    return None
                arms.append(r)
            if x.op == "ite":
                return _bool_ite(x.args[0], arms[0], arms[1])
            return T.mterm(x.args[0], tuple((v, r) for (v, _), r in zip(x.args[1], arms)))
    if a.op == "agg" and b.op == "agg" and a.args[0] == "adt" and b.args[0] == "adt" and a.args[1] == b.args[1]:
        if a.args[3] != b.args[3]:
            return FALSE
        if len(a.args[4]) != len(b.args[4]):
            return None
        acc = TRUE
        for p, q in zip(a.args[4], b.args[4]):
            r = TRUE if p is q else _struct_eq(p, q, d + 1)
            if r is None:
                if p.op == "const" and q.op == "const":
                    r = TRUE if p.args == q.args else FALSE
                else:
                    return None
            if r is FALSE:
                return FALSE
            if r is not TRUE:
                if acc is not TRUE:
                    return None
                acc = r
        return acc
    if a.op == "const" and b.op == "const" and a.args[0] == b.args[0]:
        return TRUE if a.args[1] == b.args[1] else FALSE
    return None


def _bool_ite(c, x, y):
    TRUE, FALSE = T.const("bool", 1), T.const("bool", 0)
    if x is y:
        return x
    if x is TRUE and y is FALSE:
        return c
    if x is FALSE and y is TRUE:
        return T.un("Not", c, "bool")
    return T.ite(c, x, y)


def _dist(t, f):
    """apply f to every arm of a decision node"""
    if t.op == "mterm":
        return T.mterm(t.args[0], tuple((v, f(a)) for v, a in t.args[1]))
    return T.ite(t.args[0], f(t.args[1]), f(t.args[2]))


def _payload_tree(t, vn):
    """payload `vn` of a decision tree whose value is known to be variant vn: arms that are a different variant are impossible"""
    if t.op == "mterm":
        arms = [(v, _payload_tree(a, vn)) for v, a in t.args[1]]
        arms = [(v, a) for v, a in arms if a is not NEVER]
        if not arms:
            return NEVER
        return T.mterm(t.args[0], tuple(arms))
    if t.op == "ite":
        a, b = _payload_tree(t.args[1], vn), _payload_tree(t.args[2], vn)
        if a is NEVER:
            return b
        if b is NEVER:
            return a
        return T.ite(t.args[0], a, b)
    if t.op == "agg" and t.args[0] == "adt" and t.args[3] is not None and t.args[3] != vn:
        return NEVER
    return T.payload(t, vn)


def _skey_of(x):
    if isinstance(x, Term):
        if x._skey is None:
            x._skey = (x.op,) + tuple(_skey_of(a) for a in x.args)
        return x._skey
    if isinstance(x, tuple):
        return ("(",) + tuple(_skey_of(a) for a in x)
    return ("#", type(x).__name__, repr(x))


def _order(t):
    """deterministic (run-independent) operand order for commutative operations; constants last"""
    return (0 if t.op != "const" else 1, repr(_skey_of(t)))


# ------------------------------------------------------------------------------- printing

def pp_path(path):
    s = ""
    for e in path:
        if e[0] == "f":
            s += ".%s" % (e[2] if e[2] is not None else e[1])
        elif e[0] == "v":
            s += " as %s" % (e[2] if e[2] is not None else e[1])
        elif e[0] == "idx":
            s += "[%s]" % pp(e[1])
        elif e[0] == "cidx":
            s += "[%s%d]" % ("-" if e[2] else "", e[1])
        else:
            s += ".<%s>" % (e,)
    return s


def pp_root(r):
    if r[0] == "L":
        return "_%d" % r[1]
    return "*(%s)" % pp(r[1])


def pp(t, depth=0):
    if not isinstance(t, Term):
        return repr(t)
    if depth > 12:
        return "..."
    op, a = t.op, t.args
    d = depth + 1
    if op == "const":
        return "%s_%s" % (a[1], a[0])
    if op == "bytes":
        return "b%r" % (a[0],)
    if op == "param":
        return "p%d" % a[0]
    if op == "fresh":
        return "fresh(bb%s:%s)" % (a[0][1], a[1])
    if op == "phi":
        return "phi(bb%s:%s)" % (a[0][1], pp_root(a[1][0]) + pp_path(a[1][1]) if isinstance(a[1], tuple) and len(a[1]) == 2 and isinstance(a[1][0], tuple) else a[1])
    if op == "undef":
        return "undef(_%d)" % a[0]
    if op == "ref":
        return "&%s%s" % (pp_root(a[0]), pp_path(a[1]))
    if op == "refval":
        return "&val(%s)" % pp(a[0], d)
    if op == "deref":
        return "*%s" % pp(a[0], d)
    if op == "proj":
        return "%s%s" % (pp(a[0], d), pp_path((a[1],)))
    if op == "payload":
        return "%s!%s" % (pp(a[0], d), a[1])
    if op == "residual":
        return "residual(%s)" % pp(a[0], d)
    if op == "agg":
        kind, adt, vidx, vname, fields = a
        nm = "%s::%s" % (adt, vname) if adt else kind
        return "%s(%s)" % (nm, ", ".join(pp(f, d) for f in fields))
    if op == "call":
        return "%s(%s)" % (a[0], ", ".join(pp(x, d) for x in a[2]))
    if op == "discr":
        return "discr(%s)" % pp(a[0], d)
    if op == "len":
        return "len(%s)" % pp(a[0], d)
    if op == "unsize":
        return "unsize(%s, %d)" % (pp(a[0], d), a[1])
    if op == "cast":
        return "(%s as %s)" % (pp(a[1], d), a[3])
    if op == "un":
        return "%s(%s)" % (a[0], pp(a[1], d))
    if op == "bin":
        return "%s(%s, %s)" % (a[0], pp(a[1], d), pp(a[2], d))
    if op == "mterm":
        return "match %s {%s}" % (pp(a[0], d), ", ".join("%s => %s" % (v, pp(x, d)) for v, x in a[1]))
    if op == "ite":
        return "if %s {%s} else {%s}" % (pp(a[0], d), pp(a[1], d), pp(a[2], d))
    if op == "upd":
        return "upd(%s; %s)" % (pp(a[0], d), ", ".join("%s=%s" % (pp_path(r), pp(v, d)) for r, v in a[1]))
    return "%s(%s)" % (op, ", ".join(pp(x, d) if isinstance(x, Term) else repr(x) for x in a))


def rebuild(t, mapping, memo=None):
    """structurally rebuild t with the sub-terms in `mapping` replaced (constructors re-simplify)"""
    if memo is None:
        memo = {}

    def go(x):
        if not isinstance(x, Term):
            if isinstance(x, tuple):
                return tuple(go(y) for y in x)
            return x
        if x in mapping:
            return mapping[x]
        r = memo.get(x)
        if r is not None:
            return r
        op, a = x.op, x.args
        if op in ("const", "bytes", "param", "fresh", "phi", "undef", "zst", "fnptr", "opaque"):
            r = x
        elif op == "deref":
            r = T.deref(go(a[0]))
        elif op == "proj":
            r = T.proj(go(a[0]), go(a[1]))
        elif op == "payload":
            r = T.payload(go(a[0]), a[1])
        elif op == "agg":
            r = T.agg(a[0], a[1], a[2], a[3], [go(f) for f in a[4]])
        elif op == "call":
            r = T.call(a[0], a[1], [go(y) for y in a[2]])
        elif op == "discr":
            r = T.discr(go(a[0]))
        elif op == "len":
            r = T.length(go(a[0]))
        elif op == "cast":
            r = T.cast(a[0], go(a[1]), a[2], a[3])
        elif op == "un":
            r = T.un(a[0], go(a[1]), a[2])
        elif op == "bin":
            r = T.bin(a[0], go(a[1]), go(a[2]), a[3])
        elif op == "refval":
            r = T.refval(go(a[0]))
        elif op == "mterm":
            r = T.mterm(go(a[0]), tuple((v, go(y)) for v, y in a[1]))
        elif op == "ite":
            r = T.ite(go(a[0]), go(a[1]), go(a[2]))
        elif op == "ref":
            r = Term("ref", go(a[0]), go(a[1]))
        elif op == "classsel":
            c_ = go(a[0])
            if c_.op == "agg" and c_.args[3] in ("ELF32", "ELF64"):
                r = go(a[1] if c_.args[3] == "ELF32" else a[2])
            else:
                r = Term("classsel", c_, go(a[1]), go(a[2]))
        else:
            r = Term(op, *[go(y) for y in a])
        memo[x] = r
        return r

    return go(t)
