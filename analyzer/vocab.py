"""Vocabulary: the in-crate function names the rules speak in.

A function whose name occurs in a string literal of the analyzer is kept as a *named call* in value terms (rules match
on it); every other in-crate function - in particular a helper introduced by a refactoring - is replaced by its
decision-tree summary, so that extracting or inlining private helpers does not change what the rules see."""
import io, os, re, tokenize

_NAMES = None


def _load():
    global _NAMES
    names = set()
    here = os.path.dirname(os.path.abspath(__file__))
    files = [os.path.join(here, f) for f in os.listdir(here) if f.endswith(".py")]
    files += [os.path.join(here, "rules", f) for f in os.listdir(os.path.join(here, "rules")) if f.endswith(".py")]
    for f in sorted(files):
        if f.endswith("vocab.py"):
            continue
        try:
            src = open(f, "rb").read()
            for tok in tokenize.tokenize(io.BytesIO(src).readline):
                if tok.type == tokenize.STRING:
                    for w in re.findall(r"[A-Za-z_][A-Za-z0-9_]*", tok.string):
                        names.add(w)
        except (tokenize.TokenError, SyntaxError):
            continue
    _NAMES = names


def is_known(qual):
    if _NAMES is None:
        _load()
    last = re.sub(r"[<>{}#]", "", qual.split("::")[-1])
    return last in _NAMES
