"""Vocabulary: the in-crate function names the rules speak in.

A function the rules name is kept as a *named call* in value terms (rules match on it); every other private in-crate function -
in particular a helper introduced by a refactoring - is replaced by its decision-tree summary, so that extracting or inlining
private helpers does not change what the rules see.

A function counts as named when a string literal of the analyzer contains a path ending in its last two path segments
(`ElfStream::get_symbol_table_of_type`), or its full name, or when a literal is exactly its bare name (method names listed in
tables from which full names are built)."""
import ast, io, os, re, tokenize

# functions that stay a named call however they are written (the lookup rules C11/C12 state linkage in terms of `hash(name)`;
# what the hash functions compute is judged separately by the hash-function rule)
KEEP_CALL = {"hash::gnu_hash", "hash::sysv_hash"}

_PATHS = None
_EXACT = None


def _clean(s):
    return re.sub(r"[<>{}#&' ]", "", s)


def _load():
    global _PATHS, _EXACT
    paths, exact = set(), set()
    here = os.path.dirname(os.path.abspath(__file__))
    files = [os.path.join(here, f) for f in os.listdir(here) if f.endswith(".py")]
    files += [os.path.join(here, "rules", f) for f in os.listdir(os.path.join(here, "rules")) if f.endswith(".py")]
    for f in sorted(files):
        if f.endswith("vocab.py"):
            continue
        try:
            src = open(f, "rb").read()
            for tok in tokenize.tokenize(io.BytesIO(src).readline):
                if tok.type != tokenize.STRING:
                    continue
                try:
                    val = ast.literal_eval(tok.string)
                except (ValueError, SyntaxError):
                    continue
                if not isinstance(val, str):
                    continue
                if re.fullmatch(r"[A-Za-z_][A-Za-z0-9_]*", val):
                    exact.add(val)
                for w in re.findall(r"[A-Za-z_<][A-Za-z0-9_:<> ,'&]*::[A-Za-z_][A-Za-z0-9_]*", val):
                    segs = [x for x in _clean(w).split("::") if x]
                    # trait-qualified names: `<X as a::Trait>::m` cleans to `XasaTrait::m`; keep the trait's last segment too
                    m = re.search(r"([A-Za-z_][A-Za-z0-9_]*)>::([A-Za-z_][A-Za-z0-9_]*)$", w)
                    if m:
                        paths.add(m.group(1) + "::" + m.group(2))
                    if len(segs) >= 2:
                        paths.add("::".join(segs[-2:]))
        except (tokenize.TokenError, SyntaxError):
            continue
    _PATHS, _EXACT = paths, exact


def is_known(qual):
    if _PATHS is None:
        _load()
    q = qual
    last = q.split("::")[-1]
    if "{closure" in q:
        return False
    m = re.search(r"([A-Za-z_][A-Za-z0-9_]*)>::([A-Za-z_][A-Za-z0-9_]*)$", q)
    if m and (m.group(1) + "::" + m.group(2)) in _PATHS:
        return True
    segs = [x for x in _clean(q).split("::") if x]
    if len(segs) >= 2 and "::".join(segs[-2:]) in _PATHS:
        return True
    # a bare name only counts together with an owner the rules also mention (`ElfBytes` + `symbol_table`): a helper that merely
    # happens to be called `bytes` or `new` on a new private type is not part of the vocabulary
    if last in _EXACT and len(segs) >= 2:
        owner = segs[-2]
        return owner in _EXACT or any(p.startswith(owner + "::") or ("::" + owner + "::") in ("::" + p) for p in _PATHS)
    return False
