"""Exact evaluation of closed integer/boolean terms over concrete values of their leaves (used to enumerate the whole
domain of one-byte / two-byte accessors).  This interprets *terms of the analysis*, never code of the crate."""
from .terms import INT_BITS, SIGNED, wrap


class CannotEval(Exception):
    pass


def evaluate(t, leaves):
    """leaves: dict Term -> int"""
    if t in leaves:
        return leaves[t]
    op, a = t.op, t.args
    if op == "const" and isinstance(a[1], int):
        return a[1]
    if op == "cast" and a[0] == "IntToInt":
        v = evaluate(a[1], leaves)
        frm, to = a[2], a[3]
        if frm not in INT_BITS or to not in INT_BITS:
            raise CannotEval(t)
        return wrap(wrap(v, frm), to)
    if op == "un":
        v = evaluate(a[1], leaves)
        if a[0] == "Not":
            return (0 if v else 1) if a[2] == "bool" else wrap(~v, a[2])
        if a[0] == "Neg":
            return wrap(-v, a[2])
        raise CannotEval(t)
    if op == "bin":
        o, ty = a[0], a[3]
        x, y = evaluate(a[1], leaves), evaluate(a[2], leaves)
        if o == "Eq":
            return int(x == y)
        if o == "Ne":
            return int(x != y)
        if o == "Lt":
            return int(x < y)
        if o == "Le":
            return int(x <= y)
        if o == "Gt":
            return int(x > y)
        if o == "Ge":
            return int(x >= y)
        bits = INT_BITS.get(ty)
        if bits is None:
            raise CannotEval(t)
        if o == "BitAnd":
            return wrap(x & y, ty)
        if o == "BitOr":
            return wrap(x | y, ty)
        if o == "BitXor":
            return wrap(x ^ y, ty)
        if o == "Shr" and 0 <= y < bits:
            return wrap(x >> y, ty)
        if o == "Shl" and 0 <= y < bits:
            return wrap(x << y, ty)
        if o == "Add":
            return wrap(x + y, ty)
        if o == "Sub":
            return wrap(x - y, ty)
        if o == "Mul":
            return wrap(x * y, ty)
        if o == "Rem" and y != 0:
            return wrap(abs(x) % abs(y) * (1 if x >= 0 else -1), ty)
        if o == "Div" and y != 0:
            return wrap(abs(x) // abs(y) * (1 if (x < 0) == (y < 0) else -1), ty)
        raise CannotEval(t)
    if op == "proj" and a[1][0] == "f" and a[0].op == "bin" and a[0].args[0].endswith("WithOverflow") and a[1][1] == 0:
        o, l, r, ty = a[0].args
        base = o[: -len("WithOverflow")]
        x, y = evaluate(l, leaves), evaluate(r, leaves)
        return wrap({"Add": x + y, "Sub": x - y, "Mul": x * y}[base], ty)
    raise CannotEval(t)
