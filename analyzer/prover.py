"""Structural bound / order reasoning over value terms and must-facts (no solver).

All rules are pointer-width agnostic: `usize` is assumed to be 32 or 64 bits wide, an unknown usize
value is bounded by 2^64-1 when an upper bound is *used*, and an addition is only proved overflow-free
when the sum fits in 32 bits (or is bounded relative to another usize value, e.g. i < n)."""
from .terms import Term, T, INT_BITS, SIGNED, PTR_SIZED, pp

MAXDEPTH = 12


def tmax(ty, for_overflow=False):
    b = INT_BITS.get(ty)
    if b is None:
        return None
    if ty in PTR_SIZED:
        b = 32 if for_overflow else 64
    if ty in SIGNED:
        return (1 << (b - 1)) - 1
    return (1 << b) - 1


def _arms(t):
    """the alternatives of a decision node"""
    return [a for _, a in t.args[1]] if t.op == "mterm" else [t.args[1], t.args[2]]


def _uint_head(f):
    h = f.split("::")[0]
    return h in INT_BITS and h not in SIGNED


def _bitop(o, p, q):
    if o == "BitAnd":
        if p == 0 or q == 0:
            return 0
        if p == 1:
            return q
        if q == 1:
            return p
        if p == q:
            return p
    elif o == "BitOr":
        if p == 1 or q == 1:
            return 1
        if p == 0:
            return q
        if q == 0:
            return p
        if p == q:
            return p
    else:
        if p == 0:
            return q
        if q == 0:
            return p
        if p == q:
            return 0
        if p == 1 and q == 1:
            return 0
    x, y = sorted((p, q), key=repr)
    return ("op", o, x, y)


class Prover:
    def __init__(self, an):
        self.an = an

    # ------------------------------------------------------------------ types
    def type_of(self, t):
        op = t.op
        if op == "const":
            return t.args[0]
        if op == "cast":
            return t.args[3]
        if op == "len":
            return "usize"
        if op == "bin":
            o = t.args[0]
            if o in ("Eq", "Ne", "Lt", "Le", "Gt", "Ge"):
                return "bool"
            if o.endswith("WithOverflow"):
                return None
            return t.args[3]
        if op == "un":
            return t.args[2] if t.args[0] != "PtrMetadata" else "usize"
        if op == "proj" and t.args[1][0] == "f" and t.args[0].op == "bin" and t.args[0].args[0].endswith("WithOverflow"):
            return t.args[0].args[3] if t.args[1][1] == 0 else "bool"
        if op == "phi":
            ops = self.an.phi_ops.get(t)
            if ops:
                for v in ops.values():
                    ty = self.type_of(v)
                    if ty in INT_BITS:
                        return ty
        if op in ("mterm", "ite"):
            for v in _arms(t):
                ty = self.type_of(v)
                if ty in INT_BITS:
                    return ty
        h = self.an.type_hint(t)
        if h in INT_BITS:
            return h
        if op == "call":
            f = t.args[0]
            head = f.split("::")[0]
            if head in INT_BITS and f.split("::")[-1].startswith(("wrapping_", "saturating_")):
                return head
            if f in ("hash::sysv_hash", "hash::gnu_hash"):
                return "u32"
        return h

    def unsigned(self, t):
        ty = self.type_of(t)
        return ty in INT_BITS and ty not in SIGNED

    # ------------------------------------------------------------------ bounds
    def ub(self, t, facts, d=0):
        """an upper bound of t (int) or None"""
        best = None

        def upd(x):
            nonlocal best
            if x is not None and (best is None or x < best):
                best = x

        if t.op == "const" and isinstance(t.args[1], int):
            return t.args[1]
        if d > MAXDEPTH:
            return tmax(self.type_of(t))
        upd(tmax(self.type_of(t)))
        for f in facts:
            k = f[0]
            if k == "eq" and f[1] is t:
                upd(f[2])
            elif k in ("true", "false"):
                c = f[1]
                if c.op == "bin" and c.args[0] in ("Lt", "Le"):
                    a, b = c.args[1], c.args[2]
                    strict = c.args[0] == "Lt"
                    if k == "true" and a is t:          # t < b  /  t <= b
                        ubb = self.ub(b, (), d + 1) if b.op != "const" else b.args[1]
                        if ubb is not None:
                            upd(ubb - 1 if strict else ubb)
                    if k == "false" and b is t:         # not (a < t) => t <= a ; not (a <= t) => t < a
                        uba = self.ub(a, (), d + 1) if a.op != "const" else a.args[1]
                        if uba is not None:
                            upd(uba if strict else uba - 1)
        op = t.op
        if op == "cast" and t.args[0] == "IntToInt":
            frm, to = t.args[2], t.args[3]
            if frm in INT_BITS and frm not in SIGNED:
                u = self.ub(t.args[1], facts, d + 1)
                if u is not None and tmax(to) is not None and u <= tmax(to, True):
                    upd(u)
        elif op == "bin":
            o, a, b = t.args[0], t.args[1], t.args[2]
            if o == "Rem" and self.unsigned(t):
                u = self.ub(b, facts, d + 1)
                if u is not None and u >= 1:
                    upd(u - 1)
                upd(self.ub(a, facts, d + 1))
            elif o == "BitAnd":
                for x in (a, b):
                    u = self.ub(x, facts, d + 1)
                    if u is not None and u >= 0 and self.unsigned(t):
                        upd(u)
            elif o == "Shr" and self.unsigned(t) and b.op == "const":
                u = self.ub(a, facts, d + 1)
                if u is not None:
                    upd(u >> b.args[1])
            elif o == "Div" and self.unsigned(t):
                u = self.ub(a, facts, d + 1)
                l = self.lb(b, facts, d + 1)
                if u is not None and l >= 1:
                    upd(u // l)
        elif op == "proj" and t.args[0].op == "bin" and t.args[0].args[0].endswith("WithOverflow") and t.args[1][:2] == ("f", 0):
            o, a, b, ty = t.args[0].args
            ua, ubb = self.ub(a, facts, d + 1), self.ub(b, facts, d + 1)
            if o.startswith("Add") and ua is not None and ubb is not None and ua + ubb <= (tmax(ty, True) or 0):
                upd(ua + ubb)
            if o.startswith("Mul") and ua is not None and ubb is not None and ua * ubb <= (tmax(ty, True) or 0):
                upd(ua * ubb)
            if o.startswith("Sub") and ua is not None:
                upd(ua)
                # a - c with a constant c the value is known to reach (no wrap): at most ub(a) - c
                if b.op == "const" and isinstance(b.args[1], int) and b.args[1] >= 0 and self.lb(a, facts, d + 1) >= b.args[1]:
                    upd(ua - b.args[1])
        elif op == "phi":
            ops = self.an.phi_ops.get(t)
            if ops:
                us = [self.ub(v, (), d + 1) for v in ops.values() if not v.mentions(t)]
                if us and all(u is not None for u in us) and len(us) == len(ops):
                    upd(max(us))
        elif op in ("mterm", "ite"):
            us = [self.ub(v, facts, d + 1) for v in _arms(t)]
            if us and all(u is not None for u in us):
                upd(max(us))
        if op == "call" and t.args[0].endswith(("ParseAt::size_for", "ParseAt>::size_for")):
            upd(self.an.prog.size_for_upper_bound(t))
        if op in ("bin", "cast") and self.unsigned(t) and d == 0:
            bv = self.bits(t)
            if bv is not None:
                upd(sum(1 << i for i, p in enumerate(bv) if p != 0))      # every bit not known to be 0 set
        return best

    def lb(self, t, facts, d=0):
        """a lower bound of t (int); 0 for unsigned values when nothing better is known, else None->-inf as None"""
        if t.op == "const" and isinstance(t.args[1], int):
            return t.args[1]
        ty = self.type_of(t)
        best = 0 if (ty in INT_BITS and ty not in SIGNED) else None

        def upd(x):
            nonlocal best
            if x is not None and (best is None or x > best):
                best = x

        if d > MAXDEPTH:
            return best if best is not None else -(1 << 127)
        for f in facts:
            k = f[0]
            if k == "eq" and f[1] is t:
                upd(f[2])
            elif k == "ne" and f[1] is t and f[2] == 0 and best == 0:
                upd(1)
            elif k in ("true", "false"):
                c = f[1]
                if c.op == "bin" and c.args[0] in ("Lt", "Le"):
                    a, b = c.args[1], c.args[2]
                    strict = c.args[0] == "Lt"
                    if k == "true" and b is t:           # a < t / a <= t
                        la = self.lb(a, (), d + 1) if a.op != "const" else a.args[1]
                        if la is not None:
                            upd(la + 1 if strict else la)
                    if k == "false" and a is t:          # not (t < b) => t >= b ; not (t <= b) => t > b
                        lbb = self.lb(b, (), d + 1) if b.op != "const" else b.args[1]
                        if lbb is not None:
                            upd(lbb if strict else lbb + 1)
                if c.op == "bin" and c.args[0] == "Eq" and k == "false" and best == 0:
                    a, b = c.args[1], c.args[2]
                    if (a is t and b.op == "const" and b.args[1] == 0) or (b is t and a.op == "const" and a.args[1] == 0):
                        upd(1)
        op = t.op
        if op == "cast" and t.args[0] == "IntToInt":
            frm, to = t.args[2], t.args[3]
            if frm in INT_BITS and frm not in SIGNED and to in INT_BITS:
                if INT_BITS[frm] <= (32 if to in PTR_SIZED else INT_BITS[to]):
                    upd(self.lb(t.args[1], facts, d + 1))
                else:
                    # a narrowing cast of a value known to fit keeps the value
                    u_ = self.ub(t.args[1], facts, d + 1)
                    if u_ is not None and tmax(to, True) is not None and 0 <= u_ <= tmax(to, True):
                        upd(self.lb(t.args[1], facts, d + 1))
        elif op == "phi":
            ops = self.an.phi_ops.get(t)
            if ops:
                ls = [self.lb(v, (), d + 1) for v in ops.values() if not v.mentions(t)]
                if ls and len(ls) == len(ops) and all(l is not None for l in ls):
                    upd(min(ls))
        elif op in ("mterm", "ite"):
            ls = [self.lb(v, facts, d + 1) for v in _arms(t)]
            if ls and all(l is not None for l in ls):
                upd(min(ls))
        elif op == "proj" and t.args[0].op == "bin" and t.args[0].args[0].endswith("WithOverflow") and t.args[1][:2] == ("f", 0):
            o, a, b, ty2 = t.args[0].args
            if o.startswith("Add") or o.startswith("Mul"):
                la, lbb = self.lb(a, facts, d + 1), self.lb(b, facts, d + 1)
                ua_, ub_ = self.ub(a, facts, d + 1), self.ub(b, facts, d + 1)
                lim = tmax(ty2, True)
                # known not to have wrapped: by the recorded flag, or because the largest possible result fits
                fits = (ua_ is not None and ub_ is not None and lim is not None and la is not None and lbb is not None and la >= 0 and lbb >= 0
                        and (ua_ + ub_ if o.startswith("Add") else ua_ * ub_) <= lim)
                if (("false", T.proj(t.args[0], ("f", 1, None))) in facts or fits) and la is not None and lbb is not None:
                    upd(la + lbb if o.startswith("Add") else la * lbb)
        elif op == "call":
            f = t.args[0]
            if f.endswith(("ParseAt::size_for", "ParseAt>::size_for")):
                upd(self.an.prog.size_for_lower_bound(t))
        return best if best is not None else -(1 << 127)

    def nonzero(self, t, facts):
        if t.op == "const":
            return t.args[1] != 0
        if ("ne", t, 0) in facts:
            return True
        l_ = self.lb(t, facts)
        if l_ is not None and l_ >= 1:
            return True
        if t.op == "cast" and t.args[0] == "IntToInt":
            frm, to = t.args[2], t.args[3]
            if frm in INT_BITS and to in INT_BITS and INT_BITS[frm] <= (32 if to in PTR_SIZED else INT_BITS[to]):
                return self.nonzero(t.args[1], facts)
        if t.op == "bin" and t.args[0] == "Div" and self.unsigned(t) and self.le(t.args[2], t.args[1], facts) and self.nonzero(t.args[2], facts):
            return True       # a / b >= 1 when 1 <= b <= a
        if t.op == "phi":
            ops = self.an.phi_ops.get(t)
            if ops and all(not v.mentions(t) and self.nonzero(v, ()) for v in ops.values()):
                return True
        if t.op in ("mterm", "ite") and all(self.nonzero(v, facts) for v in _arms(t)):
            return True
        return False

    # ------------------------------------------------------------------ order
    def lt(self, a, b, facts):
        if a.op == "const" and b.op == "const":
            return a.args[1] < b.args[1]
        if ("true", Term("bin", "Lt", a, b, self._cmp_ty(a, b))) in facts or self._fact_cmp(facts, "Lt", a, b, True):
            return True
        if self._fact_cmp(facts, "Le", b, a, False):   # not (b <= a)  =>  a < b
            return True
        ua, lb_ = self.ub(a, facts), self.lb(b, facts)
        if ua is not None and lb_ is not None and ua < lb_:
            return True
        # index yielded by s.iter().enumerate() is below s.len()
        if a.op == "proj" and a.args[1][:2] == ("f", 0) and a.args[0].op == "payload" and a.args[0].args[1] == "Some" and a.args[0].args[0].op == "iternext" \
                and b.op == "len":
            s_ = a.args[0].args[0].args[0].args[2][0].args[2][0]       # enumerate(iter(S)) -> S
            strip = lambda x: x.args[0] if x.op in ("refval", "deref") else x
            if strip(s_) is strip(b.args[0]) or s_ is b.args[0]:
                return True
        # x % b < b for unsigned nonzero b
        if a.op == "bin" and a.args[0] == "Rem" and a.args[2] is b and self.unsigned(a):
            return True
        # x - c < x  for unsigned x >= c >= 1 (no wrap)
        if a.op == "proj" and a.args[1][:2] == ("f", 0) and a.args[0].op == "bin" and a.args[0].args[0] in ("SubWithOverflow", "Sub") \
                and a.args[0].args[1] is b and a.args[0].args[2].op == "const" and a.args[0].args[2].args[1] >= 1 and self.unsigned(b):
            if self.lb(b, facts) >= a.args[0].args[2].args[1]:
                return True
        if a.op == "bin" and a.args[0] == "Sub" and a.args[1] is b and a.args[2].op == "const" and a.args[2].args[1] >= 1 and self.unsigned(b):
            if self.lb(b, facts) >= a.args[2].args[1]:
                return True
        # monotone cursor idioms (unsigned): a <= x  =>  a < x + c (c > 0, addition known not to wrap), a < adv(x),
        # a <= checked_add(x, y)!Some ; strict when a < x or y != 0
        if b.op == "adv" and self.le(a, b.args[0], facts):
            return True
        if b.op == "bin" and b.args[0] == "Add" and b in self.an.prog.noovf:
            for x, c in ((b.args[1], b.args[2]), (b.args[2], b.args[1])):
                if self.le(a, x, facts) and (self.lb(c, facts) >= 1):
                    return True
                if self.lt(a, x, facts):
                    return True
        if b.op == "payload" and b.args[1] == "Some" and b.args[0].op == "call" and b.args[0].args[0].endswith("::checked_add"):
            x, y = b.args[0].args[2]
            if self.lt(a, x, facts) or self.lt(a, y, facts):
                return True
            if (self.le(a, x, facts) and self.nonzero(y, facts)) or (self.le(a, y, facts) and self.nonzero(x, facts)):
                return True
        # x <= x.checked_next_multiple_of(m)!Some  (rounding up never decreases an unsigned value)
        if b.op == "payload" and b.args[1] == "Some" and b.args[0].op == "call" and b.args[0].args[0].endswith("::checked_next_multiple_of") and _uint_head(b.args[0].args[0]):
            if self.lt(a, b.args[0].args[2][0], facts):
                return True
        # a <= x (+) y = b and a != b  (`Some(new) if new != self.offset`)
        if b.op == "payload" and b.args[1] == "Some" and b.args[0].op == "call" and b.args[0].args[0].endswith("::checked_add") \
                and _uint_head(b.args[0].args[0]) and self._distinct(a, b, facts):
            x, y = b.args[0].args[2]
            if a is x or a is y:
                return True
        # an item yielded by `for i in lo..hi` is below hi (Range::next never changes the end of the range)
        if a.op == "payload" and a.args[1] == "Some":
            c_ = self.an.call_site_of(a)
            if c_ is not None and c_.declared_norm == "iter::Iterator::next" and (c_.callee.get("generics") or [""])[0].startswith("std::ops::Range<"):
                it = c_.arg_values()[0]
                it = it.args[0] if it.op == "refval" else it
                cands = [it]
                if it.op == "phi" and it in self.an.phi_ops:
                    blk = it.args[0][1]
                    body = self.an.loops.get(blk, set())
                    cands = [v for p_, v in self.an.phi_ops[it].items() if p_ not in body]
                for v in cands:
                    if v.op == "call" and v.args[0].endswith("into_iter") and v.args[2]:
                        v = v.args[2][0]
                    if v.op == "agg" and v.args[1] == "ops::Range" and len(v.args[4]) == 2 and (v.args[4][1] is b or self.le(v.args[4][1], b, facts)):
                        return True
        # position of the first match in a slice is an index into it
        if a.op == "payload" and a.args[1] == "Some" and a.args[0].op == "call" and a.args[0].args[0] in ("slice::position", "slice::rposition"):
            s = a.args[0].args[2][0]
            if b is T.length(s):
                return True
        return False

    def le(self, a, b, facts):
        if a is b:
            return True
        if a.op == "const" and b.op == "const":
            return a.args[1] <= b.args[1]
        if self.lt(a, b, facts):
            return True
        if self._fact_cmp(facts, "Le", a, b, True) or self._fact_cmp(facts, "Lt", b, a, False):
            return True
        if b.op == "payload" and b.args[1] == "Some" and b.args[0].op == "call" and b.args[0].args[0].endswith("::checked_add"):
            x, y = b.args[0].args[2]
            if self.le(a, x, facts) or self.le(a, y, facts):
                return True
        if b.op == "payload" and b.args[1] == "Some" and b.args[0].op == "call" and b.args[0].args[0].endswith("::checked_next_multiple_of") and _uint_head(b.args[0].args[0]):
            if self.le(a, b.args[0].args[2][0], facts):
                return True
        if b.op == "bin" and b.args[0] == "Add" and b in self.an.prog.noovf and (self.le(a, b.args[1], facts) or self.le(a, b.args[2], facts)):
            return True
        ua, lb_ = self.ub(a, facts), self.lb(b, facts)
        if ua is not None and lb_ is not None and ua <= lb_:
            return True
        # the two components of a header's data range: start <= end (the range helpers return (off, off (+) size), C03's range rule)
        if a.op == "proj" and b.op == "proj" and a.args[0] is b.args[0] and a.args[1][:2] == ("f", 0) and b.args[1][:2] == ("f", 1) \
                and a.args[0].op == "payload" and a.args[0].args[1] == "Ok" and a.args[0].args[0].op == "call" \
                and a.args[0].args[0].args[0] in ("section::SectionHeader::get_data_range", "segment::ProgramHeader::get_file_data_range"):
            return True
        # (r.len() as u64) <= b  when  (r.end as u64) <= b :  the length of a range is at most its end
        if a.op == "cast" and a.args[0] == "IntToInt" and a.args[1].op == "call" and a.args[1].args[0] == "iter::ExactSizeIterator::len":
            r = a.args[1].args[2][0]
            r = r.args[0] if r.op == "refval" else (T.deref(r) if r.op == "param" else r)
            e = T.cast("IntToInt", T.proj(r, ("f", 1, "end")), a.args[2], a.args[3])      # only a Range has a field 1 called `end`
            if self._fact_cmp(facts, "Lt", b, e, False) or self._fact_cmp(facts, "Le", e, b, True):
                return True
        # hi <= s.len() on a path where s.get(lo..hi) / s.get(..hi) succeeded
        if b.op == "len":
            for f in facts:
                if f[0] == "var" and f[2] == "Some" and f[1].op == "call" and f[1].args[0] == "[T]::get" and f[1].args[2][0] is b.args[0]:
                    r = f[1].args[2][1]
                    if r.op == "agg" and r.args[1] in ("ops::Range", "ops::RangeTo") and r.args[4][-1] is a:
                        return True
        return False

    # ------------------------------------------------------------------ bit-level values
    def bits(self, t, d=0):
        """The value of an integer term as a list of bit descriptors, least significant first: 0, 1, (atom, i) = bit i of an opaque
        term, or ("op", o, x, y) for an uninterpreted combination.  Exact for constants, casts, shifts by constants and bitwise
        operations; anything else is an atom.  None when the width is unknown."""
        ty = self.type_of(t)
        if ty == "bool":
            return None
        n = INT_BITS.get(ty)
        if n is None or d > 24:
            return None
        if t.op == "const" and isinstance(t.args[1], int):
            v = t.args[1] % (1 << n)
            return [(v >> i) & 1 for i in range(n)]
        if t.op == "cast" and t.args[0] == "IntToInt":
            inner = self.bits(t.args[1], d + 1)
            frm = t.args[2]
            if inner is not None and frm in INT_BITS:
                if len(inner) >= n:
                    return inner[:n]
                pad = inner[-1] if frm in SIGNED else 0
                return inner + [pad] * (n - len(inner))
        if t.op == "call" and t.args[0] == "convert::From::from" and len(t.args[2]) == 1:
            inner = self.bits(t.args[2][0], d + 1)
            fty = self.type_of(t.args[2][0])
            if inner is not None and fty in INT_BITS and len(inner) <= n:
                pad = inner[-1] if fty in SIGNED else 0
                return inner + [pad] * (n - len(inner))
        if t.op == "bin":
            o, x, y = t.args[0], t.args[1], t.args[2]
            if o in ("Shl", "Shr", "ShlUnchecked", "ShrUnchecked") and y.op == "const" and isinstance(y.args[1], int) and 0 <= y.args[1] < n:
                bx = self.bits(x, d + 1)
                if bx is not None and len(bx) == n:
                    c = y.args[1]
                    if o.startswith("Shl"):
                        return [0] * c + bx[: n - c]
                    pad = bx[-1] if ty in SIGNED else 0
                    return bx[c:] + [pad] * c
            if o in ("BitAnd", "BitOr", "BitXor"):
                bx, by = self.bits(x, d + 1), self.bits(y, d + 1)
                if bx is not None and by is not None and len(bx) == len(by) == n:
                    return [_bitop(o, p, q) for p, q in zip(bx, by)]
        if t.op == "un" and t.args[0] == "Not":
            bx = self.bits(t.args[1], d + 1)
            if bx is not None:
                return [(1 - p) if p in (0, 1) else ("not", p) for p in bx]
        return [(t, i) for i in range(n)]

    def bits_eq(self, a, b):
        """True / False / None: are the two integer terms equal as bit vectors for every value of their atoms"""
        ba, bb = self.bits(a), self.bits(b)
        if ba is None or bb is None or len(ba) != len(bb):
            return None
        if ba == bb:
            return True
        if any(p in (0, 1) and q in (0, 1) and p != q for p, q in zip(ba, bb)):
            return False
        return None

    # ------------------------------------------------------------------ deciding a comparison
    def arith(self, t, facts):
        """value-preserving simplification of an integer term under facts:  (x (+) y)!Some - x = y ;  (x + y) - x = y when the sum
        is known not to have wrapped;  the .0 of a checked operation whose overflow flag is known false is the plain result"""
        if t.op == "proj" and t.args[1][:2] == ("f", 0) and t.args[0].op == "bin" and t.args[0].args[0].endswith("WithOverflow"):
            o, x, y = t.args[0].args[0][:-12], t.args[0].args[1], t.args[0].args[2]
            if any(f[0] == "false" and f[1].op == "proj" and f[1].args[0] is t.args[0] and f[1].args[1][:2] == ("f", 1) for f in facts):
                t2 = self.arith(Term("bin", o, x, y, t.args[0].args[3]), facts)
                if t2.op != "bin" or t2.args[0] != o:
                    return t2
                return t
        if t.op == "len":
            # the length of a successfully taken sub-slice s.get(a..b) / s.get_bytes(a..b) is b - a  (C03 establishes get_bytes = get)
            x = t.args[0]
            while x.op in ("refval", "deref"):
                x = x.args[0]
            if x.op == "payload" and x.args[1] in ("Some", "Ok") and x.args[0].op == "call" and len(x.args[0].args[2]) == 2 \
                    and (x.args[0].args[0] == "[T]::get" or x.args[0].args[0].endswith("parse::ReadBytesExt<'data>>::get_bytes")
                         or x.args[0].args[0] == "parse::ReadBytesExt::get_bytes"):
                r = x.args[0].args[2][1]
                if r.op == "agg" and r.args[1] == "ops::Range":
                    return self.arith(Term("bin", "Sub", r.args[4][1], r.args[4][0], "usize"), facts)
        if t.op == "len":
            # the buffer read_bytes(a, b) hands back is b - a bytes long (C17's buffer-length and load-before-get rules)
            x = t.args[0]
            while x.op in ("refval", "deref"):
                x = x.args[0]
            if x.op == "payload" and x.args[1] == "Ok":
                c_ = self.an.call_site_of(x)
                if c_ is not None and c_.callee_qual == "elf_stream::CachingReader::read_bytes":
                    from .prov import read_bytes_bounds
                    bnd = read_bytes_bounds(c_.args)
                    if bnd is not None:
                        return self.arith(Term("bin", "Sub", bnd[1], bnd[0], "usize"), facts)
        if t.op == "bin" and t.args[0] == "Div":
            # (x (*) y)!Some / y = x   (the product did not wrap; y != 0 or the division itself traps)
            x, y = self.arith(t.args[1], facts), t.args[2]
            if x.op == "payload" and x.args[1] == "Some" and x.args[0].op == "call" and x.args[0].args[0].endswith("::checked_mul") and _uint_head(x.args[0].args[0]):
                p_, q_ = x.args[0].args[2]
                for u_, v_ in ((p_, q_), (q_, p_)):
                    if v_ is y or (self._exact(v_, facts) is not None and self._exact(v_, facts) == self._exact(y, facts)):
                        return u_
            if x is not t.args[1]:
                return Term("bin", "Div", x, y, t.args[3])
        if t.op == "bin" and t.args[0] == "Sub":
            x, y = t.args[1], t.args[2]
            if x.op == "payload" and x.args[1] == "Some" and x.args[0].op == "call" and x.args[0].args[0].endswith("::checked_add") \
                    and _uint_head(x.args[0].args[0]):
                p, q = x.args[0].args[2]
                if y is p:
                    return q
                if y is q:
                    return p
            if x.op == "bin" and x.args[0] == "Add" and x in self.an.prog.noovf:
                if y is x.args[1]:
                    return x.args[2]
                if y is x.args[2]:
                    return x.args[1]
        return t

    def _exact(self, t, facts):
        """the single value t can have, if lower and upper bound coincide"""
        l, u = self.lb(t, facts), self.ub(t, facts)
        return l if (l is not None and l == u) else None

    def decide(self, c, facts, _depth=0):
        """truth of a boolean term under facts, with the order reasoning above: True / False / None (unknown)"""
        tv = self.an.truth(facts, c)
        if tv is not None:
            return tv
        if c.has_tree() and _depth < 5:
            # the term mentions a value described by cases (the case analysis of a dissolved helper): decided when every case that the
            # facts leave possible gives the same answer
            r = self._decide_by_cases(c, facts, _depth)
            if r is not None:
                return r
        if c.op == "bin" and c.args[0] in ("Eq", "Ne") and self._is_bool(c.args[1]) and self._is_bool(c.args[2]):
            (xa, pa), (xb, pb) = self._bool_atom(c.args[1]), self._bool_atom(c.args[2])
            if xa is xb:            # the same condition written twice (possibly once negated)
                return (pa == pb) == (c.args[0] == "Eq")
            ta, tb = self.decide(c.args[1], facts, _depth + 1), self.decide(c.args[2], facts, _depth + 1)
            if ta is not None and tb is not None:
                return (ta == tb) == (c.args[0] == "Eq")
            return None
        if c.op == "un" and c.args[0] == "Not":
            r = self.decide(c.args[1], facts)
            return None if r is None else not r
        if c.op == "bin" and c.args[0] in ("Lt", "Le", "Gt", "Ge", "Eq", "Ne"):
            o, a, b = c.args[0], self.arith(c.args[1], facts), self.arith(c.args[2], facts)
            if o in ("Gt", "Ge"):
                o, a, b = {"Gt": "Lt", "Ge": "Le"}[o], b, a
            if o == "Lt":
                return True if self.lt(a, b, facts) else (False if self.le(b, a, facts) else None)
            if o == "Le":
                return True if self.le(a, b, facts) else (False if self.lt(b, a, facts) else None)
            same = a is b or (a.op == "const" and b.op == "const" and a.args[1] == b.args[1])
            diff = self.lt(a, b, facts) or self.lt(b, a, facts)
            if not same and not diff:
                be = self.bits_eq(a, b)
                same, diff = be is True, be is False
            if same or diff:
                return (o == "Eq") == bool(same)
        return None

    @staticmethod
    def _bool_atom(t):
        """(atom, polarity): t is atom when polarity else its negation (Not / Ne / Ge / Gt folded into the polarity)"""
        pol = True
        for _ in range(8):
            if t.op == "un" and t.args[0] == "Not":
                t, pol = t.args[1], not pol
            elif t.op == "bin" and t.args[0] in ("Ne", "Ge", "Gt"):
                t, pol = Term("bin", {"Ne": "Eq", "Ge": "Lt", "Gt": "Le"}[t.args[0]], *t.args[1:]), not pol
            else:
                break
        return t, pol

    @staticmethod
    def _is_bool(t):
        return (t.op == "bin" and t.args[0] in ("Lt", "Le", "Gt", "Ge", "Eq", "Ne")) or (t.op == "un" and t.args[0] == "Not") \
            or (t.op == "const" and isinstance(t.args[1], bool))

    def _decide_by_cases(self, c, facts, depth):
        from .terms import rebuild
        node = None
        for x in c.subterms():
            if x.op in ("ite", "mterm") and not x.args[0].has_tree():
                node = x
                break
        if node is None:
            return None
        an = self.an
        cases = []
        if node.op == "ite":
            tv = self.decide(node.args[0], facts, depth + 1)
            for truth, val in ((True, node.args[1]), (False, node.args[2])):
                if tv is None or tv == truth:
                    cases.append((an.assume_bool(facts, node.args[0], truth), val))
        else:
            for v, val in node.args[1]:
                k = an.variant_known(node.args[0], v, facts)
                if k is False:
                    continue
                f = an.var_fact(node.args[0], v)
                cases.append((frozenset(facts) | ({f} if isinstance(f, tuple) else set()), val))
        res = None
        n = 0
        for fs, val in cases:
            if val.op == "never":
                continue
            c2 = rebuild(c, {node: val})
            if any(y.op == "never" for y in c2.subterms()):
                continue        # a projection the case does not have: the case cannot be the one the facts describe
            r = self.decide(c2, fs, depth + 1)
            if r is None or (res is not None and r != res):
                return None
            res = r
            n += 1
        return res if n else None

    def _distinct(self, a, b, facts):
        for f in facts:
            if f[0] in ("true", "false") and f[1].op == "bin" and f[1].args[0] in ("Eq", "Ne") and (f[0] == "true") == (f[1].args[0] == "Ne"):
                if (f[1].args[1] is a and f[1].args[2] is b) or (f[1].args[1] is b and f[1].args[2] is a):
                    return True
        return False

    def _cmp_ty(self, a, b):
        return self.type_of(a) or self.type_of(b)

    def _fact_cmp(self, facts, op, a, b, truth):
        want = "true" if truth else "false"
        for f in facts:
            if f[0] == want and f[1].op == "bin" and f[1].args[0] == op and f[1].args[1] is a and f[1].args[2] is b:
                return True
        return False
