"""Classification of external (core/alloc/std) callees: can the call panic, allocate or perform I/O?

Keys are *declared* callee names with the std/core/alloc crate prefix stripped (see engine.norm).
Rules are tried in order; a callee matching no rule is `unclassified` and is reported by the rules
that depend on the classification (fail closed).  Every row has a one-line reason."""
import re

TOTAL, PARTIAL, PANIC, UNCLASSIFIED = "total", "partial", "panic", "unclassified"

_INT = r"(?:u8|u16|u32|u64|u128|usize|i8|i16|i32|i64|i128|isize)"

RULES = [
    # ---- panic entry points -------------------------------------------------------------
    (r"^(panicking::|rt::panic|rt::begin_panic|option::expect_failed|option::unwrap_failed|result::unwrap_failed|"
     r"slice::index::slice_\w+_fail|str::slice_error_fail|panic::|intrinsics::abort|process::abort|process::exit|"
     r"cell::panic_already|alloc::handle_alloc_error|hint::unreachable_unchecked)", PANIC, "panic / abort entry point"),
    # ---- partial: precondition must be shown at the call site -----------------------------
    (r"^(option::Option|result::Result)::(unwrap|expect|unwrap_err|expect_err|unwrap_unchecked)$", PARTIAL,
     "panics on the other variant"),
    (r"^\[T\]::(split_at|split_at_mut)$", PARTIAL, "panics when mid > len"),
    (r"^str::split_at(_mut)?$", PARTIAL, "panics when mid is not on a char boundary / > len"),
    (r"^\[T\]::(copy_from_slice|clone_from_slice|swap_with_slice)$", PARTIAL, "panics when lengths differ"),
    (r"^\[T\]::(chunks|chunks_exact|chunks_mut|chunks_exact_mut|rchunks|rchunks_exact|windows|array_chunks|array_windows|as_chunks)$",
     PARTIAL, "panics when the size argument is 0"),
    (r"^\[T\]::(swap|rotate_left|rotate_right|copy_within|select_nth_unstable\w*)$", PARTIAL, "index preconditions"),
    (r"^ops::(Index|IndexMut)::index(_mut)?$", PARTIAL, "panics when the index is out of range / key absent"),
    (r"^%s::(pow|abs|div_euclid|rem_euclid|next_power_of_two|next_multiple_of|ilog|ilog2|ilog10|isqrt|div_ceil|midpoint|abs_diff|strict_\w+|unchecked_\w+)$" % _INT,
     PARTIAL, "panics on overflow / zero divisor under debug assertions"),
    (r"^iter::Iterator::(step_by|sum|product)$", PARTIAL, "step_by(0) panics; sum/product overflow-check in debug builds"),
    (r"^iter::(Sum|Product)::(sum|product)$", PARTIAL, "overflow-checks in debug builds"),
    (r"^collections::hash_map::(VacantEntry::(insert|key|into_key)|OccupiedEntry::(get|get_mut|into_mut|key|insert|remove))$", TOTAL,
     "total (allocation failure aborts: see C08)"),
    (r"^(vec::Vec|collections::\w+::\w+|string::String)::(remove|swap_remove|insert|split_off|drain|truncate_front|"
     r"with_capacity|reserve|reserve_exact|push|push_str|extend_from_slice|resize|from_elem)$", PARTIAL,
     "index preconditions and/or capacity overflow / allocation failure abort"),
    (r"^char::from_digit$", PARTIAL, "panics when radix > 36"),
    (r"^cell::RefCell::(borrow|borrow_mut)$", PARTIAL, "panics when already borrowed"),
    (r"^slice::<impl \[T\]>::", PARTIAL, "unknown slice method spelled with an impl path"),
    # ---- total families ----------------------------------------------------------------------
    (r"^%s::(checked_\w+|wrapping_\w+|saturating_\w+|overflowing_\w+|from_le_bytes|from_be_bytes|from_ne_bytes|to_le_bytes|"
     r"to_be_bytes|to_ne_bytes|from_le|from_be|to_le|to_be|swap_bytes|reverse_bits|count_ones|count_zeros|leading_zeros|trailing_zeros|"
     r"leading_ones|trailing_ones|rotate_left|rotate_right|is_power_of_two|min|max|clamp|signum|is_positive|is_negative|"
     r"unsigned_abs|checked_next_power_of_two|checked_next_multiple_of|cast_signed|cast_unsigned|carrying_\w+|borrowing_\w+|widening_\w+)$" % _INT,
     TOTAL, "total integer operation (never traps)"),
    (r"^(option::Option|result::Result)::(ok_or|ok_or_else|ok|err|map|map_err|map_or|map_or_else|and|and_then|or|or_else|"
     r"is_some|is_none|is_ok|is_err|is_some_and|is_ok_and|is_err_and|is_none_or|unwrap_or|unwrap_or_else|unwrap_or_default|"
     r"as_ref|as_mut|as_deref|copied|cloned|filter|flatten|take|replace|zip|xor|iter|transpose|inspect|inspect_err|get_or_insert\w*|insert)$",
     TOTAL, "total combinator (given a total closure, which is analysed as its own body)"),
    (r"^ffi::CStr::(from_bytes_until_nul|from_bytes_with_nul|to_bytes|to_bytes_with_nul|count_bytes|is_empty|to_str|as_ptr)$", TOTAL,
     "total: the constructors return a Result, the accessors cannot fail"),
    (r"^\[T\]::(first_chunk|split_first_chunk|last_chunk|split_last_chunk)(_mut)?$", TOTAL, "return None when the slice is shorter than N"),
    (r"^\[T\]::(get|get_mut|len|is_empty|iter|iter_mut|first|last|split_first|split_last|starts_with|ends_with|contains|"
     r"split_at_checked|split_at_mut_checked|to_vec|as_ptr|binary_search\w*|strip_prefix|strip_suffix|fill|reverse|concat|join|"
     r"sort\w*|iter\w*|is_sorted\w*|as_array|trim_ascii\w*|is_ascii|eq_ignore_ascii_case)$",
     TOTAL, "total slice accessor"),
    (r"^str::(from_utf8|from_utf8_mut|len|is_empty|as_bytes|trim\w*|starts_with|ends_with|contains|find|rfind|split\w*|chars|bytes|"
     r"char_indices|lines|get|is_char_boundary|strip_prefix|strip_suffix|parse|eq_ignore_ascii_case|to_owned|to_string|as_ptr|is_ascii)$",
     TOTAL, "total str function (str::split_at is listed as partial above)"),
    (r"^str::converts::from_utf8$", TOTAL, "total"),
    (r"^ops::(Try::branch|FromResidual::from_residual|Deref::deref|DerefMut::deref_mut|Fn::call|FnMut::call_mut|FnOnce::call_once|"
     r"RangeBounds::\w+|Not::not|BitAnd::bitand|BitOr::bitor|BitXor::bitxor)$", TOTAL,
     "desugaring helpers; Fn* calls run an in-crate closure that is analysed as its own body"),
    (r"^ops::(Add|Sub|Mul|Div|Rem|Shl|Shr|Neg|AddAssign|SubAssign|MulAssign|DivAssign|RemAssign|ShlAssign|ShrAssign)::\w+$", PARTIAL,
     "operator trait call on a non-primitive: may overflow / divide by zero"),
    (r"^convert::(TryInto::try_into|TryFrom::try_from|Into::into|From::from|AsRef::as_ref|AsMut::as_mut)$", TOTAL,
     "conversions between primitive/core types are total (try_* report failure as Err)"),
    (r"^clone::Clone::(clone|clone_from)$", TOTAL, "Clone of core value types"),
    (r"^cmp::(PartialEq::(eq|ne)|PartialOrd::(partial_cmp|lt|le|gt|ge)|Ord::(cmp|min|max|clamp)|Eq::assert_receiver_is_total_eq|min|max)$",
     TOTAL, "comparison of core value types / slices"),
    (r"^default::Default::default$", TOTAL, "Default of core value types"),
    (r"^mem::(size_of|align_of|size_of_val|swap|replace|take|discriminant|drop|forget)$", TOTAL, "total"),
    (r"^hint::(must_use|black_box|spin_loop)$", TOTAL, "total"),
    (r"^iter::IntoIterator::into_iter$", TOTAL, "total"),
    (r"^iter::Iterator::(next|find|find_map|position|rposition|any|all|map|filter|filter_map|enumerate|zip|take|skip|take_while|"
     r"skip_while|rev|peekable|chain|cloned|copied|count|last|nth|fold|try_fold|for_each|try_for_each|min|max|min_by\w*|max_by\w*|"
     r"flat_map|flatten|fuse|inspect|by_ref|scan|map_while|size_hint|eq|ne|lt|le|gt|ge|cmp|partial_cmp|is_sorted\w*|collect|unzip|partition|rev|cycle)$",
     TOTAL, "core iterator adaptor/consumer: total given total next()/closures (termination is property C16; `collect` allocates only "
            "through the FromIterator impl, which rule C06 sees as its own call edge)"),
    (r"^iter::(DoubleEndedIterator|ExactSizeIterator|FusedIterator)::\w+$", TOTAL, "as above"),
    (r"^iter::(FromIterator::from_iter|Extend::extend)$", TOTAL, "collection construction (allocation is C06/C08's concern)"),
    (r"^fmt::", TOTAL, "formatting into a caller-supplied Formatter: returns fmt::Error, panics only if the user's writer does"),
    (r"^(marker|any|ptr::NonNull|ascii|char::methods)::", TOTAL, "total helpers"),
    (r"^char::(is_\w+|to_ascii_\w+|len_utf8|from_u32|to_digit)$", TOTAL, "total"),
    (r"^error::Error::\w+$", TOTAL, "total"),
    (r"^bool::(then_some|then)$", TOTAL, "total (the closure of `then` is analysed as its own body)"),
    (r"^str::(Utf8Error|error::Utf8Error)::(valid_up_to|error_len)$", TOTAL, "total accessors"),
    (r"^ops::(Range|RangeInclusive|RangeTo|RangeFrom)::(contains|is_empty|start|end|len)$", TOTAL, "total range helpers"),
    (r"^cmp::(Ordering::\w+|Reverse)", TOTAL, "total"),
    (r"^array::<impl \[T; N\]>::(as_slice|map|iter|each_ref)$", TOTAL, "total"),
    # ---- alloc / std value types used by the stream parser (panic-relevant view only) -----------
    (r"^(vec::Vec|collections::HashMap|collections::hash::map::HashMap|boxed::Box|string::String)::(new|default|len|is_empty|iter|get|"
     r"get_mut|contains_key|clear|as_slice|as_str|as_bytes|into_boxed_slice|first|last|entry|keys|values|capacity|into_iter|remove_entry)$",
     TOTAL, "total collection accessor"),
    (r"^collections::HashMap::(insert|remove)$", TOTAL, "total (allocation failure aborts: see C08)"),
    (r"^vec::from_elem$", PARTIAL, "capacity overflow panics / allocation failure aborts for oversized requests (C08 guards the size)"),
    (r"^io::(Read::(read|read_exact|read_to_end|read_to_string|by_ref)|Seek::(seek|rewind|stream_position|stream_len)|Write::\w+)$", TOTAL,
     "I/O on the caller's reader: failures are returned as io::Error; a panicking user reader is out of scope"),
    (r"^io::(Error::\w+|error::Error::\w+|SeekFrom::\w+)$", TOTAL, "total"),
    (r"^string::ToString::to_string$", TOTAL, "total for core Display impls"),
    (r"^borrow::(ToOwned::to_owned|Borrow::borrow)$", TOTAL, "total"),
]

_COMPILED = [(re.compile(p), c, r) for p, c, r in RULES]


def classify(name):
    for rx, cls, reason in _COMPILED:
        if rx.search(name):
            return cls, reason
    return UNCLASSIFIED, "no rule for this callee (add a row with a reason after reading its documentation)"
