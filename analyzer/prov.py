"""Provenance normal form of value terms.

`norm(t)` abstracts a value term to *where the value comes from*, stripping the error plumbing that does not change
the value on the success path:
    checked_add(a,b)!Some        -> ('+', a, b)        (operands sorted)
    checked_mul(a,b)!Some        -> ('*', a, b)
    try_into(x)!Ok               -> x                  (integer conversion preserves the value when it succeeds)
    zero-extending `as`          -> x                  (u8/u16/u32 -> wider unsigned, incl. usize)
    other integer `as`           -> ('as', to, x)      (may truncate / reinterpret)
    validate_entsize::<T>(c,e)!Ok-> ('entsize', T, e)  (the value is e, and the validation is visible)
    data.get(a..b)!Some          -> ('slice', data, a, b)
    data.get(a..)!Some           -> ('slice_from', data, a)
    P::parse_at(e,c,&mut o,d)!Ok -> ('parse', P, e, c, o, d)
    (*p).f / x.f                 -> ('fld', base, 'f')
    parameters                   -> ('p', i)
    constants                    -> ('c', value)
Everything else keeps its operator with normalised children, so a clamp (`min`), a saturating/wrapping operation, a
different field or an extra offset is visible as a different normal form.  Normal forms are nested tuples."""
from .terms import Term, T, pp, INT_BITS, SIGNED

COMM_CALLS = {"usize::checked_add": "+", "usize::checked_mul": "*", "u64::checked_add": "+", "u64::checked_mul": "*",
              "u32::checked_add": "+", "u32::checked_mul": "*"}


def _zero_ext(frm, to):
    if frm in INT_BITS and to in INT_BITS and frm not in SIGNED and to not in SIGNED:
        fb = INT_BITS[frm]
        tb = 32 if to == "usize" else INT_BITS[to]
        if frm == "usize":
            fb = 64
        return fb <= tb
    return False


# in-crate functions kept as named calls in normal forms (their own behaviour is the subject of another property)
OPAQUE_CALLS = {"string_table::StringTable::get", "string_table::StringTable::get_raw", "parse::ParsingTable::get"}
_PROG = [None]
_SINGLE_OK = {}


def set_program(prog):
    if _PROG[0] is prog:
        return
    _PROG[0] = prog
    _SINGLE_OK.clear()


def single_ok_payload(qual):
    """for an in-crate function with exactly one success outcome whose value is a closed term over its parameters:
    that term (in the callee's parameter space), else None"""
    prog = _PROG[0]
    if prog is None:
        return None
    if qual in _SINGLE_OK:
        return _SINGLE_OK[qual]
    if qual in OPAQUE_CALLS:
        return None
    res = None
    fns = prog.facts.fns.get(qual) or []
    if len(fns) == 1 and (not any("&mut" in x for x in fns[0].get("sig", {}).get("inputs", [])) or not prog.known_name(fns[0])):
        an = prog.analysis(fns[0])
        if an is not None and an.ret_leaves():
            oks = []
            for v, _ in ok_outcomes(an):       # Ok(v) aggregates and forwarded results (payload of the forwarded value)
                if v not in oks:
                    oks.append(v)
            if len(oks) == 1 and prog._closed(oks[0]) and not (oks[0].op == "payload" and oks[0].args[1] == "Ok" and oks[0].args[0].op == "call"
                                                                and oks[0].args[0].args[0] == qual):
                res = oks[0]
    _SINGLE_OK[qual] = res
    return res


def norm(t, depth=0):
    if not isinstance(t, Term):
        return ("raw", repr(t))
    if depth > 40:
        return ("deep",)
    op, a = t.op, t.args
    d = depth + 1
    if op == "const":
        return ("c", a[1])
    if op == "bytes":
        return ("bytes", a[0])
    if op == "param":
        return ("p", a[0])
    if op == "deref":
        return norm(a[0], d)       # shared references are transparent for provenance
    if op == "refval":
        return norm(a[0], d)
    if op == "proj":
        e = a[1]
        if e[0] == "f" and e[1] == 0 and a[0].op == "bin" and a[0].args[0].endswith("WithOverflow"):
            o, x, y, ty = a[0].args   # value component of a checked primitive operation (the overflow flag is asserted separately)
            return norm(Term("bin", o[: -len("WithOverflow")], x, y, ty), d)
        if e[0] == "f" and e[1] == 1 and a[0].op == "call" and a[0].args[0] == "[T]::split_at" and len(a[0].args[2]) == 2:
            # s.split_at(k).1 is s[k..] (where it exists; the precondition k <= len is the panic census's obligation)
            return norm(Term("payload", Term("call", "[T]::get", ("u8", "ops::RangeFrom<usize>"),
                                               (a[0].args[2][0], Term("agg", "adt", "ops::RangeFrom", 0, "RangeFrom", (a[0].args[2][1],)))), "Some"), d)
        if e[0] == "f":
            base = norm(a[0], d)
            if base[0] == "agg" and isinstance(e[1], int) and e[1] < len(base[3]) and (e[2] is None or "closure" not in str(base[1])):
                return base[3][e[1]]       # a field of a value whose construction is visible (tuple, or struct such as start..end)
            return ("fld", base, e[2] if e[2] is not None else e[1])
        if e[0] == "idx":
            return ("idx", norm(a[0], d), norm(e[1], d))
        if e[0] == "v":
            return norm(a[0], d)
        return ("proj", norm(a[0], d), str(e))
    if op == "payload":
        x, vn = a
        if x.op == "call":
            f, g, args = x.args
            if vn == "Some" and f in COMM_CALLS:
                return _comm(COMM_CALLS[f], norm(args[0], d), norm(args[1], d))
            if vn == "Ok" and f in ("convert::TryInto::try_into", "convert::TryFrom::try_from"):
                return norm(args[0], d)
            if vn == "Ok" and f == "parse::ParseAt::validate_entsize":
                return ("entsize", g[0] if g else "?", norm(args[1], d))
            if vn == "Ok" and f.startswith("<") and f.endswith(" as parse::ParseAt>::validate_entsize"):
                return ("entsize", f[1:].split(" as ")[0], norm(args[1], d))
            if vn == "Some" and f == "[T]::get" and args[1].op == "agg" and args[1].args[1] == "ops::Range":
                d_, a_, b_ = norm(args[0], d), norm(args[1].args[4][0], d), norm(args[1].args[4][1], d)
                if b_ == ("len", d_):
                    return ("slice_from", d_, a_)       # s[a .. s.len()] is s[a..]
                return ("slice", d_, a_, b_)
            if vn == "Some" and f == "[T]::get" and args[1].op == "agg" and args[1].args[1] == "ops::RangeFrom":
                return ("slice_from", norm(args[0], d), norm(args[1].args[4][0], d))
            if vn == "Some" and f == "[T]::get" and args[1].op == "agg" and args[1].args[1] == "ops::RangeTo":
                inner = norm(args[0], d)
                n_ = norm(args[1].args[4][0], d)
                if inner[0] == "slice_from":
                    # the first n bytes of the tail from a: bytes [a, a+n)
                    return ("slice", inner[1], inner[2], ("+",) + tuple(sorted((inner[2], n_), key=repr)))
                return ("slice", inner, ("c", 0), n_)
            if vn == "Ok" and f in (_PROG[0].facts.fns if _PROG[0] else ()):
                body = single_ok_payload(f)
                if body is not None:
                    from .terms import rebuild
                    mp = {T.param(i + 1): (x.args[0] if x.op == "refval" else x) for i, x in enumerate(args)}
                    # parameters of reference type are dereferenced in the callee body: *param -> the value
                    mp2 = {}
                    for i, x in enumerate(args):
                        if x.op == "refval":
                            mp2[T.deref(T.param(i + 1))] = x.args[0]
                    mp2.update({T.param(i + 1): x for i, x in enumerate(args)})
                    return norm(rebuild(body, mp2), d)
            if vn == "Ok" and f == "elf_stream::CachingReader::read_bytes" and read_bytes_bounds(args) is not None:
                a_, b_ = read_bytes_bounds(args)
                return ("file", norm(a_, d), norm(b_, d))
            if vn == "Ok" and (f == "parse::ParseAt::parse_at" or f.endswith(" as parse::ParseAt>::parse_at")):
                P = g[0] if f == "parse::ParseAt::parse_at" else f[1:].split(" as ")[0]
                return ("parse", P, norm(args[0], d), norm(args[1], d), norm(args[2], d), norm(args[3], d))
        return ("payload", norm(x, d), vn)
    if op == "cast":
        kind, x, frm, to = a
        if kind in ("PtrToPtr", "Transmute") or kind.startswith("PointerCoercion"):
            # CachingReader::get_bytes(range) inlined: *bufs.get(&(start, end)).expect(..) as a slice
            for y in x.subterms():
                if y.op == "call" and y.args[0] == "collections::HashMap::get" and len(y.args[2]) == 2:
                    k = y.args[2][1]
                    k = k.args[0] if k.op == "refval" else k
                    if k.op == "agg" and len(k.args[4]) == 2:
                        return ("file", norm(k.args[4][0], d), norm(k.args[4][1], d))
        if kind == "IntToInt":
            if _zero_ext(frm, to):
                return norm(x, d)
            return ("as", to, norm(x, d))
        if kind.startswith("PointerCoercion") or kind in ("PtrToPtr", "Transmute"):
            return norm(x, d)
        return ("cast", kind, norm(x, d))
    if op == "unsize":
        return norm(a[0], d)
    if op == "bin":
        o, x, y, ty = a
        if o == "Add":
            return _comm("+", norm(x, d), norm(y, d))
        if o == "Mul":
            return _comm("*", norm(x, d), norm(y, d))
        if o == "Sub":
            return ("-", norm(x, d), norm(y, d))
        if o in ("BitAnd", "BitOr", "BitXor", "Eq", "Ne"):
            return (o,) + tuple(sorted((norm(x, d), norm(y, d)), key=repr))
        return (o, norm(x, d), norm(y, d))
    if op == "un":
        return (a[0], norm(a[1], d))
    if op == "len":
        return ("len", norm(a[0], d))
    if op == "agg":
        kind, adt, vidx, vname, fields = a
        return ("agg", adt or kind, vname, tuple(norm(f, d) for f in fields))
    if op == "call":
        f, g, args = a
        import re as _re
        m_ = _re.match(r"^(u16|u32|u64|u128|i16|i32|i64|i128|u8|i8)::swap_bytes$", f)
        if m_ and len(args) == 1 and args[0].op == "call" and args[0].args[0] in (m_.group(1) + "::from_le_bytes", m_.group(1) + "::from_be_bytes"):
            # reversing the bytes of the little-endian reading is the big-endian reading (and vice versa)
            other = "from_be_bytes" if args[0].args[0].endswith("from_le_bytes") else "from_le_bytes"
            return ("call", m_.group(1) + "::" + other, tuple(norm(x, d) for x in args[0].args[2]))
        if f.endswith("::saturating_sub") and len(args) == 2 and args[1].op == "bin" and args[1].args[0] == "Rem" and args[1].args[2] is args[0] \
                and f.split("::")[0] in ("u8", "u16", "u32", "u64", "usize"):
            # a.saturating_sub(x % a): the remainder is below a (a != 0, or the remainder itself traps), so this is the plain difference
            return ("-", norm(args[0], d), norm(args[1], d))
        return ("call", f, tuple(norm(x, d) for x in args))
    if op == "discr":
        return ("discr", norm(a[0], d))
    if op == "phi":
        return ("phi", a[0][1], repr(a[1]))
    if op == "fresh":
        return ("fresh", a[0][1], a[1])
    if op in ("okelse", "classsel"):
        return (op,) + tuple(norm(x, d) for x in a)
    if op == "adv":
        return ("adv", norm(a[0], d))
    if op == "mterm":
        return ("mterm", norm(a[0], d), tuple((v, norm(x, d)) for v, x in a[1]))
    if op == "ite":
        return ("ite", norm(a[0], d), norm(a[1], d), norm(a[2], d))
    return (op,) + tuple(norm(x, d) if isinstance(x, Term) else ("raw", repr(x)) for x in a)


def show(n, depth=0):
    """compact rendering of a normal form"""
    if not isinstance(n, tuple) or not n:
        return repr(n)
    k = n[0]
    if k == "c":
        return str(n[1])
    if k == "p":
        return "arg%d" % n[1]
    if k == "fld":
        return "%s.%s" % (show(n[1]), n[2])
    if k in ("+", "*", "-"):
        return "(%s %s %s)" % (show(n[1]), k, show(n[2]))
    if k == "Rem":
        return "(%s %% %s)" % (show(n[1]), show(n[2]))
    if k == "slice":
        return "%s[%s .. %s]" % (show(n[1]), show(n[2]), show(n[3]))
    if k == "slice_from":
        return "%s[%s ..]" % (show(n[1]), show(n[2]))
    if k == "entsize":
        return "validated_entsize<%s>(%s)" % (n[1].split("::")[-1], show(n[2]))
    if k == "parse":
        return "parse<%s>(%s @ %s)" % (n[1].split("::")[-1], show(n[5]), show(n[4]))
    if k == "as":
        return "(%s as %s)" % (show(n[2]), n[1])
    if k == "agg":
        return "%s%s(%s)" % ((n[1] or "").split("::")[-1], "::" + n[2] if n[2] else "", ", ".join(show(x) for x in n[3]))
    if k == "call":
        return "%s(%s)" % (n[1], ", ".join(show(x) for x in n[2]))
    if k == "payload":
        return "%s!%s" % (show(n[1]), n[2])
    return "%s(%s)" % (k, ", ".join(show(x) if isinstance(x, tuple) else str(x) for x in n[1:]))


def leaves_fields(n, out=None):
    """all ('fld', base, name) nodes occurring in a normal form"""
    if out is None:
        out = set()
    if isinstance(n, tuple):
        if n and n[0] == "fld":
            out.add(n)
        for x in n:
            leaves_fields(x, out)
    return out


def contains(n, sub):
    if n == sub:
        return True
    if isinstance(n, tuple):
        return any(contains(x, sub) for x in n)
    return False


# ---- small constructors for expected normal forms
def P(i):
    return ("p", i)


def F_(base, name):
    return ("fld", base, name)


def C(v):
    return ("c", v)


def _comm(op, a, b):
    """commutative normal form with the neutral element removed: x + 0 = x, x * 1 = x (also for the checked forms that succeeded)"""
    unit = ("c", 0) if op == "+" else ("c", 1)
    if a == unit:
        return b
    if b == unit:
        return a
    if isinstance(a, tuple) and isinstance(b, tuple) and len(a) == 2 and len(b) == 2 and a[0] == "c" and b[0] == "c" \
            and isinstance(a[1], int) and isinstance(b[1], int) and 0 <= a[1] < (1 << 31) and 0 <= b[1] < (1 << 31):
        v = a[1] + b[1] if op == "+" else a[1] * b[1]
        if v < (1 << 31):
            return ("c", v)       # small constants: the sum / product is width-independent
    return (op,) + tuple(sorted((a, b), key=repr))


def ADD(a, b):
    return _comm("+", a, b)


def MUL(a, b):
    return _comm("*", a, b)


def SLICE(d, a, b):
    return ("slice", d, a, b)


def ENTSIZE(ty, e):
    return ("entsize", ty, e)


def PARSE(ty, endian, cls, off, data):
    return ("parse", ty, endian, cls, off, data)


def AS(to, x):
    return ("as", to, x)


def ok_outcomes(an):
    """[(value term of a success outcome, State)] of a function returning Result: handles `Ok(v)` aggregates and
    results forwarded from ok_or / callee results"""
    out = []
    for t, st in an.ret_leaves() or []:
        if t.op == "agg" and t.args[3] == "Ok":
            out.append((t.args[4][0], st))
        elif t.op == "agg" and t.args[3] == "Err":
            continue
        else:
            v = T.payload(t, "Ok")
            out.append((v, st))
    return out


def read_bytes_bounds(args):
    """(start, end) of a CachingReader::read_bytes call, written read_bytes(start, end) or read_bytes(start..end)"""
    args = list(args)
    if len(args) == 3:
        return args[1], args[2]
    if len(args) == 2:
        r = args[1]
        if r.op == "agg" and r.args[1] == "ops::Range" and len(r.args[4]) == 2:
            return r.args[4][0], r.args[4][1]
        fs = {"start": 0, "end": 1}
        return Term("proj", r, ("f", 0, "start")), Term("proj", r, ("f", 1, "end"))
    return None


def failure_causes(an):
    """Canonical description of every error outcome of a function returning Result: why does it fail?
    ('conv', x)            a try_into conversion of x failed
    ('entsize', T, e)      validate_entsize::<T>(.., e) failed
    ('parse', P, off, d)   P::parse_at(d @ off) failed
    ('read', a, b)         the bytes [a, b) of the file / stream could not be read (slice get -> None, read_bytes/load_bytes -> Err)
    ('slice', buf, a, b)   buf.get(a..b) -> None on some other buffer
    ('overflow', expr)     a checked arithmetic operation overflowed
    ('callee', f, args)    an in-crate callee's error is propagated
    ('explicit', variant, payload, guards)  an error constructed under an explicit condition (guards = comparison facts of that path)"""
    out = []
    for t, st in an.ret_leaves() or []:
        if not (t.op == "agg" and t.args[3] == "Err"):
            continue
        out.append((classify_failure(an, t, st), t, st))
    return out


def helper_causes(qual, nargs, depth=0):
    """failure causes of a private helper the rules do not name, expressed in the caller's terms (its parameters replaced by the
    normal forms of the actual arguments); None when the function is named, unknown or recursive"""
    prog = _PROG[0]
    if prog is None or depth > 3:
        return None
    fns = prog.facts.fns.get(qual) or []
    if len(fns) != 1 or prog.known_name(fns[0]):
        return None
    an = prog.analysis(fns[0])
    if an is None:
        return None
    out = []
    for c, t, st in failure_causes(an):
        out.append(_subst_params(c, nargs))
    return tuple(out)


def _subst_params(n, nargs):
    if isinstance(n, tuple):
        if len(n) == 2 and n[0] == "p" and isinstance(n[1], int) and 1 <= n[1] <= len(nargs):
            return nargs[n[1] - 1]
        r = tuple(_subst_params(x, nargs) for x in n)
        # commutative forms are kept with sorted operands: restore that after the substitution
        if len(r) == 3 and r[0] in ("+", "*"):
            return _comm(r[0], r[1], r[2])
        if len(r) == 3 and r[0] in ("Eq", "Ne", "BitAnd", "BitOr", "BitXor"):
            return (r[0],) + tuple(sorted(r[1:], key=repr))
        return r
    return n


def _is_filebuf(n):
    return n == ("fld", ("p", 1), "data") or n == ("p", 2) or n == ("p", 1)


def classify_failure(an, t, st):
    e = t.args[4][0]
    inner = e
    if e.op == "call" and e.args[0] == "convert::From::from":
        inner = e.args[2][0]
    elif e.op == "agg" and len(e.args[4]) == 1 and e.args[4][0].op == "payload" and e.args[4][0].args[1] == "Err":
        inner = e.args[4][0]      # Target::Variant(source error): the body of an in-crate From impl (what `?` applies)
    if inner.op == "payload" and inner.args[1] == "Err":
        src = inner.args[0]
        if src.op == "call":
            f, g, args = src.args
            if f == "option::Option::ok_or_else":
                # the error is produced exactly when the Option is None
                x = args[0]
                if x.op == "call" and "::checked_" in x.args[0]:
                    return ("overflow", norm(Term("payload", x, "Some")))
                if x.op == "call" and x.args[0] == "[T]::get":
                    buf, r = x.args[2]
                    rn = norm(r)
                    if rn[0] == "agg" and len(rn[3]) == 2:
                        bn = norm(buf)
                        return ("read", rn[3][0], rn[3][1]) if _is_filebuf(bn) else ("slice", bn, rn[3][0], rn[3][1])
                    if rn[0] == "agg" and len(rn[3]) == 1 and "RangeFrom" in str(rn[1]):
                        bn = norm(buf)
                        return ("read", rn[3][0], ("len", bn)) if _is_filebuf(bn) else ("slice", bn, rn[3][0], ("len", bn))
            if f in ("convert::TryInto::try_into", "convert::TryFrom::try_from"):
                return ("conv", norm(args[0]))
            if f == "parse::ParseAt::validate_entsize" or f.endswith(" as parse::ParseAt>::validate_entsize"):
                T_ = g[0] if f == "parse::ParseAt::validate_entsize" else f[1:].split(" as ")[0]
                return ("entsize", T_, norm(args[1]))
            if f == "parse::ParseAt::parse_at" or f.endswith(" as parse::ParseAt>::parse_at"):
                P_ = g[0] if f == "parse::ParseAt::parse_at" else f[1:].split(" as ")[0]
                return ("parse", P_, norm(args[2]), norm(args[3]))
            if f == "elf_stream::CachingReader::read_bytes" and read_bytes_bounds(args) is not None:
                a_, b_ = read_bytes_bounds(args)
                return ("read", norm(a_), norm(b_))
            if f == "elf_stream::CachingReader::load_bytes":
                r = norm(args[1])
                if r[0] == "agg" and len(r[3]) == 2:
                    return ("read", r[3][0], r[3][1])
            sub = helper_causes(f, tuple(norm(a) for a in args))
            if sub is not None:
                return ("via", f, sub)
            return ("callee", f, tuple(norm(a) for a in args))
        return ("propagated", norm(src))
    if inner.op == "agg":
        variant = inner.args[3]
        if variant == "IntegerOverflow":
            ovs = [an.simp(f[1], st.facts) for f in st.facts if f[0] == "var" and f[2] == "None" and f[1].op == "call" and "::checked_" in f[1].args[0]]
            if len(ovs) >= 1:
                return ("overflow", tuple(sorted((norm(Term("payload", x, "Some")) for x in ovs), key=repr))[-1])
        if variant == "SliceReadError":
            for f in st.facts:
                if f[0] == "var" and f[2] == "None" and f[1].op == "call" and f[1].args[0] == "[T]::get":
                    g2 = an.simp(f[1], st.facts)
                    buf, r = g2.args[2]
                    rn = norm(r)
                    pay = norm(inner.args[4][0]) if inner.args[4] else None
                    if rn[0] == "agg" and len(rn[3]) == 2:
                        a, b = rn[3]
                        if pay is None or pay == ("agg", "tuple", None, (a, b)):
                            bn = norm(buf)
                            return ("read", a, b) if _is_filebuf(bn) else ("slice", bn, a, b)
                    if rn[0] == "agg" and len(rn[3]) == 1 and "RangeFrom" in str(rn[1]):
                        # buf.get(a..) is None: the tail [a, len) does not exist
                        bn = norm(buf)
                        b = ("len", bn)
                        return ("read", rn[3][0], b) if _is_filebuf(bn) else ("slice", bn, rn[3][0], b)
        guards = tuple(sorted(((f[0], norm(f[1])) for f in st.facts if f[0] in ("true", "false") and f[1].op == "bin"), key=repr))
        return ("explicit", variant, tuple(norm(x) for x in inner.args[4]), guards)
    return ("other", norm(e))
