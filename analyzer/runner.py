"""Check runner: scans /repo with elfscan (cached per tree state + feature configuration), runs the
rule module of one property, applies the known-findings protocol, writes evidence and replay files."""
import hashlib
import importlib
import json
import os
import subprocess
import sys
import time

from .facts import Facts

VERIF = os.path.dirname(os.path.dirname(os.path.abspath(__file__)))
REPO = os.environ.get("VERIF_REPO", "/repo")
CACHE = os.path.join(VERIF, ".cache")
DRIVER = os.path.join(VERIF, "elfscan", "target", "debug", "elfscan")

# all subsets of the declared cargo features; "std" implies "alloc"
FEATURE_SETS = [
    (),
    ("alloc",),
    ("std",),
    ("to_str",),
    ("alloc", "std"),
    ("alloc", "to_str"),
    ("std", "to_str"),
    ("alloc", "std", "to_str"),
]
DEFAULT_FEATURES = ("alloc", "std", "to_str")


def effective(features):
    s = set(features)
    if "std" in s:
        s.add("alloc")
    return tuple(sorted(s))


def tree_hash(repo=REPO):
    h = hashlib.sha256()
    paths = []
    for root, dirs, files in os.walk(os.path.join(repo, "src")):
        dirs.sort()
        for f in sorted(files):
            paths.append(os.path.join(root, f))
    for f in ("Cargo.toml", "Cargo.lock"):
        p = os.path.join(repo, f)
        if os.path.exists(p):
            paths.append(p)
    if os.path.exists(DRIVER):
        paths.append(DRIVER)
    for p in paths:
        h.update(p.encode())
        with open(p, "rb") as fh:
            h.update(hashlib.sha256(fh.read()).digest())
    return h.hexdigest()[:20]


class Violation:
    def __init__(self, rule, key, where, msg, detail=None):
        self.rule = rule          # rule id
        self.key = key            # stable instance key (no line numbers)
        self.where = where        # file:line:col (diagnostic only)
        self.msg = msg
        self.detail = detail or {}

    def to_json(self):
        return {"rule": self.rule, "key": self.key, "where": self.where, "msg": self.msg, "detail": self.detail}


class Report:
    """Collected by a rule module."""

    def __init__(self, prop):
        self.prop = prop
        self.obligations = []     # dicts: rule, key, where, status, by
        self.violations = []
        self.info = {}            # extra coverage keys
        self.assumptions = []
        self.trusted_base = []
        self.samples = []
        self.notes = []
        self._seen = {}

    def _uniq(self, rule, key):
        n = self._seen.get((rule, key), 0)
        self._seen[(rule, key)] = n + 1
        return key if n == 0 else "%s#%d" % (key, n)

    def ok(self, rule, key, where, by):
        key = self._uniq(rule, key)
        self.obligations.append({"rule": rule, "key": key, "where": where, "status": "discharged", "by": by})

    def bad(self, rule, key, where, msg, detail=None):
        key = self._uniq(rule, key)
        self.obligations.append({"rule": rule, "key": key, "where": where, "status": "VIOLATED", "by": msg})
        self.violations.append(Violation(rule, key, where, msg, detail))

    def floor(self, rule, what, found, minimum):
        """fail closed when an enumerator found fewer instances than were confirmed by hand"""
        if found < minimum:
            self.bad("floor", "%s:%s" % (rule, what), "-",
                     "enumerator '%s' of rule %s found %d instances, floor is %d (anchor moved or rule went vacuous)"
                     % (what, rule, found, minimum))
        else:
            self.ok("floor", "%s:%s" % (rule, what), "-", "%d >= %d" % (found, minimum))

    def require(self, cond, rule, key, where, by, msg, detail=None):
        if cond:
            self.ok(rule, key, where, by)
        else:
            self.bad(rule, key, where, msg, detail)
        return cond


class Ctx:
    def __init__(self, prop, tier, repo=REPO):
        self.prop = prop
        self.tier = tier
        self.repo = repo
        self._facts = {}
        self.scans = []
        self._thash = None
        self.default_features = DEFAULT_FEATURES

    def thash(self):
        if self._thash is None:
            self._thash = tree_hash(self.repo)
        return self._thash

    def facts(self, features=None):
        if features is None:
            features = self.default_features
        features = tuple(sorted(effective(features)))
        if features in self._facts:
            return self._use(self._facts[features])
        os.makedirs(CACHE, exist_ok=True)
        tag = "-".join(features) if features else "none"
        path = os.path.join(CACHE, "facts-%s-%s.json" % (self.thash(), tag))
        if not os.path.exists(path):
            t0 = time.time()
            tmp = path + ".%d.tmp" % os.getpid()
            args = [os.path.join(VERIF, "scan.sh"), self.repo, tmp, "elf", "--no-default-features"]
            if features:
                args += ["--features", ",".join(features)]
            r = subprocess.run(args, capture_output=True, text=True)
            if r.returncode != 0 or not os.path.exists(tmp):
                sys.stdout.write(r.stdout[-4000:])
                sys.stderr.write(r.stderr[-8000:])
                raise SystemExit("elfscan failed for features %r (does /repo compile?)" % (features,))
            os.replace(tmp, path)
            self.scans.append({"features": list(features), "wall_s": round(time.time() - t0, 2)})
            self._gc_cache()
        f = _FACTS_MEMO.get(path)
        if f is None:
            f = _FACTS_MEMO[path] = Facts(path)      # one fact base (and so one set of per-function analyses) per process
        if f["crate"] != "elf" or len(f["fns"]) < 100:
            raise SystemExit("fact base implausible: crate=%r fns=%d" % (f["crate"], len(f["fns"])))
        self._facts[features] = f
        return self._use(f)

    @staticmethod
    def _use(f):
        # normal forms (prov.norm) look through in-crate helpers of the program they are told about: always the one being judged,
        # whichever rule asks first (no dependence on the order in which rules or properties run)
        from . import prov
        from .engine import program
        prov.set_program(program(f))
        return f

    def _gc_cache(self):
        # keep the cache small: drop fact files of other tree states when more than 40 accumulate
        try:
            files = sorted((os.path.getmtime(os.path.join(CACHE, f)), f) for f in os.listdir(CACHE)
                           if f.startswith("facts-"))
            for _, f in files[:-40]:
                os.remove(os.path.join(CACHE, f))
        except OSError:
            pass


def load_known_findings():
    known, fixed = [], []
    p = os.path.join(VERIF, "KNOWN_FINDINGS.txt")
    if os.path.exists(p):
        for line in open(p):
            line = line.strip()
            if not line or line.startswith("#"):
                continue
            if line.startswith("known:"):
                # known: property=C01 key=<instance key> :: description
                body = line[len("known:"):].strip()
                parts = body.split("::", 1)
                kv = dict(x.split("=", 1) for x in parts[0].split() if "=" in x)
                known.append({"property": kv.get("property"), "key": kv.get("key"),
                              "desc": parts[1].strip() if len(parts) > 1 else ""})
            elif line.startswith("fixed:"):
                fixed.append(line)
    return known, fixed


_FACTS_MEMO = {}


def main(argv):
    # several properties in one process share the fact base and the per-function analyses:  runner C01,C05,C18 --repo ...
    props = [a for a in argv if not a.startswith("-")][:1]
    if props and ("," in props[0] or props[0].upper() == "ALL"):
        names = ["C%02d" % i for i in range(1, 21)] if props[0].upper() == "ALL" else props[0].split(",")
        rest = [a for a in argv if a != props[0]]
        rc = 0
        for n in names:
            try:
                rc = max(rc, main1([n] + rest) or 0)
            except SystemExit as e:
                print("%s ERROR %s" % (n, e))
                rc = max(rc, 2)
        return rc
    return main1(argv)


def main1(argv):
    import argparse
    ap = argparse.ArgumentParser()
    ap.add_argument("prop")
    ap.add_argument("--tier", default=os.environ.get("VERIF_TIER", "quick"), choices=["quick", "thorough"])
    ap.add_argument("--repo", default=REPO)
    ap.add_argument("--explain", default=None, help="re-evaluate the instance recorded in a replay file")
    ap.add_argument("--no-evidence", action="store_true")
    a = ap.parse_args(argv)
    prop = a.prop.upper()
    t0 = time.time()
    seed = int(os.environ.get("VERIF_SEED", "0") or 0)
    mod = importlib.import_module("analyzer.rules.%s" % prop.lower())
    ctx = Ctx(prop, a.tier, a.repo)
    rep = Report(prop)
    mod.run(ctx, rep)
    if a.tier == "thorough":
        thorough_extras(ctx, rep, mod, prop)

    known, _fixed = load_known_findings()
    known_keys = {k["key"]: k for k in known if k["property"] == prop}
    real, suppressed = [], []
    for v in rep.violations:
        if v.key in known_keys:
            suppressed.append(v)
        else:
            real.append(v)

    if a.explain:
        want = json.load(open(a.explain))
        hits = [v for v in rep.violations if v.key == want.get("key")]
        if hits:
            for v in hits:
                print("STILL VIOLATED %s rule=%s key=%s %s: %s" % (prop, v.rule, v.key, v.where, v.msg))
            return 1
        print("instance %s no longer violated on the current tree" % want.get("key"))
        return 0

    for v in suppressed:
        print("KNOWN-FINDING: property=%s %s [%s] %s" % (prop, v.key, v.where, known_keys[v.key]["desc"] or v.msg))
    vdir = os.path.join(VERIF, "evidence", "violations")
    for i, v in enumerate(real):
        os.makedirs(vdir, exist_ok=True)
        rp = os.path.join(vdir, "%s-%d.json" % (prop, i))
        with open(rp, "w") as f:
            json.dump(dict(v.to_json(), property=prop, tier=a.tier), f, indent=1)
        print("%s rule=%s key=%s %s: %s" % (prop, v.rule, v.key, v.where, v.msg))
        print("VIOLATION property=%s replay=%s" % (prop, rp))

    n_obl = len(rep.obligations)
    n_dis = sum(1 for o in rep.obligations if o["status"] == "discharged")
    level = getattr(mod, "LEVEL", "other")
    cov = dict(rep.info)
    cov.update({
        "obligations": n_obl,
        "discharged": n_dis,
        "checker_cmd": "./check %s --tier %s" % (prop, a.tier),
        "trusted_base": rep.trusted_base,
        "rule": getattr(mod, "RULE_TEXT", ""),
        "explanation": getattr(mod, "EXPLANATION", ""),
        "evaluations": n_obl,
        "distinct_nontrivial": len({(o["rule"], o["key"]) for o in rep.obligations if o["rule"] != "floor"}),
        "samples": (rep.samples or rep.obligations)[:40],
        "per_rule": _per_rule(rep.obligations),
        "scans": ctx.scans,
        "configurations": sorted("+".join(k) if k else "no-features" for k in ctx._facts.keys()),
        "tree_hash": ctx.thash(),
        "known_findings_suppressed": [v.key for v in suppressed],
        "notes": rep.notes,
    })
    if real and level == "proof":
        pass
    ev = {
        "property_id": prop,
        "tier": a.tier,
        "seed": seed,
        "level": level,
        "coverage": cov,
        "assumptions": rep.assumptions,
        "wall_s": round(time.time() - t0, 3),
        "violations": len(real),
    }
    if not a.no_evidence:
        os.makedirs(os.path.join(VERIF, "evidence"), exist_ok=True)
        with open(os.path.join(VERIF, "evidence", "%s.json" % prop), "w") as f:
            json.dump(ev, f, indent=1, sort_keys=True)
            f.write("\n")
    print("%s tier=%s obligations=%d discharged=%d violations=%d known=%d wall=%.1fs"
          % (prop, a.tier, n_obl, n_dis, len(real), len(suppressed), time.time() - t0))
    return 1 if real else 0


def thorough_extras(ctx, rep, mod, prop):
    """thorough tier, common part: (1) the same rules in every other distinct feature configuration in which their scope
    exists, (2) the control-mutant self-test of this property (each seeded single-edit mutant must be reported, each
    behaviour-preserving edit must stay silent)."""
    seen = {tuple(sorted(effective(DEFAULT_FEATURES)))}
    if not getattr(mod, "CONFIG_HANDLED", False):
        for fs in FEATURE_SETS:
            e = tuple(sorted(effective(fs)))
            if e in seen:
                continue
            seen.add(e)
            if "std" in getattr(mod, "REQUIRES", ()) and "std" not in e:
                continue
            if "to_str" in getattr(mod, "REQUIRES", ()) and "to_str" not in e:
                continue
            sub = Report(prop)
            c2 = Ctx(prop, "quick", ctx.repo)
            c2._facts, c2.scans, c2._thash = ctx._facts, ctx.scans, ctx._thash
            c2.default_features = e
            mod.run(c2, sub)
            tag = "[%s] " % ("+".join(e) or "no-features")
            for o in sub.obligations:
                o = dict(o, key=tag + o["key"])
                rep.obligations.append(o)
            for v in sub.violations:
                v.key = tag + v.key
                rep.violations.append(v)
    # control mutants
    import subprocess
    r = subprocess.run([sys.executable, os.path.join(VERIF, "tools", "controls.py"), "run", "--prop", prop, "--jobs", "12"],
                       capture_output=True, text=True, env=dict(os.environ, VERIF_REPO=ctx.repo))
    n = 0
    for line in r.stdout.splitlines():
        parts = line.split(None, 3)
        if len(parts) >= 3 and parts[0] == prop:
            n += 1
            cid, status = parts[1], parts[2]
            msg = parts[3] if len(parts) > 3 else ""
            if status in ("caught", "caught-elsewhere", "silent-ok", "skipped"):
                rep.ok("self-test", "control:" + cid, "-", status + (": " + msg[:160] if status == "skipped" else ""))
            else:
                rep.bad("self-test", "control:" + cid, "-", "control mutant %s: %s %s" % (cid, status, msg[:200]))
    rep.info["control_mutants"] = n


def _per_rule(obls):
    d = {}
    for o in obls:
        r = d.setdefault(o["rule"], {"obligations": 0, "discharged": 0})
        r["obligations"] += 1
        if o["status"] == "discharged":
            r["discharged"] += 1
    return d


if __name__ == "__main__":
    sys.exit(main(sys.argv[1:]))
