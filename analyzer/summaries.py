"""Effect summaries of in-crate callees that take `&mut` arguments.

For a callee f(.., &mut x, ..) -> Result<..> the summary is computed from f's own outcome expansion
(FnAnalysis.ret_leaves): the final value of *x on the Ok outcomes (must be the same closed term on all of them,
possibly per ELF class) and on the Err outcomes.  At a call site the pointee becomes
    okelse(R, ok_value[args], err_value[args] | fresh)
where R is the (congruent) call term, so that a later `?` on R selects the right value."""
from .terms import T, Term, pp

_cache = {}


def _class_param(lf):
    for i, ty in enumerate(lf.get("sig", {}).get("inputs", [])):
        if ty.endswith("file::Class"):
            return i + 1
    return None


def _outcome_values(prog, lf, assume, mut_params):
    """returns {param: (ok_value|None, err_value|None)} in the callee's term space; None = not unique / not closed"""
    an = prog.analysis(lf, assume)
    if an is None:
        return None
    ps = an.paths()
    leaves = [(t, st) for t, st, _ in ps] if ps is not None else an.ret_leaves()
    if not leaves:
        return None
    from .prover import Prover
    pv = Prover(an)
    res = {}
    for i in mut_params:
        lv = (("M", T.param(i)), ())
        init = T.deref(T.param(i))
        oks, errs, other = [], set(), False
        for t, st in leaves:
            v = an.read(st, lv)
            if t.op == "agg" and t.args[3] in ("Ok", "Some"):
                oks.append((v, st))
            elif t.op == "agg" and t.args[3] in ("Err", "None"):
                errs.add(v)
            else:
                other = True
        okset = {v for v, _ in oks}
        okv = next(iter(okset)) if len(okset) == 1 and not other and prog._closed(next(iter(okset))) else None
        if okv is None and oks and not other and all(pv.lt(init, v, st.facts) for v, st in oks):
            okv = Term("adv", init)   # every success path leaves the cursor strictly beyond where it started
        errv = next(iter(errs)) if len(errs) == 1 and not other and prog._closed(next(iter(errs))) else None
        res[i] = (okv, errv, bool(oks))
    return res


def summary(prog, lf, mut_params):
    key = (lf["id"], tuple(mut_params))
    if key in _cache and _cache[key][0] is prog:
        return _cache[key][1]
    base = _outcome_values(prog, lf, (), mut_params)
    out = {"base": base, "by_class": None, "class_param": None}
    cp = _class_param(lf)
    if base is not None and cp is not None and any(v[0] is None or v[0].op == "adv" for v in base.values()):
        per = {}
        for cname in ("ELF32", "ELF64"):
            per[cname] = _outcome_values(prog, lf, (("var", T.param(cp), cname),), mut_params)
        if all(per.values()):
            out["by_class"] = per
            out["class_param"] = cp
    _cache[key] = (prog, out)
    return out


def tree_summary(prog, lf, mut_params):
    """(decision tree over the callee's parameters whose leaves are tuples (returned value, final value of each &mut pointee,
    final value of every other place written through a pointer that is reachable from the parameters), [those other places])"""
    key = ("fxtree", lf["id"], tuple(mut_params))
    if key in prog._hints:
        return prog._hints[key]
    res = None
    sub = prog.analysis(lf)
    if sub is not None and not sub.loops:
        direct = {("M", T.param(i)) for i in mut_params}
        ps = sub.paths()
        extra = []
        ok = ps is not None
        for t_, st_, _ in ps or []:
            for (root, path) in st_.env:
                if root[0] == "M" and root not in direct and (root, path) not in extra:
                    if prog._closed(root[1]):
                        extra.append((root, path))
                    else:
                        ok = False       # a write through a pointer this summary cannot name
        extra.sort(key=repr)
        if ok:
            def value_of(t, st):
                vals = [t]
                for i in mut_params:
                    vals.append(sub.read(st, (("M", T.param(i)), ())))
                for lv in extra:
                    vals.append(sub.read(st, lv))
                return T.agg("tuple", None, 0, None, vals)
            items = prog.leaf_items(sub, value_of)
            if items:
                from .engine import build_tree
                tr = build_tree(items)
                if tr is not None:
                    res = (tr, extra)
    prog._hints[key] = res
    return res


def apply_effect_summary(prog, an, st, site, lf, callee, generics, args, arg_lvs, mut_idx, t):
    dty = t["dest"]["ty"]
    mut_params = [i + 1 for i in mut_idx]
    if an.depth > 6:
        return None
    if not prog.known_name(lf):
        # a helper the rules do not know by name: describe it by cases (so that extracting it changed nothing)
        ts = tree_summary(prog, lf, mut_params)
        if ts is not None:
            tree, extra = ts
            before = {i: an.read(st, arg_lvs[i]) for i in mut_idx}
            cargs = [T.refval(before[i]) if i in mut_idx else prog._stabilise(an, st, a) for i, a in enumerate(args)]
            gm = prog.gmap(lf, callee)
            inst = prog.subst(an, st, tree, cargs, gm)
            # where do the other written places live in the caller?  (e.g. `*captured_ref = ..` inside a closure)
            targets = []
            okx = inst is not None
            for (root, path) in extra:
                ptr = prog.subst(an, st, root[1], [args[i] if i in mut_idx else c for i, c in enumerate(cargs)], gm) if okx else None
                if ptr is None:
                    okx = False
                    break
                if ptr.op == "ref":
                    targets.append((ptr.args[0], tuple(ptr.args[1]) + tuple(path)))
                elif ptr.op == "refval":
                    okx = False      # the caller only has the value, not the place
                    break
                else:
                    targets.append((("M", ptr), tuple(path)))
            if okx:
                for k, i in enumerate(mut_idx):
                    nv = T.proj(inst, ("f", k + 1, None))
                    for x in nv.subterms():
                        if x.op == "bin" and x.args[0] == "Add":
                            prog.noovf.add(x)
                    an.write(st, arg_lvs[i], nv)
                for k, lv in enumerate(targets):
                    an.write(st, lv, T.proj(inst, ("f", len(mut_idx) + 1 + k, None)))
                return T.proj(inst, ("f", 0, None))
    s = summary(prog, lf, mut_params)
    if s["base"] is None:
        return None
    # call term: &mut arguments are represented by the value they point to at the call
    before = {i: an.read(st, arg_lvs[i]) for i in mut_idx}
    cargs = []
    for i, a in enumerate(args):
        if i in mut_idx:
            cargs.append(T.refval(before[i]))
        else:
            cargs.append(prog._stabilise(an, st, a))
    R = T.call(lf["qual"], generics, cargs)
    sub_args = list(cargs)
    for i in mut_idx:
        okv, errv, has_ok = s["base"][i + 1]
        new_ok = None
        if okv is not None and not (okv.op == "adv" and s["by_class"] is not None):
            new_ok = prog.subst(an, st, okv, sub_args)
        elif s["by_class"] is not None:
            cls = args[s["class_param"] - 1]
            vals = {}
            for cname in ("ELF32", "ELF64"):
                o = s["by_class"][cname][i + 1][0]
                vals[cname] = prog.subst(an, st, o, sub_args) if o is not None else None
            if all(v is not None for v in vals.values()):
                if cls.op == "agg" and cls.args[3] in vals:
                    new_ok = vals[cls.args[3]]
                elif vals["ELF32"] is vals["ELF64"]:
                    new_ok = vals["ELF32"]
                else:
                    new_ok = Term("classsel", cls, vals["ELF32"], vals["ELF64"])
            elif okv is not None:
                new_ok = prog.subst(an, st, okv, sub_args)
        new_err = prog.subst(an, st, errv, sub_args) if errv is not None else None
        if new_ok is not None:
            for x in new_ok.subterms():
                if x.op == "bin" and x.args[0] == "Add":
                    prog.noovf.add(x)   # cursor of successful checked reads
        if new_ok is None and has_ok:
            new_ok = T.fresh(site, "arg%d:ok" % i)
        if new_ok is None:
            new_ok = T.fresh(site, "arg%d:ok" % i)
        if new_err is None:
            new_err = Term("errval", R, i)
        an.write(st, arg_lvs[i], Term("okelse", R, new_ok, new_err))
    return R
