"""Effect summaries of in-crate callees that take `&mut` arguments (filled in later)."""


def apply_effect_summary(prog, an, st, site, lf, callee, generics, args, arg_lvs, mut_idx, t):
    return None
