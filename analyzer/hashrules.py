"""Rules for the two symbol hash tables (C11 GNU, C12 SysV): soundness clause, lookup linkage, hash-function form."""
from .engine import analyze_fn, norm as nm, program
from .terms import T, Term, pp, INT_BITS
from . import prov
from .prov import norm, show, P, F_, C, ADD

M32 = 1 << 32


def wh(span):
    return "%s:%d:%d" % (span["file"], span["line"], span["col"])


def some_outcomes(an):
    out = []
    for t, st in an.ret_leaves() or []:
        if t.op == "agg" and t.args[3] == "Ok" and t.args[4][0].op == "agg" and t.args[4][0].args[3] == "Some":
            out.append((t.args[4][0].args[4][0], st))
    return out


def fact_norms(st):
    out = set()
    for f in st.facts:
        if f[0] in ("true", "false"):
            out.add((f[0], norm(f[1])))
    return out


# ------------------------------------------------------------------ soundness
def soundness(F, rep, q, rule):
    """every Ok(Some((i, s))): s = symtab.get(i)!Ok with the same i, reached only with strtab.get_raw(s.st_name)!Ok == name"""
    fn = F.fn(q)
    if fn is None:
        rep.bad(rule, q, "src/hash.rs", "anchor missing: %s" % q)
        return None
    an = analyze_fn(F, fn)
    w = wh(fn["span"])
    outs = some_outcomes(an)
    rep.require(len(outs) >= 1, rule, q + ":some", w, "has a symbol-yielding outcome", "%s never yields a symbol" % q)
    name, symtab, strtab = P(2), P(3), P(4)
    for val, st in outs:
        n = norm(val)
        msgs = []
        if not (n[0] == "agg" and len(n[3]) == 2):
            rep.bad(rule, q + ":value", w, "UNRECOGNISED result %s" % show(n)[:200])
            continue
        i, s = n[3]
        want_s = ("payload", ("call", "parse::ParsingTable::get", (symtab, i)), "Ok")
        if s != want_s:
            msgs.append("the returned symbol is %s, not symtab.get(returned index %s)" % (show(s)[:160], show(i)[:80]))
        want_cmp = ("Eq",) + tuple(sorted((("payload", ("call", "string_table::StringTable::get_raw", (strtab, F_(want_s, "st_name"))), "Ok"), name), key=repr))
        if ("true", want_cmp) not in fact_norms(st):
            msgs.append("the symbol is returned without strtab.get_raw(symbol.st_name) == name having been established on that path")
        rep.require(not msgs, rule, q + ":sound", w, "returned (i, symtab[i]) only after its name compared equal to the query",
                    "%s: %s" % (q, "; ".join(msgs)))
    return an


# ------------------------------------------------------------------ hash function forms
def linear_form(t, atoms):
    """ring normal form over Z/2^32 of a term built from wrapping add/mul/shl: dict atom->coeff plus const under key 1; None if not linear"""
    if t in atoms:
        return {atoms[t]: 1}
    if t.op == "const" and isinstance(t.args[1], int):
        return {1: t.args[1] % M32}
    if t.op == "call" and t.args[0] in ("u32::wrapping_add", "u32::wrapping_mul", "u32::wrapping_shl", "u32::wrapping_sub"):
        a, b = t.args[2]
        la, lb = linear_form(a, atoms), linear_form(b, atoms)
        if la is None or lb is None:
            return None
        return _combine(t.args[0].split("_")[-1], la, lb)
    if t.op == "bin" and t.args[3] == "u32" and t.args[0] in ("Add", "Mul", "Shl", "Sub"):
        la, lb = linear_form(t.args[1], atoms), linear_form(t.args[2], atoms)
        if la is None or lb is None:
            return None
        return _combine(t.args[0].lower(), la, lb)
    if t.op == "proj" and t.args[1][:2] == ("f", 0) and t.args[0].op == "bin" and t.args[0].args[0].endswith("WithOverflow") and t.args[0].args[3] == "u32":
        return None      # a checked (trapping) operation is not the wrapping hash
    return None


def _combine(op, la, lb):
    if op == "add":
        r = dict(la)
        for k, v in lb.items():
            r[k] = (r.get(k, 0) + v) % M32
        return {k: v for k, v in r.items() if v}
    if op == "sub":
        r = dict(la)
        for k, v in lb.items():
            r[k] = (r.get(k, 0) - v) % M32
        return {k: v for k, v in r.items() if v}
    if op == "mul":
        for x, y in ((la, lb), (lb, la)):
            if set(y.keys()) <= {1}:
                c = y.get(1, 0)
                return {k: (v * c) % M32 for k, v in x.items() if (v * c) % M32}
        return None
    if op == "shl":
        if set(lb.keys()) <= {1} and lb.get(1, 0) < 32:
            c = 1 << lb.get(1, 0)
            return {k: (v * c) % M32 for k, v in la.items() if (v * c) % M32}
        return None
    return None


def hash_loop(F, rep, q, rule):
    """returns (an, h_phi, seed, step_term, byte_atom) of `for byte in name { h = step(h, byte) }`"""
    fn = F.fn(q)
    if fn is None:
        rep.bad(rule, q, "src/hash.rs", "anchor missing: %s" % q)
        return None
    an = analyze_fn(F, fn)
    w = wh(fn["span"])
    if len(an.loops) == 0:
        r = hash_fold(F, rep, q, rule, fn, an, w)
        if r is not None:
            return r
        r = hash_via_helper(F, rep, q, rule, fn, an, w)
        if r is not None:
            return r
    if len(an.loops) != 1:
        rep.bad(rule, q + ":loop", w, "UNRECOGNISED: expected exactly one loop over the name bytes (or one `fold` over them), found %d loops" % len(an.loops))
        return None
    header = next(iter(an.loops))
    body = an.loops[header]
    nexts = [c for b, c in an.calls_by_block.items() if b in body and c.declared_norm == "iter::Iterator::next"]
    ok_iter = len(nexts) == 1 and nm((nexts[0].callee.get("generics") or [""])[0]).startswith("slice::Iter<")
    # the iterator is over the function's parameter
    src_ok = False
    for c in an.calls():
        if c.declared_norm in ("iter::IntoIterator::into_iter", "[T]::iter") and c.block not in body:
            a0 = c.arg_values()[0]
            if a0 is T.param(1):
                src_ok = True
    rep.require(ok_iter and src_ok, rule, q + ":bytes", w, "iterates the bytes of the name argument once, in order",
                "%s does not iterate `name` with a slice iterator" % q)
    if not ok_iter:
        return None
    byte = T.cast("IntToInt", T.deref(T.payload(nexts[0].result, "Some")), "u8", "u32")
    rt = an.ret_term()
    # the accumulator: the header phi that the result depends on
    hphis = [ph for ph in an.phi_ops if ph.args[0] == (an.fid, header) and rt is not None and rt.mentions(ph)]
    if len(hphis) != 1:
        rep.bad(rule, q + ":accumulator", w, "UNRECOGNISED: cannot identify the hash accumulator (result %s)" % (pp(rt) if rt is not None else None))
        return None
    h = hphis[0]
    ops = an.phi_ops[h]
    entry = [v for p, v in ops.items() if p not in body]
    back = [v for p, v in ops.items() if p in body]
    if len(entry) != 1 or len(back) != 1:
        rep.bad(rule, q + ":accumulator", w, "UNRECOGNISED accumulator update structure")
        return None
    return an, h, entry[0], back[0], byte, rt, w


def hash_via_helper(F, rep, q, rule, fn, an, w):
    """the hash computed by a shared private helper `mix(name, seed, mul, ..)` called with constants, the helper being the fold
    `name.iter().fold(seed, |h, &b| step(h, b; mul, ..))`: the step is taken with the helper's parameters replaced by the constants"""
    from .terms import rebuild
    from .engine import program, State
    prog = program(F)
    hcs = [c for c in an.calls() if prog.local_fn(c.callee) is not None and not prog.known_name(prog.local_fn(c.callee))
           and prog.local_fn(c.callee)["kind"] != "Closure"]
    if len(hcs) != 1:
        return None
    hc = hcs[0]
    args = hc.arg_values()
    if not args or args[0] is not T.param(1) or not all(a.op == "const" for a in args[1:]):
        return None
    hf = prog.local_fn(hc.callee)
    han = analyze_fn(F, hf)
    folds = [c for c in han.calls() if c.declared_norm == "iter::Iterator::fold"]
    if han.loops or len(folds) != 1 or len(folds[0].args) != 3:
        return None
    it, seed, clo = folds[0].arg_values()
    if not (it.op == "call" and it.args[0] == "[T]::iter" and it.args[2] and it.args[2][0] is T.param(1)):
        return None
    if not (clo.op == "agg" and clo.args[0] == "closure" and isinstance(clo.args[1], str)) or han.ret_term() is not folds[0].result:
        return None
    cf = F.fn(clo.args[1])
    step = analyze_fn(F, cf).ret_term() if cf is not None else None
    if step is None:
        return None
    H, B = Term("HASHACC"), Term("HASHBYTE")
    env_ty = nm(cf["body"]["locals"][1]["ty"]) if len(cf["body"]["locals"]) > 1 else ""
    bty = nm(cf["body"]["locals"][3]["ty"]) if len(cf["body"]["locals"]) > 3 else ""
    st0 = State({}, frozenset())
    sth = State(han.exit_env.get(folds[0].block, {}), folds[0].facts)     # the captures are read where the closure is handed to fold
    try:
        s1 = prog.subst(han, sth, step, [T.refval(clo) if env_ty.startswith("&") else clo, H, T.refval(B) if bty.startswith("&") else B])
        s2 = prog.subst(an, st0, s1, list(args)) if s1 is not None else None
        seed2 = prog.subst(an, st0, seed, list(args))
    except KeyError:
        return None
    if s2 is None or seed2 is None:
        return None
    rep.ok(rule, q + ":bytes", w, "folds over the bytes of the name argument once, in order (in the shared helper %s)" % hf["qual"])
    byte = T.cast("IntToInt", B, "u8", "u32")
    rt = an.ret_term()
    rt2 = rebuild(rt, {hc.result: H}) if rt is not None else None
    return an, H, seed2, s2, byte, rt2, w


def hash_fold(F, rep, q, rule, fn, an, w):
    """the same function written as `name.iter().fold(seed, |h, &b| step(h, b))`"""
    from .terms import rebuild
    folds = [c for c in an.calls() if c.declared_norm == "iter::Iterator::fold"]
    if len(folds) != 1 or len(folds[0].args) != 3:
        return None
    fc = folds[0]
    it, seed, clo = fc.arg_values()
    src_ok = it.op == "call" and it.args[0] in ("[T]::iter",) and it.args[2] and it.args[2][0] is T.param(1)
    rep.require(src_ok, rule, q + ":bytes", w, "folds over the bytes of the name argument once, in order",
                "%s does not fold over `name.iter()` (found %s)" % (q, pp(it)[:120]))
    if not src_ok or not (clo.op == "agg" and clo.args[0] == "closure"):
        return None
    cf = F.fn(clo.args[1]) if isinstance(clo.args[1], str) else None
    if cf is None:
        return None
    can = analyze_fn(F, cf)
    step = can.ret_term()
    if step is None:
        rep.bad(rule, q + ":accumulator", w, "UNRECOGNISED fold closure")
        return None
    h = T.param(2)
    b = T.param(3)
    bty = nm(cf["body"]["locals"][3]["ty"]) if len(cf["body"]["locals"]) > 3 else ""
    byte = T.cast("IntToInt", T.deref(b) if bty.startswith("&") else b, "u8", "u32")
    rt = an.ret_term()
    rt2 = rebuild(rt, {fc.result: h}) if rt is not None else None
    return an, h, seed, step, byte, rt2, w


def gnu_hash_form(F, rep, rule="hash-function"):
    r = hash_loop(F, rep, "hash::gnu_hash", rule)
    if r is None:
        return
    an, h, seed, step, byte, rt, w = r
    rep.require(seed.op == "const" and seed.args[1] == 5381, rule, "gnu_hash:seed", w, "seed 5381", "gnu_hash starts from %s, the GNU hash seed is 5381" % pp(seed))
    lf = linear_form(step, {h: "h", byte: "c"})
    rep.require(lf == {"h": 33, "c": 1}, rule, "gnu_hash:step", w, "h' = h*33 + c (mod 2^32), byte zero-extended",
                "gnu_hash step is %s (ring normal form %s); the GNU hash is h*33 + c with a zero-extended byte, wrapping" % (pp(step)[:200], lf))
    okr = rt is h
    if not okr and rt is not None and rt.op == "phi":
        # an early `return SEED` for the empty name: the fold over no bytes is the seed
        okr = True
        for t_, st_ in an.ret_leaves() or []:
            t2_ = t_
            if t2_ is not h and not (t2_.op == "call" and t2_.args[0].endswith("Iterator::fold")):
                empty = an.truth(st_.facts, T.bin("Eq", T.length(T.param(1)), T.const("usize", 0), "usize"))
                if not (t2_ is seed and empty is True):
                    okr = False
    rep.require(okr, rule, "gnu_hash:result", w, "returns the accumulator unchanged", "gnu_hash returns %s" % pp(rt))


def sysv_hash_form(F, rep, rule="hash-function"):
    r = hash_loop(F, rep, "hash::sysv_hash", rule)
    if r is None:
        return
    an, h, seed, step, byte, rt, w = r
    rep.require(seed.op == "const" and seed.args[1] == 0, rule, "sysv_hash:seed", w, "seed 0", "sysv_hash starts from %s" % pp(seed))
    # folded form: L = 16h + c ; h' = L ^ ((L >> 24) & 0xf0) ; result = h & 0x0fffffff
    ok = False
    detail = pp(step)[:240]
    if step.op == "bin" and step.args[0] == "BitXor":
        for L, G in ((step.args[1], step.args[2]), (step.args[2], step.args[1])):
            lf = linear_form(L, {h: "h", byte: "c"})
            if lf == {"h": 16, "c": 1} and G.op == "bin" and G.args[0] == "BitAnd":
                for s_, m in ((G.args[1], G.args[2]), (G.args[2], G.args[1])):
                    if m.op == "const" and m.args[1] == 0xf0 and s_.op == "bin" and s_.args[0] == "Shr" and s_.args[1] is L \
                            and s_.args[2].op == "const" and s_.args[2].args[1] == 24:
                        ok = True
            # the same bits selected before shifting: (L & 0xf000_0000) >> 24
            if lf == {"h": 16, "c": 1} and G.op == "bin" and G.args[0] == "Shr" and G.args[2].op == "const" and G.args[2].args[1] == 24 \
                    and G.args[1].op == "bin" and G.args[1].args[0] == "BitAnd":
                x, y = G.args[1].args[1], G.args[1].args[2]
                if (x is L and y.op == "const" and y.args[1] == 0xf0000000) or (y is L and x.op == "const" and x.args[1] == 0xf0000000):
                    ok = True
    # the gABI reference form: L = (h << 4) + c ; g = L & 0xf000_0000 ; h' = (L ^ (g >> 24)) & !g   - every step clears the top nibble
    # itself, so the accumulator is returned unmasked (equal to the folded form's masked result: the top nibble only ever leaves by
    # being shifted out or masked, and never feeds back into the low 28 bits except through this same g >> 24)
    reference = False

    def _two(t, o):
        return [(t.args[1], t.args[2]), (t.args[2], t.args[1])] if (t.op == "bin" and t.args[0] == o) else []

    def _is_g(t, L):
        return any(x is L and m.op == "const" and m.args[1] == 0xf0000000 for x, m in _two(t, "BitAnd"))
    for X, NG in _two(step, "BitAnd"):
        if NG.op == "un" and NG.args[0] == "Not":
            # the listing's `if g != 0 { h ^= g >> 24 }`: the merge of L and L ^ (g >> 24) is L ^ (g >> 24) (for g == 0 the xor is by 0)
            if X.op == "phi" and X in an.phi_ops:
                vals_ = list({id(v): v for v in an.phi_ops[X].values()}.values())
                if len(vals_) == 2:
                    def _tests_g(L_):
                        # the merge is decided by `g != 0` / `g == 0` (any other test would keep L for some non-zero g)
                        for d_ in an.switches.values():
                            if _is_g(d_, L_):
                                return True
                            if d_.op == "bin" and d_.args[0] in ("Ne", "Eq"):
                                for x_, z_ in ((d_.args[1], d_.args[2]), (d_.args[2], d_.args[1])):
                                    if z_.op == "const" and z_.args[1] == 0 and _is_g(x_, L_):
                                        return True
                        return False
                    for a_, b_ in ((vals_[0], vals_[1]), (vals_[1], vals_[0])):
                        if any(L_ is a_ for L_, _ in _two(b_, "BitXor")) and _tests_g(a_):
                            X = b_
            for L, S in _two(X, "BitXor"):
                if linear_form(L, {h: "h", byte: "c"}) == {"h": 16, "c": 1} and _is_g(NG.args[1], L) and S.op == "bin" and S.args[0] == "Shr" \
                        and S.args[2].op == "const" and S.args[2].args[1] == 24 and _is_g(S.args[1], L):
                    ok = reference = True
    rep.require(ok, rule, "sysv_hash:step", w, "h = (h<<4)+c; h ^= (h>>24) & 0xf0  (folded gABI form)" if not reference
                else "gABI reference form: h = (h<<4)+c; g = h & 0xf0000000; h ^= g >> 24; h &= !g",
                "UNRECOGNISED sysv_hash step %s: not the folded gABI form h=(h*16+c); h ^= (h>>24)&0xf0 (an unenumerated form is not judged)" % detail)
    okr = rt is not None and rt.op == "bin" and rt.args[0] == "BitAnd" and ((rt.args[1] is h and rt.args[2].op == "const" and rt.args[2].args[1] == 0x0fffffff)
                                                                           or (rt.args[2] is h and rt.args[1].op == "const" and rt.args[1].args[1] == 0x0fffffff))
    if reference and rt is h:
        okr = True       # each step already cleared bits 28..31
    rep.require(okr, rule, "sysv_hash:result", w, "result masked with 0x0fffffff", "sysv_hash returns %s, expected accumulator & 0x0fffffff" % (pp(rt) if rt is not None else None))


# ------------------------------------------------------------------ walk exits (necessary for completeness)
def loop_exit_controls(an, header):
    """For every edge leaving the natural loop at `header`: the switch that controls it.
    Returns [(switch_block | None, value | 'otherwise' | None, exit_target, from_block)]."""
    body = an.loops[header]
    out = []
    for b in sorted(body):
        for t in an.succs[b]:
            if t in body or an.blocks[t]["term"]["k"] == "unreachable":
                continue
            tt = an.blocks[t]["term"]
            if tt["k"] == "call" and tt.get("target") is None:
                continue      # the failure arm of an assertion: diverges, no answer is produced there (C01 decides whether it can be reached)
            cur, nxt, ok = b, t, True
            while an.blocks[cur]["term"]["k"] != "switch":
                ps = [p for p in an.preds[cur] if p in body and (p, cur) not in an.back_edges]
                if cur == header or len(ps) != 1:
                    ok = False
                    break
                nxt, cur = cur, ps[0]
            if not ok:
                out.append((None, None, t, b))
                continue
            term = an.blocks[cur]["term"]
            vals = [v for v, tb in term["targets"] if tb == nxt]
            if term["otherwise"] == nxt:
                vals.append("otherwise")
            out.append((cur, vals[0] if len(vals) == 1 else None, t, b))
    return out


def _branch(an, sw, val, pre=None):
    """(normal form of the condition a switch decides, value) with the discriminant of a helper's `if c {Some(..)} else {None}`
    (`if c {1} else {0}`) read as a branch on c"""
    d = norm(pre(an.switches[sw]) if pre is not None else an.switches[sw])
    for it_ in range(4):
        first = it_ == 0
        if d[0] == "ite" and d[2][0] == "c" and d[3][0] == "ite" and val == str(d[2][1]) and str(d[2][1]) not in _ite_leaves(d[3]):
            # a classification `if c {k0} else if .. {k1} else {k2}` tested for its first class: a branch on c
            d, val = d[1], "otherwise"
            continue
        if d[0] == "ite" and d[2][0] == "c" and d[3][0] == "c" and d[2] != d[3]:
            k1, k2 = str(d[2][1]), str(d[3][1])
            if val == k1:
                d, val = d[1], "otherwise"
            elif val == k2:
                d, val = d[1], "0"
            elif val == "otherwise" and first:
                # the value is none of the listed ones: whichever arm's constant is not listed
                listed = {str(v) for v, _ in an.blocks[sw]["term"]["targets"]}
                if k1 in listed and k2 not in listed:
                    d, val = d[1], "0"
                elif k2 in listed and k1 not in listed:
                    d, val = d[1], "otherwise"
                else:
                    break
            elif val == "otherwise" and k1 != "0" and k2 == "0":
                d, val = d[1], "otherwise"        # truthy: the arm with the non-zero constant
            elif val == "otherwise" and k1 == "0" and k2 != "0":
                d, val = d[1], "0"
            else:
                break
        else:
            break
    # one spelling per comparison: `!c`, `a <= b`, `a >= b`, `a > b` are told as c / b < a / a < b / b < a with the branch value adjusted
    flip = {"0": "otherwise", "otherwise": "0"}
    for _ in range(4):
        if d[0] == "Not" and len(d) == 2 and val in flip:
            d, val = d[1], flip[val]
        elif d[0] == "Le" and len(d) == 3 and val in flip:
            d, val = ("Lt", d[2], d[1]), flip[val]
        elif d[0] == "Ge" and len(d) == 3 and val in flip:
            d, val = ("Lt", d[1], d[2]), flip[val]
        elif d[0] == "Gt" and len(d) == 3:
            d = ("Lt", d[2], d[1])
        else:
            break
    return d, val


def _ite_leaves(d):
    if d[0] == "ite":
        return _ite_leaves(d[2]) | _ite_leaves(d[3])
    return {str(d[1])} if d[0] == "c" else {"?"}


def _is_name_compare(d, name):
    return d[0] == "Eq" and name in d[1:] and any(x[0] == "payload" and x[1][0] == "call" and x[1][1] == "string_table::StringTable::get_raw"
                                                   for x in d[1:] if isinstance(x, tuple))


def walk_compares(an, rep, rule, key, w, skip_ok, what):
    """Completeness needs every chain entry that is visited to be compared with the query: a trip round the walk that reaches the
    next entry without passing the name comparison must have taken a decision that rules the entry out (`skip_ok`: for the GNU
    table a hash mismatch; for the SysV table there is none).  A further condition in front of the comparison (`st_name != 0 && ..`)
    hides symbols the table does contain."""
    if len(an.loops) != 1:
        return
    header = next(iter(an.loops))
    body = an.loops[header]
    name = P(2)
    cmp_blocks = set()
    for b in body:
        if b in an.switches and an.blocks[b]["term"]["k"] == "switch":
            d, _ = _branch(an, b, "otherwise")
            if _is_name_compare(d, name):
                cmp_blocks.add(b)
    if not cmp_blocks:
        return          # where the name is compared is the soundness rule's concern
    latches = {p for (p, h) in an.back_edges if h == header}
    bad = []
    n_paths = 0
    stack = [(header, ())]
    while stack and n_paths < 4096:
        b, dec = stack.pop()
        if b in cmp_blocks:
            continue
        if b in latches:
            n_paths += 1
            if not any(skip_ok(d, v) for d, v in dec):
                bad.append(dec)
            continue
        term = an.blocks[b]["term"]
        for t in an.succs[b]:
            if t not in body or (b, t) in an.back_edges or (b, t) not in an.feasible:
                continue
            nd = dec
            if term["k"] == "switch" and b in an.switches:
                vals = [str(v) for v, tb in term["targets"] if tb == t]
                if term["otherwise"] == t:
                    vals.append("otherwise")
                if len(vals) == 1:
                    nd = dec + (_branch(an, b, vals[0]),)
            stack.append((t, nd))
    msg = ""
    if bad:
        conds = ["%s=%s" % (show(d)[:120], v) for d, v in bad[0] if not (d[0] == "discr" and d[1][0] == "call" and d[1][1] == "ops::Try::branch")]
        msg = "; ".join(conds)[:400]
    rep.require(not bad, rule, key + ":compares-every-entry", w,
                "every trip round the walk compares the entry's name with the query%s (%d comparison-free trips, each justified)" % (what, n_paths),
                "the chain walk can move on to the next entry without comparing the name (decisions taken: %s): a present symbol is reported absent" % msg)


def early_exits(an, rep, rule, key, w, early_ok, what, target=None, subject="the chain walk", lost="a present symbol is reported absent", pre=None):
    """Completeness, before the walk: a decision taken ahead of the chain walk that by-passes it (an early `Ok(None)`) must be one of
    the enumerated reasons for which the table cannot contain the name (`early_ok`), or the failure arm of a `?`.  Any other early
    answer (`if name.len() > 255 { return Ok(None) }`) reports symbols absent that the table contains."""
    if target is None:
        if len(an.loops) != 1:
            return
        header = next(iter(an.loops))
        body = an.loops[header]
    else:
        header, body = target, ()
    reach = {header}
    work = [header]
    while work:
        x = work.pop()
        for p in an.preds[x]:
            if p not in reach and p not in body:
                reach.add(p)
                work.append(p)
    n = 0
    for b in sorted(reach - {header}):
        term = an.blocks[b]["term"]
        if term["k"] != "switch" or b not in an.switches or b not in an.entry:
            continue
        for t in an.succs[b]:
            if t in reach or (b, t) not in an.feasible or an.blocks[t]["term"]["k"] == "unreachable":
                continue
            tt = an.blocks[t]["term"]
            if tt["k"] == "call" and tt.get("target") is None:
                continue          # the failure arm of an assertion (C01)
            vals = [str(v) for v, tb in term["targets"] if tb == t]
            if term["otherwise"] == t:
                vals.append("otherwise")
            if len(vals) != 1:
                rep.bad(rule, "%s:early|bb%d" % (key, b), w, "UNRECOGNISED: several branch values by-pass %s from one test" % subject)
                continue
            d, val = _branch(an, b, vals[0], pre)
            n += 1
            if _only_errors_from(an, t, reach):
                # the by-pass ends in an error on every path (a failed step reported with an explicit `match .. => return Err(..)`
                # instead of `?`): an early error is not an early answer
                rep.ok(rule, "%s:early|%s|%s" % (key, show(d)[:160], val), w, "%s is by-passed on %s=%s into an error on every path" % (subject, show(d)[:120], val))
                continue
            if d[0] == "discr" and d[1][0] == "call" and d[1][1] == "ops::Try::branch":
                ok = val == "1"
                why = "continues past a failed read"
            else:
                ok = _justified(d, val, early_ok)
                why = "is not one of the accepted reasons (%s)" % what
            rep.require(ok, rule, "%s:early|%s|%s" % (key, show(d)[:160], val), w, "%s is by-passed on %s=%s" % (subject, show(d)[:120], val),
                        "the answer is given without %s on %s = %s, which %s: %s" % (subject, show(d)[:200], val, why, lost))
    return n


def ctor_refusals(rep, rule, key, an, w):
    """Completeness of a table constructor: the bytes are refused only because they cannot hold the table the header declares (header
    unreadable, a count that does not convert or overflows, a range outside the data) - never on a further condition on header values,
    which would make lookups on a well-formed table impossible."""
    from . import prov as _prov

    def fmt(c):
        if c[0] in ("conv", "overflow", "parse", "slice", "read"):
            return True
        if c[0] == "via":
            return all(fmt(x) for x in c[2])
        return False
    stray, n = [], 0
    for c, t, st in _prov.failure_causes(an):
        n += 1
        if not fmt(c):
            stray.append("%s %s" % (c[0], [show(x)[:80] if isinstance(x, tuple) else x for x in c[1:3]]))
    rep.require(not stray, rule, key + ":refusals", w, "%d error outcomes: header unreadable, count conversion / overflow, range outside the data" % n,
                "the constructor refuses tables for a reason other than the declared layout not fitting the bytes (%s): a well-formed table cannot be looked up" % "; ".join(stray)[:300])


def _only_errors_from(an, t, stay_out):
    """every way from block t to the function's return (without re-entering `stay_out`) returns an Err value: along each path the
    return place holds a concrete Err(..) before the paths merge into the common return block"""
    L0 = (("L", 0), ())
    seen, work = {t}, [t]
    n_ret = 0
    while work:
        x = work.pop()
        if an.blocks[x]["term"]["k"] == "return":
            return False                      # reached the return without a concrete value on this path
        for s_ in an.succs[x]:
            if (x, s_) not in an.feasible or an.blocks[s_]["term"]["k"] == "unreachable":
                continue
            if s_ in stay_out:
                return False
            st_ = an.out_states.get((x, s_))
            v = st_.env.get(L0) if st_ is not None else None
            if v is not None:
                v = an.simp(v, st_.facts)
                if v.op == "agg" and v.args[1] == "result::Result":
                    if v.args[3] != "Err":
                        return False
                    n_ret += 1
                    continue                   # this path returns that error (nothing after the assignment can turn it into an answer
                                               # except another assignment, which the value-numbered env would show)
            if s_ not in seen:
                seen.add(s_)
                work.append(s_)
    return n_ret > 0


def _justified(d, val, early_ok, depth=0):
    """the branch (d, val) is taken only for accepted reasons; d may be the case analysis of a helper (`if c1 { false } else { c2 }`):
    then every case that can produce the branch value must be reached through, or be, an accepted decision"""
    if d[0] != "ite" or depth > 4:
        return early_ok(d, val) is True
    c, arms = d[1], ((d[2], "otherwise"), (d[3], "0"))
    able = 0
    for arm, cval in arms:
        if arm[0] == "c":
            k = arm[1]
            k = int(k) if isinstance(k, bool) else k
            hit = (val == str(k)) or (val == "otherwise" and k != 0 and isinstance(k, int))
            if not hit:
                continue
            able += 1
            if early_ok(c, cval) is not True:
                return False
        else:
            able += 1
            if early_ok(c, cval) is not True and not _justified(arm, val, early_ok, depth + 1):
                return False
    return able > 0


def cond_holds(d, val):
    """(atom, polarity): the branch (d, val) is taken when atom has truth value polarity; Ne / Not folded into the polarity"""
    pol = val != "0"
    for _ in range(6):
        if d[0] == "Ne" and len(d) == 3:
            d, pol = ("Eq",) + tuple(d[1:]), not pol
        elif d[0] == "Not" and len(d) == 2:
            d, pol = d[1], not pol
        else:
            break
    return d, pol


def walk_exits(an, rep, rule, key, w, stop_conditions, what):
    """The chain walk may be left only (a) with an error of a failed read, (b) with the symbol once its name compared equal,
    (c) on one of the enumerated end-of-chain conditions.  Any other way out loses symbols that are further down the chain."""
    if len(an.loops) != 1:
        rep.bad(rule, key + ":loop", w, "UNRECOGNISED: %d loops in the lookup (expected the chain walk only)" % len(an.loops))
        return
    header = next(iter(an.loops))
    name, strtab = P(2), P(4)
    n_stop = 0
    for sw, val, tgt, frm in loop_exit_controls(an, header):
        if sw is None or val is None:
            rep.bad(rule, "%s:exit" % key, w, "the chain walk is left unconditionally from bb%d (not under a single branch): symbols further down the chain are never compared" % frm)
            continue
        d, val = _branch(an, sw, val)
        ds = show(d)[:200]
        if d[0] == "discr" and d[1][0] == "call" and d[1][1] == "ops::Try::branch":
            ok = val == "1"   # ControlFlow::Break = the residual (error) arm
            why = "leaves through the Continue arm of `?`"
        elif _is_name_compare(d, name):
            ok = val == "otherwise"
            why = "leaves when the name does NOT match"
        else:
            r = stop_conditions(d, val, sw)
            ok = r is True
            why = r if isinstance(r, str) else "is not one of the end-of-chain conditions (%s)" % what
            if ok:
                n_stop += 1
        rep.require(ok, rule, "%s:exit|%s|%s" % (key, ds, val), w, "walk exit on %s=%s" % (ds, val),
                    "the chain walk exits on %s = %s, which %s: a present symbol further down the chain is reported absent" % (ds, val, why))
    rep.require(n_stop >= 1, rule, key + ":stops", w, "%d end-of-chain exits" % n_stop, "no end-of-chain exit recognised in the chain walk")


def counter_phi(an, header):
    """phis at `header` that start at 0 and advance by at most 1 on every back edge (so a bound `< n` allows at least n steps;
    whether the counter advances at all is the termination property C16's concern, not completeness)"""
    body = an.loops[header]
    out = []
    for ph, ops in an.phi_ops.items():
        if ph.args[0][1] != header:
            continue
        ent = [norm(v) for p, v in ops.items() if p not in body]
        bk = [norm(v) for p, v in ops.items() if p in body]
        if ent == [C(0)] and bk and all(x in (ADD(norm(ph), C(1)), norm(ph)) for x in bk):
            out.append(norm(ph))
    return out


def range_of_next(an, sw):
    """if the switch at `sw` tests the result of Iterator::next on a `a..b` range created by into_iter: (a, b) normal forms"""
    hdr = next(iter(an.loops))
    nexts = [c for c in an.calls() if c.declared_norm == "iter::Iterator::next" and c.block in an.loops[hdr] and an.dominates(c.block, sw)]
    if not nexts:
        return None
    for c in an.calls():
        if c.declared_norm == "iter::IntoIterator::into_iter":
            a0 = norm(c.arg_values()[0])
            if a0[0] == "agg" and a0[1] == "ops::Range":
                return a0[3]
    return None
