"""Rules over the stream parser (module elf_stream): I/O error discipline, cache protocol, I/O protocol,
allocation guards, laziness.  Shared by C07, C08 and C17."""
from .engine import analyze_fn, norm
from .terms import T, Term, pp

MOD = "elf_stream"
IO_TRAITS = ("io::Read", "io::Seek", "io::BufRead", "io::Write")


def wh(span):
    return "%s:%d:%d" % (span["file"], span["line"], span["col"])


def stream_fns(F):
    return [fn for fn in F.all_fns() if fn["module"] == MOD]


def is_io_call(cs):
    tm = cs.callee.get("trait_method")
    return bool(tm) and norm(tm["trait"]) in IO_TRAITS


def io_performing(F):
    """in-crate functions from which a Read/Seek call is reachable (closed under the call graph)"""
    from .census import call_graph_sccs
    _, g = call_graph_sccs(F, lambda fn: fn["module"] == MOD)
    direct = set()
    for fn in F.all_fns():
        for blk in fn["body"]["blocks"]:
            t = blk["term"]
            if blk["cleanup"] or t["k"] != "call" or "indirect" in t["callee"]:
                continue
            tm = t["callee"].get("trait_method")
            if tm and norm(tm["trait"]) in IO_TRAITS:
                direct.add(fn["id"])
    res = set(direct)
    changed = True
    while changed:
        changed = False
        for f, outs in g.items():
            if f not in res and outs & res:
                res.add(f)
                changed = True
    return res, direct


# ---------------------------------------------------------------------------------------------- C17 error discipline

def result_propagated(an, cs):
    """The Result produced at call site cs reaches the caller as an error whenever it is Err: see failure_propagated."""
    return failure_propagated(an, cs, norm(cs.term["dest"]["ty"]))


def failure_propagated(an, cs, dty):
    """every outcome of the function reached with the call's result being Err / None is an error (or the result itself, returned unchanged)"""
    R = cs.result
    vs = ["Ok", "Err"] if dty.startswith("result::Result") else ["Some", "None"]
    base, names = an.norm_var(R, vs)
    if base is None:
        return True, "statically known outcome"
    failname, okname = names[1], names[0]

    def is_forward(t):
        if t is R:
            return True
        for cand in (["Ok", "Err"], ["Some", "None"]):
            bx, nx = an.norm_var(t, cand)
            if bx is base and nx[1] == failname:
                return True
        return False

    def is_err(t):
        return t.op == "agg" and t.args[3] == "Err"
    ps = an.paths()
    if ps is not None:
        # loop-free body: every path through the call site must know how the read ended, and a failed read must end in an error
        through = [(t, st, [c for c in calls if c.block == cs.block][0]) for t, st, calls in ps if any(c.block == cs.block for c in calls)]
        if not through:
            return True, "the call is on no feasible path"
        fail = nfwd = 0
        for t, st, c in through:
            # on a single path the call's result is a path-specific term
            b2, n2 = an.norm_var(an.simp(c.result, st.facts), vs)
            if b2 is None:
                if n2 == 1:
                    fail += 1
                    if not is_err(t):
                        return False, "an outcome reached with the read having failed returns %s" % pp(t)[:140]
                continue
            fwd = t is c.result or any(an.norm_var(t, cand)[0] is b2 and an.norm_var(t, cand)[1][1] == n2[1] for cand in (["Ok", "Err"], ["Some", "None"]))
            if ("var", b2, n2[1]) in st.facts:
                fail += 1
                if not is_err(t) and not fwd:
                    return False, "an outcome reached with the read having failed returns %s" % pp(t)[:140]
            elif ("var", b2, n2[0]) in st.facts:
                continue
            elif fwd:
                nfwd += 1
            else:
                return False, "a path through the read returns %s without its result having been examined (dropped, `.ok()`, `unwrap_or`, handed to a combinator...)" % pp(t)[:100]
        if fail == 0 and nfwd == 0:
            return False, "no outcome of the function is tied to the failure of this read"
        return True, "on all %d paths through the read its failure ends in an error (or the result is forwarded)" % len(through)
    leaves = an.ret_leaves()
    if leaves is None:
        return False, "cannot enumerate outcomes"

    def tests(d):
        if d.op != "discr":
            return False
        x = d.args[0]
        for cand in (["Continue", "Break"], ["Ok", "Err"], ["Some", "None"]):
            bx, _ = an.norm_var(x, cand)
            if bx is base:
                return True
        return False
    tested = [b for b, d in an.switches.items() if b in an.entry and tests(d) and an.dominates(cs.block, b)]
    forwarded = [t for t, st in leaves if is_forward(t)]
    if not tested:
        if forwarded:
            return True, "result returned unchanged"
        return False, "the result is never examined (dropped, `.ok()`, `unwrap_or`, `if let`, handed to a combinator...)"
    if _bypass(an, cs.block, tested[0]) and not forwarded:
        return False, "a path from the read reaches a return without examining its result"
    fail = 0
    for t, st in leaves:
        failed = ("var", base, failname) in st.facts
        if not failed and R.has_tree():
            # the result is the case analysis of a dissolved helper: which case is it on this outcome?
            rs = an.simp(R, st.facts)
            b2, n2 = an.norm_var(rs, vs)
            failed = (b2 is None and n2 == 1) or (b2 is not None and ("var", b2, n2[1]) in st.facts)
        if failed:
            fail += 1
            if not is_err(t) and not is_forward(t):
                return False, "an outcome reached with the read having failed returns %s" % pp(t)[:140]
    if fail == 0:
        return False, "no outcome of the function is tied to the failure of this read"
    return True, "the %d outcome(s) reached with the read having failed are errors" % fail


def _tests(an, d, R):
    if d.op == "discr":
        x = d.args[0]
        base, _ = an.norm_var(x, ["Continue", "Break"]) if x.op == "call" and x.args[0] == "ops::Try::branch" else (x, None)
        return base is R
    return False


def _bypass(an, c, s):
    """is a return reachable from block c without passing through block s"""
    seen = set()
    st = [x for x in an.succs[c] if (c, x) in an.feasible]
    while st:
        x = st.pop()
        if x == s or x in seen:
            continue
        seen.add(x)
        if an.blocks[x]["term"]["k"] == "return":
            return True
        st.extend(y for y in an.succs[x] if (x, y) in an.feasible)
    return False


def rule_error_discipline(F, rep, rule="io-error-discipline"):
    iop, direct = io_performing(F)
    n_io = n_wrapped = 0
    for fn in stream_fns(F):
        an = analyze_fn(F, fn)
        for cs in an.calls():
            lf_id = cs.callee.get("resolved_id") or cs.callee.get("id")
            io = is_io_call(cs)
            wrapped = (not io) and lf_id in iop and lf_id in F.by_id
            if not (io or wrapped):
                continue
            # only callees that return a Result carry an error to propagate
            dty = norm(cs.term["dest"]["ty"])
            if not dty.startswith("result::Result"):
                if io:
                    rep.bad(rule, "%s|%s" % (fn["qual"], cs.callee_norm), cs.where(), "UNRECOGNISED: I/O call not returning a Result")
                continue
            if io:
                n_io += 1
            else:
                n_wrapped += 1
            # a function that merely forwards the callee's Result (tail call) propagates by construction
            rt = an.ret_term()
            ok, why = (True, "result returned unchanged") if rt is cs.result else result_propagated(an, cs)
            key = "%s|%s|%s" % (fn["qual"], cs.callee_norm, ",".join(pp(a) for a in cs.args[1:])[:120])
            rep.require(ok, rule, key, cs.where(), why,
                        "%s: result of %s is not propagated: %s" % (fn["qual"], cs.callee_norm, why))
    rep.floor(rule, "direct Read/Seek call sites", n_io, 2)
    rep.floor(rule, "call sites of I/O-performing in-crate functions", n_wrapped, 20)
    return n_io, n_wrapped


# ---------------------------------------------------------------------------------------------- cache protocol / ordering

def _field_lv(root_ptr, *names):
    return names


def bufs_calls(F):
    """every call in the module whose receiver is the `bufs` map of a CachingReader"""
    out = []
    for fn in stream_fns(F):
        an = analyze_fn(F, fn)
        for cs in an.calls():
            if not cs.args:
                continue
            lv = cs.arg_lvs[0]
            path = lv[1]
            if path and path[-1][0] == "f" and path[-1][2] == "bufs":
                out.append((fn, an, cs))
            elif cs.args[0].op == "refval" and _is_bufs_val(cs.args[0].args[0]):
                out.append((fn, an, cs))
        # the entry API: `match bufs.entry(k) { Occupied(_) => .., Vacant(slot) => .. slot.insert(v) }` - the insert goes through the slot
        entries = {cs.result: cs for f_, a_, cs in out if f_ is fn and cs.declared_norm.endswith("HashMap::entry")}
        for cs in an.calls():
            if cs.declared_norm.endswith("VacantEntry::insert") and cs.args:
                src = [e for r, e in entries.items() if cs.args[0].mentions(r)]
                if len(src) == 1:
                    cs.entry_of = src[0]
                    out.append((fn, an, cs))
    return out


def _is_bufs_val(t):
    return t.op == "proj" and t.args[1][0] == "f" and t.args[1][2] == "bufs"


def rule_cache_protocol(F, rep, rule="cache-protocol", keys="exact"):
    """who may touch the cache map; and its keys: keys="exact" requires (range.start, range.end) of the request at every site (needed
    for equivalence with the slice parser, C07); keys="consistent" only requires the three sites to use the same function of the request
    (enough for get_bytes to find what load_bytes stored, C08); keys=None does not look at keys (C17)"""
    calls = bufs_calls(F)
    key_of = {}
    writers = {}
    for fn, an, cs in calls:
        name = cs.declared_norm.split("::")[-1]
        writers.setdefault(name, []).append((fn, an, cs))
    allowed = {"contains_key": "elf_stream::CachingReader::load_bytes", "insert": "elf_stream::CachingReader::load_bytes",
               "entry": "elf_stream::CachingReader::load_bytes",      # look-up + slot reservation in one call (the slot's insert is an `insert`)
               "get": "elf_stream::CachingReader::get_bytes", "clear": "elf_stream::CachingReader::clear_cache",
               "default": "elf_stream::CachingReader::new", "new": "elf_stream::CachingReader::new"}
    READERS = ("get", "contains_key")      # look-ups do not change the cache: any method of the reader may perform them
    home = io_home(F)
    for name, sites in sorted(writers.items()):
        for fn, an, cs in sites:
            if name in READERS and fn["qual"].startswith("elf_stream::CachingReader::"):
                rep.ok(rule, "bufs.%s in %s" % (name, fn["qual"]), cs.where(), "cache look-up inside a method of the reader (the key is checked below)")
                continue
            if name in ("insert", "entry") and fn["qual"] in home and fn["qual"] != "elf_stream::CachingReader::new":
                rep.ok(rule, "bufs.%s in %s" % (name, fn["qual"]), cs.where(), "cache fill inside load_bytes or a private helper only it calls")
                continue
            rep.require(allowed.get(name) == fn["qual"], rule, "bufs.%s in %s" % (name, fn["qual"]), cs.where(),
                        "only %s may call bufs.%s" % (allowed.get(name), name),
                        "cache map method `%s` called from %s (allowed: %s)" % (name, fn["qual"], allowed.get(name, "nowhere")))
    rep.floor(rule, "bufs call sites", len(calls), 4)
    # the key is (range.start, range.end) of the same request at contains_key / insert / get
    lb = F.fn("elf_stream::CachingReader::load_bytes")
    gb = F.fn("elf_stream::CachingReader::get_bytes")
    for fn in (lb, gb):
        if fn is None:
            rep.bad(rule, "anchor", "src/elf_stream.rs", "anchor missing: CachingReader::load_bytes / get_bytes")
            return
    p2 = T.param(2)
    want_key = T.agg("tuple", None, 0, None, [T.proj(p2, ("f", 0, "start")), T.proj(p2, ("f", 1, "end"))])
    key_terms = []
    for fn, an, cs in calls:
        name = cs.declared_norm.split("::")[-1]
        if name in ("contains_key", "get"):
            k = cs.args[1]
            if k.op == "ref":
                k = cs.pointee_before[1]
            elif k.op == "refval":
                k = k.args[0]
        elif name == "insert":
            k = cs.entry_of.args[1] if getattr(cs, "entry_of", None) is not None else cs.args[1]
        elif name == "entry":
            k = cs.args[1]
        else:
            continue
        # the request of the function the site is in: its Range parameter (by value or by reference), or its (start, end) parameters
        wk = [want_key]
        ins_ = (fn.get("sig") or {}).get("inputs") or []
        for i_, ty_ in enumerate(ins_):
            if "ops::Range<usize>" in norm(ty_) and norm(ty_).startswith("&"):
                r_ = T.deref(T.param(i_ + 1))
                wk.append(T.agg("tuple", None, 0, None, [T.proj(r_, ("f", 0, "start")), T.proj(r_, ("f", 1, "end"))]))
        if len(ins_) == 3 and norm(ins_[1]) == "usize" and norm(ins_[2]) == "usize" and [an.names.get(2), an.names.get(3)] == ["start", "end"]:
            wk.append(T.agg("tuple", None, 0, None, [T.param(2), T.param(3)]))
        # a cache keyed by the request Range itself (HashMap<Range<usize>, _>): the key is the function's Range parameter, by value or
        # through a reference - the same (start, end) pair under Range's derived Eq / Hash
        for i_, ty_ in enumerate(ins_):
            if "ops::Range<usize>" in norm(ty_):
                wk.append(T.param(i_ + 1))
                wk.append(T.deref(T.param(i_ + 1)))
        key_terms.append(want_key if any(k is w_ for w_ in wk) else k)
        if keys == "exact":
            rep.require(any(k is w_ for w_ in wk), rule, "key@%s.%s" % (fn["qual"].split("::")[-1], name), cs.where(), "key = (range.start, range.end)",
                        "cache key at bufs.%s in %s is %s, not (range.start, range.end) of the request" % (name, fn["qual"], pp(k)))
    if keys == "consistent":
        rep.require(len(set(key_terms)) == 1 and len(key_terms) >= 3, rule, "key-consistency", "src/elf_stream.rs", "contains_key / insert / get use the same key",
                    "the cache is written and read under different keys %s: get_bytes may not find what load_bytes stored" % sorted({pp(k) for k in key_terms}))
    # clear_cache is only called while opening
    for fn in stream_fns(F):
        an = analyze_fn(F, fn)
        for cs in an.calls():
            if cs.callee_qual == "elf_stream::CachingReader::clear_cache":
                rep.require(fn["qual"] == "elf_stream::ElfStream::open_stream", rule, "clear_cache in %s" % fn["qual"], cs.where(),
                            "only open_stream clears the cache", "%s clears the cache: later get_bytes may find nothing" % fn["qual"])


def io_home(F):
    """CachingReader::{new, load_bytes} and the private helpers that only they (transitively) call: where I/O may be performed"""
    key = ("io_home", id(F))
    if key in _IOHOME:
        return _IOHOME[key]
    from .engine import program
    prog = program(F)
    home = {"elf_stream::CachingReader::new", "elf_stream::CachingReader::load_bytes"}
    callers = {}
    for fn in F.all_fns():
        for cs in analyze_fn(F, fn).calls():
            lf = prog.local_fn(cs.callee)
            if lf is not None:
                callers.setdefault(lf["qual"], set()).add(fn["qual"])
    changed = True
    while changed:
        changed = False
        for fn in stream_fns(F):
            q = fn["qual"]
            if q in home or prog.known_name(fn) or fn["kind"] == "Closure":
                continue
            cs_ = callers.get(q, set())
            if cs_ and cs_ <= home:
                home.add(q)
                changed = True
    _IOHOME[key] = home
    return home


_IOHOME = {}


def rule_io_protocol(F, rep, rule="io-protocol"):
    """load_bytes: absolute seek to range.start dominates the read; the read is read_exact into range.len() bytes;
    no other Read method is called anywhere in the module; insert only after both succeeded."""
    n = 0
    for fn in stream_fns(F):
        an = analyze_fn(F, fn)
        for cs in an.calls():
            if not is_io_call(cs):
                continue
            n += 1
            m = cs.callee["trait_method"]["name"]
            tr = norm(cs.callee["trait_method"]["trait"])
            where_ok = fn["qual"] in io_home(F)
            rep.require(where_ok, rule, "io-site|%s|%s" % (fn["qual"], m), cs.where(), "I/O only inside CachingReader::{new, load_bytes}",
                        "%s performs %s::%s directly (reads must go through the bounded, cached load_bytes)" % (fn["qual"], tr, m))
            if tr == "io::Read":
                rep.require(m == "read_exact", rule, "read-method|%s|%s" % (fn["qual"], m), cs.where(), "read_exact (handles short reads / Interrupted)",
                            "%s calls Read::%s: short reads and ErrorKind::Interrupted are not handled" % (fn["qual"], m))
    rep.floor(rule, "Read/Seek call sites", n, 2)      # 3 on the pinned tree (2 seeks, 1 read_exact); a shared seek helper leaves 2
    lb = F.fn("elf_stream::CachingReader::load_bytes")
    if lb is None:
        rep.bad(rule, "anchor", "src/elf_stream.rs", "anchor missing: load_bytes")
        return
    from .engine import program, State
    from .prov import norm as pnorm
    prog = program(F)
    lan = analyze_fn(F, lb)
    w = wh(lb["span"])
    p2 = T.param(2)
    # the function that performs the read: load_bytes itself, or a private helper only it calls (possibly one level down)
    io_of = lambda an_: ([c for c in an_.calls() if is_io_call(c) and c.callee["trait_method"]["name"] == "seek"],
                         [c for c in an_.calls() if is_io_call(c) and c.callee["trait_method"]["name"] == "read_exact"])
    gan, gcall = lan, None
    sk_, rd_ = io_of(lan)
    if not sk_ and not rd_:
        for c in lan.calls():
            lf = prog.local_fn(c.callee)
            if lf is not None and lf["qual"] in io_home(F) and lf["qual"] != lb["qual"] and any(io_of(analyze_fn(F, lf))):
                gan, gcall = analyze_fn(F, lf), c
                break
    an = gan

    class Ev:      # a seek performed through a private helper that does nothing else (e.g. a `seek_to` default method)
        def __init__(self, c, target):
            self.block, self.result, self.arg_lvs, self.args, self.c = c.block, c.result, [None], [None, target], c

        def where(self):
            return self.c.where()
    seeks, reads = io_of(an)
    if not seeks:
        for c in an.calls():
            lf = prog.local_fn(c.callee)
            if lf is None or lf["qual"] not in io_home(F) or lf["qual"] == an.fn["qual"]:
                continue
            han = analyze_fn(F, lf)
            hs, hr = io_of(han)
            if len(hs) == 1 and not hr and all(("var", hs[0].result, "Ok") in st_.facts for t_, st_ in han.ret_leaves() or [] if t_.op == "agg" and t_.args[3] == "Ok"):
                stc = State(an.exit_env.get(c.block, {}), c.facts)
                tgt_ = prog.subst(an, stc, hs[0].args[1], [prog._stabilise(an, stc, a_) for a_ in c.args], prog.gmap(lf, c.callee))
                if tgt_ is not None:
                    seeks.append(Ev(c, tgt_))
    ok = len(seeks) == 1 and len(reads) == 1
    rep.require(ok, rule, "load_bytes:shape", w, "one seek, one read_exact (in load_bytes or in the private helper that fetches for it)",
                "load_bytes has %d seek and %d read_exact calls" % (len(seeks), len(reads)))
    if not ok:
        return
    sk, rd = seeks[0], reads[0]
    gw = wh(an.fn["span"])

    def in_caller(t):
        """a term of the fetching helper expressed in load_bytes' parameters"""
        if gcall is None:
            return t
        stc = State(lan.exit_env.get(gcall.block, {}), gcall.facts)
        cargs = [prog._stabilise(lan, stc, a_) for a_ in gcall.args]
        return prog.subst(lan, stc, t, cargs, prog.gmap(an.fn, gcall.callee))
    start = T.proj(p2, ("f", 0, "start"))
    end = T.proj(p2, ("f", 1, "end"))
    tgt = in_caller(sk.args[1])
    good_seek = tgt is not None and tgt.op == "agg" and tgt.args[3] == "Start" and pnorm(tgt.args[4][0]) == pnorm(start)
    rep.require(good_seek, rule, "load_bytes:seek-target", sk.where(), "seek(SeekFrom::Start(range.start))",
                "load_bytes seeks to %s instead of SeekFrom::Start(range.start)" % (pp(tgt)[:120] if tgt is not None else "?"))
    same_reader = sk.arg_lvs[0] == rd.arg_lvs[0] or isinstance(sk, Ev)
    if gcall is None and not isinstance(sk, Ev):
        same_reader = same_reader and bool(sk.arg_lvs[0][1]) and sk.arg_lvs[0][1][-1][2] == "reader"
    rep.require(same_reader, rule, "load_bytes:same-reader", rd.where(), "seek and read on the same reader", "seek and read_exact use different readers")
    dom = an.dominates(sk.block, rd.block) and ("var", sk.result, "Ok") in rd.facts
    rep.require(dom, rule, "load_bytes:seek-before-read", rd.where(), "read_exact is dominated by the success edge of the seek",
                "read_exact is reachable without a successful absolute seek to range.start (a previous read left the position elsewhere)")
    # buffer = vec![0; range.len()]   (range.len(), end - start, end.saturating_sub(start) are the same length once start <= end <= stream_len)
    buf = rd.args[1]
    lens = [in_caller(x.args[2][1]) for x in buf.subterms() if x.op == "call" and x.args[0] == "vec::from_elem"]
    want_len = T.call("iter::ExactSizeIterator::len", ("ops::Range<usize>",), [T.refval(p2)])
    def is_len(t):
        if t is None:
            return False
        if t is want_len or (t.op == "call" and t.args[0] == "iter::ExactSizeIterator::len" and pnorm(t.args[2][0]) in (pnorm(p2), ("agg", "ops::Range", "Range", (pnorm(start), pnorm(end))))):
            return True
        n_ = pnorm(t)
        return n_ == ("-", pnorm(end), pnorm(start)) or n_ == ("call", "usize::saturating_sub", (pnorm(end), pnorm(start)))
    rep.require(len(lens) == 1 and is_len(lens[0]), rule, "load_bytes:buffer-len", rd.where(), "buffer is vec![0; range.len()]",
                "the buffer handed to read_exact is not range.len() bytes long: %s" % pp(buf)[:200])
    # the fetching helper hands back exactly that buffer, and only when both calls succeeded
    if gcall is not None:
        for t, st in an.ret_leaves() or []:
            if t.op == "agg" and t.args[3] == "Ok":
                okk = ("var", rd.result, "Ok") in st.facts and ("var", sk.result, "Ok") in st.facts
                rep.require(okk, rule, "fetch:ok-means-read", gw, "the helper returns Ok only after seek and read_exact succeeded",
                            "%s returns Ok on a path where seek / read_exact did not both succeed" % an.fn["qual"])
                v = t.args[4][0]
                shares = any(x.op == "call" and x.args[0] == "vec::from_elem" and v.mentions(x) for x in buf.subterms())
                rep.require(shares, rule, "fetch:value", gw, "the helper returns the buffer that was read into", "%s returns %s, not the buffer filled by read_exact" % (an.fn["qual"], pp(v)[:160]))
    # ordering: insert dominated by success of the fetch; inserted value is that buffer
    ins = [c for c in lan.calls() if c.declared_norm.endswith("HashMap::insert") or c.declared_norm.endswith("VacantEntry::insert")]
    rep.require(len(ins) == 1, rule, "load_bytes:one-insert", w, "one insert", "%d inserts into the cache" % len(ins))
    for c in ins:
        if gcall is None:
            good = (lan.dominates(rd.block, c.block) and ("var", rd.result, "Ok") in c.facts and ("var", sk.result, "Ok") in c.facts)
        else:
            good = lan.dominates(gcall.block, c.block) and ("var", gcall.result, "Ok") in c.facts
        rep.require(good, rule, "load_bytes:insert-after-read", c.where(), "cache insert is dominated by the success edges of seek and read_exact",
                    "a buffer is inserted into the cache before/without the read having succeeded (a failed read leaves fabricated data cached)")
        v = c.args[1] if c.declared_norm.endswith("VacantEntry::insert") else c.args[2]
        if gcall is None:
            shares = any(x.op == "call" and x.args[0] == "vec::from_elem" for x in v.subterms()) and any(
                x.op == "call" and x.args[0] == "vec::from_elem" and v.mentions(x) for x in buf.subterms())
        else:
            shares = v is T.payload(gcall.result, "Ok")
        rep.require(shares, rule, "load_bytes:insert-value", c.where(), "the inserted value is the buffer that was read into",
                    "the cached value %s is not the buffer filled by read_exact" % pp(v)[:160])
    # Ok outcomes: either the key was already cached, or the insert happened
    ck = [c for c in lan.calls() if c.declared_norm.endswith("HashMap::contains_key") or c.declared_norm.endswith("HashMap::get")
          or c.declared_norm.endswith("HashMap::entry")]
    ps = lan.paths()
    for t, st in ([(t_, st_) for t_, st_, _ in ps] if ps is not None else (lan.ret_leaves() or [])):
        if t.op == "agg" and t.args[3] == "Ok":
            cached = False
            for k_ in ck:
                if k_.declared_norm.endswith("contains_key"):
                    cached = cached or ("true", k_.result) in st.facts or lan.truth(st.facts, k_.result) is True
                elif k_.declared_norm.endswith("entry"):
                    # Entry has two variants; the index of Vacant is read off the downcast through which the slot is taken
                    vac = {x.args[1][1] for c_ in ins for x in c_.args[0].subterms()
                           if x.op == "proj" and x.args[1][0] == "v" and x.args[1][2] == "Vacant" and x.args[0] is k_.result}
                    d_ = T.discr(k_.result)
                    cached = cached or ("var", k_.result, "Occupied") in st.facts or (
                        len(vac) == 1 and any(f[0] == "ne" and f[1] is d_ and f[2] in vac for f in st.facts))
                else:
                    cached = cached or lan.variant_known(k_.result, "Some", st.facts) is True
            # ... or the look-up was made by a private helper whose decision tree this path has resolved (`locate()` said Cached)
            cached = cached or any(f[0] == "true" and f[1].op == "call" and f[1].args[0].endswith("HashMap::contains_key")
                                   and f[1].args[2] and _is_bufs_val(f[1].args[2][0].args[0] if f[1].args[2][0].op == "refval" else f[1].args[2][0])
                                   for f in st.facts)
            if gcall is None:
                inserted = ins and ("var", rd.result, "Ok") in st.facts and ("var", sk.result, "Ok") in st.facts
            else:
                inserted = ins and ("var", gcall.result, "Ok") in st.facts
            rep.require(bool(cached or inserted), rule, "load_bytes:ok-means-cached", w, "Ok only when cached or freshly read",
                        "load_bytes returns Ok on a path where the range is neither cached nor read")


# ---------------------------------------------------------------------------------------------- typestate: load before get

def rule_load_before_get(F, rep, rule="load-before-get"):
    """every call of CachingReader::get_bytes(r) is dominated by the success edge of load_bytes(r') on the same reader with
    r' == r (both components value-equal) and no clear_cache in between.  Discharges the `expect` in get_bytes."""
    n = 0
    from . import prov
    from .engine import program
    prov.set_program(program(F))      # ranges are compared in normal form (helpers that forward a header are looked through)
    gb = F.fn("elf_stream::CachingReader::get_bytes")
    if gb is None:
        rep.bad(rule, "anchor", "src/elf_stream.rs", "anchor missing: get_bytes")
        return 0
    rep.require(not gb.get("reachable_pub"), rule, "get_bytes is private", wh(gb["span"]), "not callable from outside the crate",
                "CachingReader::get_bytes became reachable from outside: its precondition cannot be checked at call sites")
    for fn in stream_fns(F):
        an = analyze_fn(F, fn)
        gets = []
        for b in an.rpo:
            if b not in an.entry:
                continue
            t = an.blocks[b]["term"]
            if t["k"] == "call" and (t["callee"].get("resolved") or t["callee"].get("qual")) == "elf_stream::CachingReader::get_bytes":
                gets.append(b)
        if not gets:
            continue
        loads = [c for c in an.calls() if c.callee_qual == "elf_stream::CachingReader::load_bytes"]
        clears = [c for c in an.calls() if c.callee_qual == "elf_stream::CachingReader::clear_cache"]
        hloads = helper_loads(F, an)
        for b in gets:
            n += 1
            cs = an.calls_by_block[b]
            rng = cs.args[1]
            key = "%s|get_bytes(%s)" % (fn["qual"], pp(rng)[:200])
            hit = None
            for l in loads:
                if l.args[1] is rng and _same_reader(l, cs) and ("var", l.result, "Ok") in cs.facts:
                    if not any(an.reachable(l.block, c.block) and an.reachable(c.block, b) for c in clears):
                        hit = l
                        break
            if hit is None:
                # ... or of a private helper that loads that range into the same reader on each of its success paths
                for hc, ri, r2 in hloads:
                    if (r2 is rng or pnorm_eq(r2, rng)) and hc.arg_lvs[ri] == cs.arg_lvs[0] and ("var", hc.result, "Ok") in cs.facts:
                        if not any(an.reachable(hc.block, c.block) and an.reachable(c.block, b) for c in clears):
                            hit = hc
                            break
            if hit is None and fn["kind"] == "Closure":
                hit = _closure_runs_after_load(F, fn, rng)
            rep.require(hit is not None, rule, key, cs.where(),
                        "reached only after load_bytes of the same range succeeded (fact on every path to the call, incl. data-dependent branches)",
                        "%s calls get_bytes(%s) without a dominating successful load_bytes of exactly that range (the `expect` would panic)"
                        % (fn["qual"], pp(rng)[:160]))
    rep.floor(rule, "get_bytes call sites", n, 6)     # 9 on the pinned tree; read_bytes may look the buffer up itself
    return n


def helper_loads(F, an):
    """[(call site c, index of the reader argument, range in the caller's terms)]: c calls a private helper (not one the rules know by
    name) that on every path on which it returns Ok has successfully loaded that range into the reader it was handed"""
    from .engine import program
    prog = program(F)
    LB, CC = "elf_stream::CachingReader::load_bytes", "elf_stream::CachingReader::clear_cache"
    out = []
    for c in an.calls():
        lf = prog.local_fn(c.callee)
        if lf is None or lf["kind"] == "Closure" or prog.known_name(lf) or c.block not in an.entry:
            continue
        han = analyze_fn(F, lf)
        hps = han.paths() if han is not None else None
        if not hps:
            continue
        common = None
        for t, st, calls in hps:
            if t.op == "agg" and t.args[3] == "Err":
                continue
            if not (t.op == "agg" and t.args[3] == "Ok") or any(x.callee_qual == CC for x in calls):
                common = set()
                break
            s_ = set()
            for x in calls:
                if x.callee_qual == LB and ("var", x.result, "Ok") in st.facts and x.args[0].op == "param":
                    s_.add((x.args[0].args[0] - 1, han.simp(x.args[1], st.facts)))
            common = s_ if common is None else (common & s_)
        for ri, r in sorted(common or (), key=lambda z: (z[0], pp(z[1]))):
            try:
                r2 = prog.subst(an, State_(an, c), r, c.arg_values())
            except KeyError:
                r2 = None
            if r2 is not None and ri < len(c.arg_lvs) and c.arg_lvs[ri] is not None:
                out.append((c, ri, r2))
    return out


def _closure_runs_after_load(F, cfn, rng):
    """The closure is the mapping function of `load_bytes(r).map(..)` / `.and_then(..)`: it runs only when that load succeeded;
    the range it passes to get_bytes is its capture of a value equal to r."""
    parent = F.fn(cfn["qual"].split("::{closure")[0])
    if parent is None:
        return None
    pan = analyze_fn(F, parent)
    loads = {c.result: c for c in pan.calls() if c.callee_qual == "elf_stream::CachingReader::load_bytes"}
    for c in pan.calls():
        if c.declared_norm not in ("result::Result::map", "result::Result::and_then") or len(c.args) != 2:
            continue
        clo = c.args[1]
        if not (clo.op == "agg" and clo.args[0] == "closure" and clo.args[1] == cfn["qual"]):
            continue
        l = loads.get(c.args[0])
        if l is None:
            continue
        # the range handed to get_bytes, with the closure's captures replaced by the values they had when it was created
        from .engine import program, State
        env_ty = norm(cfn["body"]["locals"][1]["ty"]) if len(cfn["body"]["locals"]) > 1 else ""
        env = T.refval(clo) if env_ty.startswith("&") else clo
        stc = State_(pan, c)
        v = program(F).subst(pan, stc, rng, [env, T.agg("tuple", None, 0, None, [])])
        if v is not None:
            v = v.args[0] if v.op == "refval" else v
            if v is l.args[1] or pnorm_eq(v, l.args[1]):
                return l
    return None


def pnorm_eq(a, b):
    from .prov import norm as pnorm
    return pnorm(a) == pnorm(b)


def State_(an, cs):
    from .engine import State
    return State(an.exit_env.get(cs.block, {}), cs.facts)


def _same_reader(a, b):
    la, lb = a.arg_lvs[0], b.arg_lvs[0]
    if la == lb:
        return True
    # &mut self.reader (lvalue) vs &self.reader (value snapshot): compare the place path
    return False
