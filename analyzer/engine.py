"""Forward value-numbering engine over the MIR fact base (no solver, no path enumeration).

For one function it computes, per basic block, the abstract state on entry (place -> value term,
plus a set of must-facts) and records every call / assert / switch with the terms of its operands.
See DESIGN.md section 4."""
import re

from .terms import T, Term, pp, INT_BITS, SIGNED

_norm_re = re.compile(r"\b(?:std|core|alloc)::")


def norm(q):
    return _norm_re.sub("", q or "")


CORE_VARIANTS = {
    "option::Option": ["None", "Some"],
    "result::Result": ["Ok", "Err"],
    "ops::ControlFlow": ["Continue", "Break"],
    "ops::control_flow::ControlFlow": ["Continue", "Break"],
}

ENDIAN_READS = {
    "endian::EndianParse::parse_u8_at": (1, False),
    "endian::EndianParse::parse_u16_at": (2, False),
    "endian::EndianParse::parse_u32_at": (4, False),
    "endian::EndianParse::parse_u64_at": (8, False),
    "endian::EndianParse::parse_i32_at": (4, True),
    "endian::EndianParse::parse_i64_at": (8, True),
}


def adt_of(ty):
    """'std::result::Result<u16, parse::ParseError>' -> 'result::Result'"""
    t = norm(ty)
    t = re.sub(r"^&(?:'\w+ )?(?:mut )?", "", t)
    m = re.match(r"([A-Za-z_][\w:]*)", t)
    return m.group(1) if m else None


class CallSite:
    def __init__(self, block, term, callee, args, result, facts, arg_lvs):
        self.block = block
        self.term = term
        self.callee = callee
        self.callee_qual = callee.get("resolved") or callee.get("qual") or ""
        self.declared_qual = callee.get("qual") or ""
        self.callee_norm = norm(self.callee_qual)
        self.declared_norm = norm(self.declared_qual)
        self.args = args
        self.result = result
        self.facts = facts
        self.arg_lvs = arg_lvs
        self.span = term["span"]

    def where(self):
        s = self.span
        return "%s:%d:%d" % (s["file"], s["line"], s["col"])

    def arg_values(self):
        """arguments, with a reference to a local replaced by a reference to the value it held at the call"""
        out = []
        pb = getattr(self, "pointee_before", None) or [None] * len(self.args)
        for a, v in zip(self.args, pb):
            out.append(T.refval(v) if (a.op == "ref" and v is not None) else a)
        return out


class State:
    __slots__ = ("env", "facts")

    def __init__(self, env, facts):
        self.env = env
        self.facts = facts


class Unsupported(Exception):
    pass


class FnAnalysis:
    def __init__(self, prog, fn, assume=(), depth=0):
        self.prog = prog
        self.F = prog.facts
        self.fn = fn
        self.fid = fn["id"]
        self.body = fn["body"]
        self.blocks = self.body["blocks"]
        self.nb = len(self.blocks)
        self.assume = tuple(assume)
        self.depth = depth
        self.local_ty = {l["i"]: l["ty"] for l in self.body["locals"]}
        self.names = {}
        for d in self.body["debug"]:
            if not d["place"]["proj"]:
                self.names.setdefault(d["place"]["local"], d["name"])
        self._cfg()
        self.entry = {}        # block -> State
        self.exit_env = {}     # block -> env after statements (before terminator)
        self.exit_facts = {}
        self.edge_facts = {}   # (pred, succ) -> facts frozenset
        self.feasible = set()  # feasible edges
        self.calls_by_block = {}
        self.asserts = []
        self.switches = {}
        self.phi_ops = {}      # phi term -> {pred: term}
        self.unsupported = []  # notes about constructs treated as Fresh
        self.hints = {}
        self._record = True
        self._path_calls = []
        self._run()

    def hint(self, term, ty):
        if term is not None and ty and term not in self.hints:
            self.hints[term] = norm(ty)

    def type_hint(self, term):
        h = self.hints.get(term)
        if h:
            return h
        if term.op == "call":
            f = term.args[0]
            if f == "ops::Try::branch":
                return "ops::ControlFlow"
            if f in ("option::Option::ok_or", "option::Option::ok_or_else"):
                return "result::Result"
        if term.op == "agg" and term.args[0] == "adt":
            return term.args[1]
        return None

    # ------------------------------------------------------------------ CFG
    def _succs_of(self, t):
        k = t["k"]
        if k == "goto":
            return [t["target"]]
        if k == "switch":
            return [b for _, b in t["targets"]] + [t["otherwise"]]
        if k in ("call",):
            return [t["target"]] if t["target"] is not None else []
        if k in ("assert", "drop"):
            return [t["target"]]
        return []

    def _cfg(self):
        self.succs = {}
        self.preds = {i: [] for i in range(self.nb)}
        for i, b in enumerate(self.blocks):
            if b["cleanup"]:
                self.succs[i] = []
                continue
            ss = []
            for s in self._succs_of(b["term"]):
                if s not in ss:
                    ss.append(s)
            self.succs[i] = ss
        for i, ss in self.succs.items():
            for s in ss:
                self.preds[s].append(i)
        # reverse post-order from block 0
        seen, order = set(), []
        stack = [(0, iter(self.succs[0]))]
        seen.add(0)
        while stack:
            n, it = stack[-1]
            adv = False
            for s in it:
                if s not in seen:
                    seen.add(s)
                    stack.append((s, iter(self.succs[s])))
                    adv = True
                    break
            if not adv:
                order.append(n)
                stack.pop()
        self.rpo = list(reversed(order))
        self.reach = seen
        self.rpo_index = {b: i for i, b in enumerate(self.rpo)}
        # dominators (iterative)
        idom = {0: 0}
        changed = True
        while changed:
            changed = False
            for b in self.rpo[1:]:
                ps = [p for p in self.preds[b] if p in idom]
                if not ps:
                    continue
                new = ps[0]
                for p in ps[1:]:
                    new = self._intersect(idom, new, p)
                if idom.get(b) != new:
                    idom[b] = new
                    changed = True
        self.idom = idom
        # natural loops
        self.loops = {}  # header -> set(blocks)
        for b in self.rpo:
            for s in self.succs[b]:
                if self.dominates(s, b):
                    body = self.loops.setdefault(s, {s})
                    st = [b]
                    while st:
                        x = st.pop()
                        if x not in body:
                            body.add(x)
                            st.extend(self.preds[x])
        self.back_edges = {(b, s) for b in self.rpo for s in self.succs[b] if self.dominates(s, b)}

    def _intersect(self, idom, a, b):
        while a != b:
            while self.rpo_index[a] > self.rpo_index[b]:
                a = idom[a]
            while self.rpo_index[b] > self.rpo_index[a]:
                b = idom[b]
        return a

    def dominates(self, a, b):
        """a dominates b"""
        if a not in self.idom or b not in self.idom:
            return False
        while True:
            if a == b:
                return True
            if b == 0:
                return False
            b = self.idom[b]

    # ------------------------------------------------------------------ lvalues
    def resolve_place(self, st, place):
        root, path = ("L", place["local"]), ()
        for e in place["proj"]:
            k = e["k"]
            if k == "deref":
                p = self.read(st, (root, path))
                if p.op == "ref":
                    root, path = p.args[0], p.args[1]
                else:
                    root, path = ("M", p), ()
            elif k == "field":
                path = path + (("f", e["i"], e.get("name")),)
            elif k == "downcast":
                path = path + (("v", e["variant"], e.get("name")),)
            elif k == "index":
                path = path + (("idx", self.read(st, (("L", e["local"]), ()))),)
            elif k == "const_index":
                path = path + (("cidx", e["offset"], e["from_end"]),)
            else:
                path = path + (("other", e.get("text", k)),)
        return (root, path)

    def read(self, st, lv):
        root, path = lv
        env = st.env
        base = None
        # longest prefix key (including exact)
        for n in range(len(path), -1, -1):
            t = env.get((root, path[:n]))
            if t is not None:
                base = t
                for e in path[n:]:
                    base = T.proj(base, e)
                break
        if base is None:
            if root[0] == "M":
                base = T.deref(root[1])
            else:
                base = T.undef(root[1])
            for e in path:
                base = T.proj(base, e)
        # overlays strictly below lv
        ov = []
        lp = len(path)
        for (r, p), v in env.items():
            if r == root and len(p) > lp and p[:lp] == path:
                ov.append((p[lp:], v))
        if ov:
            # only keep overlays not shadowed by the chosen base key (base key is a prefix of lv, overlays are below lv)
            ov.sort(key=lambda x: repr(x[0]))
            base = Term("upd", base, tuple(ov))
        return self.simp(base, st.facts)

    def write(self, st, lv, val):
        root, path = lv
        env = st.env
        lp = len(path)
        for k in [k for k in env if k[0] == root and len(k[1]) > lp and k[1][:lp] == path]:
            del env[k]
        env[lv] = val
        # a write through an index path invalidates other index keys under the same parent
        for i, e in enumerate(path):
            if e[0] == "idx":
                for k in [k for k in env if k != lv and k[0] == root and k[1][:i] == path[:i] and len(k[1]) > i
                          and k[1][i][0] in ("idx", "cidx")]:
                    del env[k]

    # ------------------------------------------------------------------ simplification under facts
    def simp(self, t, facts):
        sels = [f for f in facts if f[0] == "sel"]
        if sels:
            from .terms import rebuild
            mp = {f[1]: f[2] for f in sels}
            for _ in range(16):
                if not any(x in mp for x in t.subterms()):
                    break
                t = rebuild(t, mp)
        if t.op == "okelse":
            r, a, b = t.args
            if ("var", r, "Ok") in facts:
                return self.simp(a, facts)
            if ("var", r, "Err") in facts:
                return self.simp(b, facts)
        if t.has_tree() and facts:
            t = self.resolve_trees(t, facts)
        return t

    # ------------------------------------------------------------------ decision nodes
    def vs_for(self, x, v):
        if v in ("Some", "None"):
            return ["None", "Some"]
        if v in ("Ok", "Err"):
            return ["Ok", "Err"]
        if v in ("Continue", "Break"):
            return ["Continue", "Break"]
        ty = self.type_hint(x)
        return self.variants_of(ty) if ty else None

    def var_fact(self, x, v):
        """the fact that stands for `x is variant v` (facts are kept on the base of x: see norm_var); or True / False when known statically"""
        vs = self.vs_for(x, v)
        if not vs or v not in vs:
            return ("var", x, v)
        base, names = self.norm_var(x, vs)
        if base is None:
            return vs[names] == v
        n = names[vs.index(v)]
        if n.startswith("!"):
            return False
        return ("var", base, n)

    def variant_known(self, x, v, facts):
        """True / False / None: is x variant v under facts"""
        f = self.var_fact(x, v)
        if f is True or f is False:
            return f
        if f in facts:
            return True
        _, base, n = f
        if ("notvar", base, n) in facts:
            return False
        for g in facts:
            if g[0] == "var" and g[1] is base and g[2] != n:
                return False
        return None

    def resolve_trees(self, t, facts):
        from .terms import rebuild
        for _ in range(12):
            mp = {}
            for x in t.subterms():
                if x.op == "mterm":
                    for v, a in x.args[1]:
                        if self.variant_known(x.args[0], v, facts) is True:
                            mp[x] = a
                            break
                elif x.op == "ite":
                    tv = self.truth(facts, x.args[0])
                    if tv is not None:
                        mp[x] = x.args[1] if tv else x.args[2]
            if not mp:
                break
            t = rebuild(t, mp)
            if not t.has_tree():
                break
        return t

    # ------------------------------------------------------------------ operand evaluation
    def const_term(self, c):
        if "fn" in c:
            return Term("fnptr", c["fn"].get("resolved") or c["fn"]["qual"])
        if "val" in c:
            return T.const(norm(c["ty"]), int(c["val"]))
        if "bytes" in c:
            return T.cbytes(c["bytes"])
        if c.get("zst"):
            return Term("zst", norm(c["ty"]))
        if "ref_const" in c:
            rc = c["ref_const"]
            if "variant" in rc:
                return T.refval(T.agg("adt", norm(rc["adt"]), rc["variant"], rc["variant_name"], []))
            return T.refval(T.const(norm(rc["ty"]), int(rc["bits"])))
        if c.get("opaque") in (self.fn.get("generic_params") or ()):
            return Term("cparam", c.get("opaque"), norm(c["ty"]))   # a const generic parameter of this function
        return Term("opaque", c.get("opaque"), norm(c["ty"]))

    def operand(self, st, o):
        if "copy" in o or "move" in o:
            pl = o.get("copy") or o.get("move")
            t = self.read(st, self.resolve_place(st, pl))
            self.hint(t, pl["ty"])
            return t
        if "const" in o:
            return self.const_term(o["const"])
        return Term("opaque", o.get("opaque"), None)

    def variants_of(self, ty):
        a = adt_of(ty)
        if a in CORE_VARIANTS:
            return CORE_VARIANTS[a]
        ad = self.F.adts.get(a)
        if ad and ad["kind"] == "Enum":
            return [v["name"] for v in ad["variants"]]
        return None

    def rvalue(self, st, rv, blk):
        k = rv["k"]
        if k == "use":
            return self.operand(st, rv["op"])
        if k in ("ref", "rawptr"):
            # `&raw const *p` (slice patterns take the length through it) designates the same place as `&*p`
            lv = self.resolve_place(st, rv["place"])
            root, path = lv
            if root[0] == "M" and not path:
                return root[1]  # reborrow  &*p == p
            return T.ref(root, path)
        if k == "cast":
            x = self.operand(st, rv["op"])
            return T.cast(rv["kind"], x, norm(rv["from"]), norm(rv["to"]))
        if k == "bin":
            return T.bin(rv["op"], self.operand(st, rv["l"]), self.operand(st, rv["r"]), norm(rv["lty"]))
        if k == "un":
            return T.un(rv["op"], self.operand(st, rv["x"]), norm(rv["xty"]))
        if k == "discr":
            x = self.read(st, self.resolve_place(st, rv["place"]))
            self.hint(x, rv["place"]["ty"])
            return self.discr_term(st, x, rv["place"]["ty"])
        if k == "agg":
            fields = [self.operand(st, f) for f in rv["fields"]]
            a = rv["agg"]
            if a == "adt":
                return T.agg("adt", norm(rv["adt"]), rv["variant"], rv["variant_name"], fields)
            if a == "closure":
                return T.agg("closure", rv["closure"], 0, None, fields)
            return T.agg(a, None, 0, None, fields)
        if k == "repeat":
            return Term("repeat", self.operand(st, rv["op"]), rv["n"])
        self.unsupported.append("rvalue %s in bb%d" % (rv.get("text", k), blk))
        return T.fresh((self.fid, blk), "rv:%s" % rv.get("text", k))

    def discr_term(self, st, x, ty):
        vs = self.variants_of(ty)
        if vs:
            base, names = self.norm_var(x, vs)
            if base is None:
                # constant
                return T.const("isize", names)
            for i, n in enumerate(vs):
                if ("var", base, names[i]) in st.facts:
                    return T.const("isize", i)
        return T.discr(x)

    def norm_var(self, x, vs):
        """strip Try::branch / ok_or wrappers: returns (base, names') where names'[i] is the variant name of base
        that corresponds to variant i of x; or (None, index) when the variant is statically known"""
        names = list(vs)
        while True:
            if x.op == "agg" and x.args[0] == "adt":
                # statically known: answer with the index in the *caller's* variant list (wrappers such as ok_or change the type,
                # and with it the numbering: None is 0 in Option but corresponds to Err = 1 of the Result it was turned into)
                if x.args[3] in names:
                    return None, names.index(x.args[3])
                return None, x.args[2]
            if x.op == "call":
                f, g, a = x.args
                if f == "ops::Try::branch" and names == ["Continue", "Break"]:
                    inner_opt = g and g[0].startswith("option::Option")
                    names = ["Some", "None"] if inner_opt else ["Ok", "Err"]
                    x = a[0]
                    continue
                if f in ("option::Option::ok_or", "option::Option::ok_or_else") and set(names) == {"Ok", "Err"}:
                    names = ["Some" if n == "Ok" else "None" for n in names]
                    x = a[0]
                    continue
                if f == "result::Result::ok" and set(names) == {"Some", "None"}:
                    names = ["Ok" if n == "Some" else "Err" for n in names]
                    x = a[0]
                    continue
            if x.op == "mterm":
                # a case split on the variant of X whose arms are distinct variants: "x is variant n" <=> "X is variant v"
                X, arms = x.args
                back = {}
                ok = True
                for v, a_ in arms:
                    if a_.op == "agg" and a_.args[0] == "adt" and a_.args[3] is not None and a_.args[3] not in back:
                        back[a_.args[3]] = v
                    else:
                        ok = False
                if ok and all(n in back or n.startswith("!") for n in names):
                    names = [back.get(n, "!" + n) for n in names]
                    x = X
                    continue
            return x, names

    # ------------------------------------------------------------------ facts
    def assume_bool(self, facts, t, truth):
        """add the fact that boolean term t has the given truth value"""
        out = set(facts)
        self._assume(out, t, truth)
        return frozenset(out)

    def _assume(self, out, t, truth):
        if t.op == "un" and t.args[0] == "Not":
            return self._assume(out, t.args[1], not truth)
        if t.op == "const":
            return
        if t.op == "call":
            f, g, a = t.args
            m = {"option::Option::is_some": ("Some", "None"), "option::Option::is_none": ("None", "Some"),
                 "result::Result::is_ok": ("Ok", "Err"), "result::Result::is_err": ("Err", "Ok")}.get(f)
            if m:
                vs = ["None", "Some"] if m[0] in ("Some", "None") else ["Ok", "Err"]
                x = a[0].args[0] if a[0].op == "refval" else T.deref(a[0])
                base, names = self.norm_var(x, vs)
                want = m[0] if truth else m[1]
                if base is not None:
                    out.add(("var", base, names[vs.index(want)]))
                return
        if t.op == "ite":
            # a boolean decision node one arm of which is a constant: `if c {false} else {y}` is true only when !c and y
            c_, x_, y_ = t.args
            for arm, other, cv in ((x_, y_, False), (y_, x_, True)):
                if arm.op == "const" and bool(arm.args[1]) != truth:
                    self._assume(out, c_, cv)
                    self._assume(out, other, truth)
                    break
        if t.op == "bin" and t.args[0] in ("BitAnd", "BitOr") and t.args[3] == "bool":
            if t.args[0] == "BitAnd" and truth:
                self._assume(out, t.args[1], True)
                self._assume(out, t.args[2], True)
            if t.args[0] == "BitOr" and not truth:
                self._assume(out, t.args[1], False)
                self._assume(out, t.args[2], False)
        out.add(("true" if truth else "false", t))
        if t.op == "bin" and t.args[0] in ("Lt", "Le"):
            # a < b  <=>  !(b <= a)
            dual = Term("bin", "Le" if t.args[0] == "Lt" else "Lt", t.args[2], t.args[1], t.args[3])
            out.add(("false" if truth else "true", dual))
        if t.op == "bin" and t.args[0] in ("Eq", "Ne"):
            dual = Term("bin", "Ne" if t.args[0] == "Eq" else "Eq", t.args[1], t.args[2], t.args[3])
            out.add(("false" if truth else "true", dual))      # a != b  <=>  !(a == b)
            dv = self._discr_cmp(t)
            if dv is not None:
                base, names, k = dv
                eq = (t.args[0] == "Eq") == truth
                if 0 <= k < len(names):
                    if eq:
                        out.add(("var", base, names[k]))
                    else:
                        out.add(("notvar", base, names[k]))
                        if len(names) == 2:
                            out.add(("var", base, names[1 - k]))
            a, b = t.args[1], t.args[2]
            eq = (t.args[0] == "Eq") == truth
            if b.op == "const":
                out.add(("eq" if eq else "ne", a, b.args[1]))
            elif a.op == "const":
                out.add(("eq" if eq else "ne", b, a.args[1]))

    def truth(self, facts, t):
        """decide boolean term under facts: True / False / None"""
        if t.op == "const":
            return bool(t.args[1])
        if t.op == "un" and t.args[0] == "Not":
            r = self.truth(facts, t.args[1])
            return None if r is None else not r
        if ("true", t) in facts:
            return True
        if ("false", t) in facts:
            return False
        if t.op == "bin" and t.args[0] in ("Eq", "Ne"):
            # x == 0  <=>  x < 1 for an unsigned x (a slice pattern `[_, ..]` tests the length that way)
            a0, b0 = t.args[1], t.args[2]
            if a0.op == "const":
                a0, b0 = b0, a0
            if b0.op == "const" and b0.args[1] == 0 and b0.args[0] in INT_BITS and b0.args[0] not in ("i8", "i16", "i32", "i64", "i128", "isize"):
                lt1 = Term("bin", "Lt", a0, T.const(b0.args[0], 1), b0.args[0])
                if ("true", lt1) in facts:
                    return t.args[0] == "Eq"
                if ("false", lt1) in facts:
                    return t.args[0] == "Ne"
            # x == Enum::V for a field-less variant V, with the variant of x known on this path
            for x_, k_ in ((t.args[1], t.args[2]), (t.args[2], t.args[1])):
                if k_.op == "agg" and k_.args[0] == "adt" and not k_.args[4] and k_.args[3] is not None and x_.op != "agg":
                    for f in facts:
                        if f[0] == "var" and f[1] is x_:
                            return (t.args[0] == "Eq") == (f[2] == k_.args[3])
                        if f[0] == "notvar" and f[1] is x_ and f[2] == k_.args[3]:
                            return t.args[0] == "Ne"
            dv = self._discr_cmp(t)
            if dv is not None:
                base, names, k = dv
                if 0 <= k < len(names):
                    if ("var", base, names[k]) in facts:
                        return t.args[0] == "Eq"
                    if ("notvar", base, names[k]) in facts or any(("var", base, n) in facts for i, n in enumerate(names) if i != k):
                        return t.args[0] == "Ne"
            a, b = t.args[1], t.args[2]
            if a.op == "const":
                a, b = b, a
            if b.op == "const":
                if ("eq", a, b.args[1]) in facts:
                    return t.args[0] == "Eq"
                if ("ne", a, b.args[1]) in facts:
                    return t.args[0] == "Ne"
                for f in facts:
                    if f[0] == "eq" and f[1] is a and f[2] != b.args[1]:
                        return t.args[0] == "Ne"
        return None

    def _discr_cmp(self, t):
        """t = Eq/Ne(discr(x), const k) -> (base, variant names of base, k)"""
        a, b = t.args[1], t.args[2]
        if a.op == "const":
            a, b = b, a
        if a.op == "discr" and b.op == "const" and isinstance(b.args[1], int):
            vs = self._variants_for_discr(a.args[0])
            if vs:
                base, names = self.norm_var(a.args[0], vs)
                if base is not None:
                    return base, names, b.args[1]
        return None

    # ------------------------------------------------------------------ main loop
    def _initial_state(self):
        env = {}
        for i in range(1, self.body["arg_count"] + 1):
            env[(("L", i), ())] = T.param(i)
            self.hint(T.param(i), self.local_ty.get(i))
        facts = set()
        for a in self.assume:
            facts.add(a)
        return State(env, frozenset(facts))

    def _merge(self, b, incoming):
        """incoming: list of (pred, State)"""
        if len(incoming) == 1:
            p, s = incoming[0]
            env = dict(s.env)
            facts = s.facts
        else:
            keys = set()
            for _, s in incoming:
                keys |= set(s.env.keys())
            env = {}
            # process shorter paths first so that a phi on a prefix is visible
            for key in sorted(keys, key=lambda k: (len(k[1]), repr(k))):
                vals = [(p, self.read(s, key)) for p, s in incoming]
                first = vals[0][1]
                if all(v is first for _, v in vals):
                    if any(key in s.env for _, s in incoming):
                        env[key] = first
                else:
                    merged = self._struct_merge(b, key, vals)
                    env[key] = merged
            facts = incoming[0][1].facts
            for _, s in incoming[1:]:
                facts = facts & s.facts
        if b in self.loops:
            body = self.loops[b]
            keep = set()
            for f in facts:
                bad = False
                for x in f[1:]:
                    if isinstance(x, Term):
                        for (fid, blk) in x.syms():
                            if fid == self.fid and blk in body:
                                bad = True
                                break
                    if bad:
                        break
                if not bad:
                    keep.add(f)
            facts = frozenset(keep)
        return State(env, facts)

    def _struct_merge(self, b, key, vals):
        """merge differing values: same-variant aggregates merge field-wise, otherwise a phi symbol"""
        ts = [v for _, v in vals]
        f0 = ts[0]
        if all(t.op == "agg" and t.args[:4] == f0.args[:4] and len(t.args[4]) == len(f0.args[4]) for t in ts):
            fields = []
            for i in range(len(f0.args[4])):
                sub = [(p, t.args[4][i]) for p, t in vals]
                if all(x is sub[0][1] for _, x in sub):
                    fields.append(sub[0][1])
                else:
                    fields.append(self._struct_merge(b, (key[0], key[1] + (("f", i, None),)), sub))
            return T.agg(f0.args[0], f0.args[1], f0.args[2], f0.args[3], fields)
        # a boolean that is `true` on the edges where c holds and `false` where it does not is c itself (`matches!(..)`,
        # `if c { true } else { false }`, `match c { true => .., false => .. }`)
        if len(vals) == 2 and all(t.op == "const" and t.args[0] == "bool" for t in ts) and ts[0] is not ts[1]:
            (pa, ta), (pb, tb) = vals
            sa, sb = self.out_states.get((pa, b)), self.out_states.get((pb, b))
            if sa is not None and sb is not None:
                from .terms import _skey_of
                cands = []
                for f in sa.facts:
                    if f[0] in ("true", "false") and isinstance(f[1], Term) and (("false" if f[0] == "true" else "true"), f[1]) in sb.facts:
                        cands.append(f)
                if cands:
                    f = min(cands, key=lambda f_: repr(_skey_of(f_[1])))
                    c = f[1]
                    # on edge a: c has truth (f[0] == "true") and the value is ta
                    same = (f[0] == "true") == bool(ta.args[1])
                    return c if same else T.un("Not", c, "bool")
        ph = T.phi((self.fid, b), key)
        self.phi_ops[ph] = dict(vals)
        if key[0][0] == "L" and not key[1]:
            self.hint(ph, self.local_ty.get(key[0][1]))
        else:
            for _, v in vals:
                h = self.type_hint(v)
                if h:
                    self.hint(ph, h)
                    break
        return ph

    def _run(self):
        if not self.blocks:
            return
        init = self._initial_state()
        out_states = self.out_states = {}   # (pred, succ) -> State
        changed = True
        rounds = 0
        entry_sig = {}
        while changed:
            rounds += 1
            if rounds > 12:
                raise Unsupported("no fixpoint in %s" % self.fn["qual"])
            changed = False
            for b in self.rpo:
                if b == 0:
                    st_in = State(dict(init.env), init.facts)
                else:
                    inc = [(p, out_states[(p, b)]) for p in self.preds[b] if (p, b) in out_states]
                    if not inc:
                        continue
                    st_in = self._merge(b, inc)
                sig = (frozenset(st_in.env.items()), st_in.facts)
                if entry_sig.get(b) == sig:
                    continue
                entry_sig[b] = sig
                changed = True
                self.entry[b] = State(dict(st_in.env), st_in.facts)
                outs = self._transfer(b, st_in)
                # replace the outgoing states of b
                for s in self.succs[b]:
                    out_states.pop((b, s), None)
                for s, sst in outs.items():
                    out_states[(b, s)] = sst
        self.out_states = out_states
        self.feasible = set(out_states.keys())
        self.rounds = rounds

    def _transfer(self, b, st, record=True):
        blk = self.blocks[b]
        self._record = record
        if record:
            self.calls_by_block.pop(b, None)
        for s in blk["stmts"]:
            if s["k"] == "assign":
                val = self.rvalue(st, s["rv"], b)
                self.write(st, self.resolve_place(st, s["place"]), val)
            elif s["k"] == "set_discr":
                lv = self.resolve_place(st, s["place"])
                self.write(st, lv, T.fresh((self.fid, b), "setdiscr"))
            else:
                self.unsupported.append("stmt %s in bb%d" % (s.get("text"), b))
        t = blk["term"]
        k = t["k"]
        if record:
            self.exit_env[b] = dict(st.env)
            self.exit_facts[b] = st.facts
        outs = {}
        if k == "goto":
            outs[t["target"]] = st
        elif k == "switch":
            d = self.operand(st, t["discr"])
            if record:
                self.switches[b] = d
            dty = norm(t["discr_ty"])
            taken = None
            if d.op == "const":
                taken = d.args[1]
            targets = [(int(v), tb) for v, tb in t["targets"]]
            listed = [v for v, _ in targets]
            if taken is not None:
                tb = dict(targets).get(taken, t["otherwise"])
                outs[tb] = st
            else:
                for v, tb in targets:
                    fs = self._switch_fact(st.facts, d, dty, v, True, listed)
                    if fs is None:
                        continue
                    self._add_out(outs, tb, State(dict(st.env), fs))
                fs = st.facts
                dead = False
                for v in listed:
                    fs = self._switch_fact(fs, d, dty, v, False, listed)
                    if fs is None:
                        dead = True
                        break
                if not dead and not self._is_unreachable(t["otherwise"]):
                    self._add_out(outs, t["otherwise"], State(dict(st.env), fs))
        elif k == "call":
            self._call(b, st, t)
            if t["target"] is not None:
                outs[t["target"]] = st
        elif k == "assert":
            cond = self.operand(st, t["cond"])
            ops = [self.operand(st, o) for o in t["ops"]]
            if record:
                self.asserts = [a for a in self.asserts if a["block"] != b]
            (self.asserts if record else []).append({"block": b, "cond": cond, "expected": t["expected"], "kind": t["kind"], "ops": ops,
                                 "facts": st.facts, "span": t["span"], "term": t})
            fs = self.assume_bool(st.facts, cond, t["expected"])
            outs[t["target"]] = State(st.env, fs)
        elif k == "drop":
            outs[t["target"]] = st
        elif k in ("return", "unreachable", "resume", "terminate"):
            pass
        else:
            self.unsupported.append("terminator %s in bb%d" % (t.get("text", k), b))
        return outs

    def _is_unreachable(self, b):
        blk = self.blocks[b]
        return not blk["stmts"] and blk["term"]["k"] == "unreachable"

    def _add_out(self, outs, tb, st):
        if tb in outs:
            # two switch values lead to the same block: intersect facts
            outs[tb] = State(st.env, outs[tb].facts & st.facts)
        else:
            outs[tb] = st

    def _switch_fact(self, facts, d, dty, v, taken, listed):
        fs = self._switch_fact0(facts, d, dty, v, taken, listed)
        if fs is None or fs is facts:
            return fs
        # what was learned may decide a condition inside a decision tree whose variant is already known on this path
        # (`locate()?` known Ok, then `match` shows it is not the `if cached {Ok(Cached)}` arm: the inner bounds check held)
        for f in list(fs):
            if f[0] == "var" and isinstance(f[1], Term) and f[1].op == "ite":
                nf = self._case_facts(frozenset(fs), f[1], f[2])
                if nf is None:
                    return None
                fs = nf
        return fs

    def _switch_fact0(self, facts, d, dty, v, taken, listed):
        """facts after learning (d == v) if taken else (d != v); None when contradictory"""
        if d.op == "discr":
            x = d.args[0]
            vs = self._variants_for_discr(x)
            if vs is not None and 0 <= v < len(vs):
                base, names = self.norm_var(x, vs)
                if base is None:
                    return facts if (names == v) == taken else None
                nm = names[v]
                others = [names[i] for i in range(len(vs)) if i != v]
                if taken:
                    for o in others:
                        if ("var", base, o) in facts:
                            return None
                    if ("notvar", base, nm) in facts:
                        return None
                    cf = self._case_facts(facts, base, nm)
                    if cf is None:
                        return None
                    return self._select_phi(cf | {("var", base, nm)}, base, nm)
                else:
                    if ("var", base, nm) in facts:
                        return None
                    out = set(facts)
                    out.add(("notvar", base, nm))
                    if len(vs) == 2:
                        out.add(("var", base, others[0]))
                        cf = self._case_facts(frozenset(out), base, others[0])
                        if cf is None:
                            return None
                        return self._select_phi(cf, base, others[0])
                    return frozenset(out)
        if dty == "bool":
            truthv = bool(v) == taken
            cur = self.truth(facts, d)
            if cur is not None and cur != truthv:
                return None
            return self.assume_bool(facts, d, truthv)
        # integer switch (the boolean forms of the same knowledge let a match on constants be summarised as a case split)
        eqt = lambda w: T.bin("Eq", d, T.const(dty, w), dty) if dty in INT_BITS else None
        if taken:
            for f in facts:
                if f[0] == "eq" and f[1] is d and f[2] != v:
                    return None
                if f[0] == "ne" and f[1] is d and f[2] == v:
                    return None
            extra = {("eq", d, v)}
            if eqt(v) is not None and eqt(v).op != "const":
                # (through _assume: the comparison may have folded to a condition of its own, e.g. discr(if c {None} else {Some}) == 1 is !c)
                self._assume(extra, eqt(v), True)
                for w in listed:
                    if w != v and eqt(w).op != "const":
                        self._assume(extra, eqt(w), False)
            return facts | extra
        else:
            if ("eq", d, v) in facts:
                return None
            extra = {("ne", d, v)}
            if eqt(v) is not None and eqt(v).op != "const":
                self._assume(extra, eqt(v), False)
            return facts | extra

    def _case_facts(self, facts, base, vname, depth=0):
        """base is `if c {A} else {B}` (the summary of a helper) with A, B of different variants: knowing the variant decides c"""
        if base.op != "ite":
            return facts
        if depth == 0:
            base = self.resolve_trees(base, facts)      # conditions already decided on this path drop out first
            if base.op != "ite":
                return facts
        c, a, b = base.args

        def variants_of(x):
            """the set of variants a (possibly nested) decision tree over constructor applications can evaluate to; None if unknown"""
            if x.op == "agg" and x.args[0] == "adt":
                return {x.args[3]}
            if x.op == "ite":
                l, r = variants_of(x.args[1]), variants_of(x.args[2])
                return None if l is None or r is None else l | r
            return None
        sa, sb = variants_of(a), variants_of(b)
        if sa is not None and sb is not None and depth < 4 and (a.op == "ite" or b.op == "ite"):
            # nested: `if c {Ok(A)} else {if d {Ok(B)} else {Err(..)}}` known to be Ok on a path where c is false  =>  d
            if vname in sa and vname not in sb:
                tv, nxt = True, a
            elif vname in sb and vname not in sa:
                tv, nxt = False, b
            else:
                return facts
            cur = self.truth(facts, c)
            if cur is not None and cur != tv:
                return None
            facts = self.assume_bool(facts, c, tv)
            return self._case_facts(facts, nxt, vname, depth + 1) if nxt.op == "ite" else facts
        va = a.args[3] if a.op == "agg" and a.args[0] == "adt" else None
        vb = b.args[3] if b.op == "agg" and b.args[0] == "adt" else None
        if va is None or vb is None or va == vb:
            return facts
        if vname == va:
            tv = True
        elif vname == vb:
            tv = False
        else:
            return None
        cur = self.truth(facts, c)
        if cur is not None and cur != tv:
            return None
        return self.assume_bool(facts, c, tv)

    def _select_phi(self, facts, base, vname):
        """Correlated branches: `base` is a merge of values of which exactly one can be variant `vname`; learning that
        base is `vname` identifies the edge the value came in on, so the value and that edge's facts are known."""
        if base.op != "phi" or base not in self.phi_ops or base.args[0][0] != self.fid:
            return facts
        blk = base.args[0][1]
        if any(blk in body for body in self.loops.values()):
            return facts
        ops = self.phi_ops[base]
        compat = []
        for p, v in ops.items():
            if v.op == "agg" and v.args[0] == "adt" and v.args[3] is not None and v.args[3] != vname:
                continue
            compat.append((p, v))
        if len(compat) != 1:
            return facts
        p, v = compat[0]
        est = self.out_states.get((p, blk))
        if est is None:
            return facts
        out = set(facts)
        out.add(("sel", base, v))
        out |= {f for f in est.facts if f[0] != "sel"}
        return frozenset(out)

    def _variants_for_discr(self, x):
        ty = self.type_hint(x)
        if ty:
            return self.variants_of(ty)
        # a checked integer operation that reached this place through a summary (no local carries its type): it is an Option
        if x.op == "call" and "::checked_" in x.args[0] and x.args[0].split("::")[0] in INT_BITS:
            return ["None", "Some"]
        return None

    # ------------------------------------------------------------------ calls
    def _arg_pointee(self, st, term):
        if term.op == "ref":
            return (term.args[0], term.args[1])
        return (("M", term), ())

    def _call(self, b, st, t):
        callee = t["callee"]
        site = (self.fid, b)
        args = [self.operand(st, a) for a in t["args"]]
        facts_before = st.facts
        dest_lv = self.resolve_place(st, t["dest"])
        dest_ty = t["dest"]["ty"]
        if "indirect" in callee:
            res = T.fresh(site, "ret")
            self.hint(res, dest_ty)
            self._havoc_mut_args(st, site, t, args, None)
            self.write(st, dest_lv, res)
            if self._record:
                self.calls_by_block[b] = CallSite(b, t, {"qual": "<indirect>"}, args, res, facts_before, [])
            return
        q = callee.get("resolved") or callee["qual"]
        nq = norm(q)
        dq = norm(callee["qual"])
        generics = tuple(norm(g) for g in callee.get("generics", []) if not g.startswith("'"))
        arg_tys = [self._operand_ty(a) for a in t["args"]]
        mut_idx = [i for i, ty in enumerate(arg_tys) if ty and "&mut" in ty]
        arg_lvs = [self._arg_pointee(st, a) for a in args]
        pointee_before = [self.read(st, lv) if a.op == "ref" else None for a, lv in zip(args, arg_lvs)]
        res = None
        # --- builtin effect summary: endian reads (validity established by rule C04 on the method bodies)
        if dq in ENDIAN_READS or nq in ENDIAN_READS:
            key = dq if dq in ENDIAN_READS else nq
            width, signed = ENDIAN_READS[key]
            off_lv = arg_lvs[1]
            off0 = self.read(st, off_lv)
            data = args[2]
            res = T.call(key, (), (args[0], off0, data))
            adv = T.bin("Add", off0, T.const("usize", width), "usize")
            self.prog.noovf.add(adv)
            self.write(st, off_lv, Term("okelse", res, adv, off0))
        else:
            res = self.prog.model_call(self, st, site, callee, nq, dq, generics, args, arg_tys, arg_lvs, mut_idx, t)
        self.hint(res, dest_ty)
        self.write(st, dest_lv, res)
        cs = CallSite(b, t, callee, args, res, facts_before, arg_lvs)
        cs.pointee_before = pointee_before
        if self._record:
            self.calls_by_block[b] = cs
        else:
            self._path_calls.append(cs)

    def _operand_ty(self, o):
        if "copy" in o:
            return norm(o["copy"]["ty"])
        if "move" in o:
            return norm(o["move"]["ty"])
        if "const" in o:
            return norm(o["const"].get("ty", ""))
        return ""

    def _havoc_mut_args(self, st, site, t, args, only):
        for i, a in enumerate(t["args"]):
            ty = self._operand_ty(a)
            if "&mut" in ty and (only is None or i in only):
                self._havoc_through(st, site, args[i], i)

    def _havoc_through(self, st, site, term, i):
        if term.op == "agg":
            for j, f in enumerate(term.args[4]):
                self._havoc_through(st, site, f, "%s.%d" % (i, j))
            return
        lv = self._arg_pointee(st, term)
        self.write(st, lv, T.fresh(site, "arg%s" % (i,)))

    # ------------------------------------------------------------------ queries
    def calls(self):
        return [self.calls_by_block[b] for b in sorted(self.calls_by_block)]

    def call_site_of(self, result):
        """the call site that produced `result` (a Result/Option value, or its Ok/Some payload)"""
        x = result
        while x.op == "payload":
            x = x.args[0]
        for c in self.calls_by_block.values():
            if c.result is x:
                return c
        if x.op == "fresh" and x.args[0][0] == self.fid:
            return self.calls_by_block.get(x.args[0][1])
        return None

    def return_blocks(self):
        return [b for b in self.rpo if self.blocks[b]["term"]["k"] == "return" and b in self.entry]

    def ret_term(self):
        rbs = self.return_blocks()
        if len(rbs) != 1:
            return None
        st = State(self.exit_env[rbs[0]], self.exit_facts[rbs[0]])
        return self.read(st, (("L", 0), ()))

    def reachable(self, a, b):
        """is there a (feasible, non-cleanup) path of length >= 1 from block a to block b"""
        seen = set()
        st = [s for s in self.succs[a] if (a, s) in self.feasible]
        while st:
            x = st.pop()
            if x == b:
                return True
            if x in seen:
                continue
            seen.add(x)
            st.extend(s for s in self.succs[x] if (x, s) in self.feasible)
        return False

    def ret_leaves(self, limit=4096):
        """Expand the returned value along the merges that produced it: list of (term, State).  The State carries the
        environment of the last edge into the return merge (so `read` gives final values of places), the union of the
        must-facts of every edge chosen while expanding, and `sel` facts that resolve the expanded merges."""
        from .terms import rebuild
        rbs = self.return_blocks()
        if len(rbs) != 1:
            return None
        rb = rbs[0]
        st0 = State(self.exit_env[rb], self.exit_facts[rb])
        t0 = self.read(st0, (("L", 0), ()))
        out = []
        work = [(t0, None, st0.facts)]
        while work:
            if len(out) + len(work) > limit:
                return None
            t, env, facts = work.pop()
            ph = None
            for x in t.subterms():
                if x.op == "phi" and x.args[0][0] == self.fid and x in self.phi_ops:
                    blk = x.args[0][1]
                    if blk in self.loops:
                        continue
                    if all((p, blk) in self.out_states for p in self.phi_ops[x]):
                        if ph is None or self.rpo_index[blk] > self.rpo_index[ph.args[0][1]]:
                            ph = x
            if ph is None:
                out.append((t, State(env if env is not None else st0.env, facts)))
                continue
            blk = ph.args[0][1]
            for p, v in self.phi_ops[ph].items():
                est = self.out_states[(p, blk)]
                mp = {}
                for y in t.subterms():
                    if y.op == "phi" and y.args[0] == ph.args[0] and y in self.phi_ops and p in self.phi_ops[y]:
                        mp[y] = self.phi_ops[y][p]
                nf = set(facts) | set(est.facts)
                # every merge value of this block is resolved by the choice of the edge
                for y, ops in self.phi_ops.items():
                    if y.args[0] == ph.args[0] and p in ops:
                        nf.add(("sel", y, ops[p]))
                work.append((rebuild(t, mp), env if env is not None else est.env, frozenset(nf)))
        return self.expand_trees(out, limit)

    def expand_trees(self, leaves, limit=4096):
        """Split every outcome whose value or facts still contain a decision node (the inlined summary of a callee / combinator)
        into one outcome per case, adding the case's condition to the facts and dropping contradictory cases."""
        from .terms import rebuild, _skey_of
        out = []
        work = list(reversed(leaves))
        n = 0
        while work:
            item = work.pop()
            t, st, extra = item[0], item[1], tuple(item[2:])
            n += 1
            if n > limit * 4:
                return None
            facts = st.facts
            t = self.simp(t, facts)
            if t.has_tree() or any(isinstance(y, Term) and y.has_tree() for f in facts if f[0] != "sel" for y in f[1:]):
                # express every fact in the resolved merge values (`sel`), so that equal conditions are the same term
                facts = self._rewrite_facts(frozenset((f[0],) + tuple(self.simp(y, facts) if isinstance(y, Term) else y for y in f[1:]) if f[0] != "sel" else f
                                                      for f in facts), {}, force=True)
                if facts is None:
                    continue
            nodes = {}
            for x in self._tree_nodes(t, facts):
                nodes[x] = True
            if not nodes:
                # the observable state (memory reachable from the parameters) may depend on a callee's case as well
                for (root, path), val in st.env.items():
                    if root[0] == "M" and val.has_tree():
                        v2 = self.simp(val, facts)
                        if v2.has_tree():
                            for x in v2.subterms():
                                if x.op in ("mterm", "ite"):
                                    nodes[x] = True
            if not nodes:
                out.append((t, State(st.env, facts)) + extra)
                continue
            # outermost-first, deterministic: a node that is not inside another candidate's scrutinee / condition
            cand = sorted(nodes, key=lambda x: repr(_skey_of(x)))
            node = None
            for x in cand:
                if not any(y is not x and y.mentions(x) for y in cand):     # outermost: not inside another node (its arms hold only under its case)
                    node = x
                    break
            node = node or cand[0]
            cases = []
            if node.op == "mterm":
                for v, a in node.args[1]:
                    k = self.variant_known(node.args[0], v, facts)
                    if k is False:
                        continue
                    f = self.var_fact(node.args[0], v)
                    cases.append((a, None if f is True else f))
            else:
                c = node.args[0]
                tv = self.truth(facts, c)
                if tv is not False:
                    cases.append((node.args[1], ("true", c)))
                if tv is not True:
                    cases.append((node.args[2], ("false", c)))
            for arm, fact in reversed(cases):
                nf = set(facts)
                if fact is not None:
                    if fact[0] in ("true", "false"):
                        nf = set(self.assume_bool(frozenset(nf), fact[1], fact[0] == "true"))
                    else:
                        nf.add(fact)
                mp = {node: arm}
                nf2 = self._rewrite_facts(nf, mp)
                if nf2 is None:
                    continue
                work.append((rebuild(t, mp), State(st.env, nf2)) + extra)
        return out

    def _tree_nodes(self, t, facts):
        if t.has_tree():
            for x in t.subterms():
                if x.op in ("mterm", "ite"):
                    yield x
        for f in facts:
            if f[0] == "sel":
                continue
            for y in f[1:]:
                if isinstance(y, Term) and y.has_tree():
                    for x in y.subterms():
                        if x.op in ("mterm", "ite"):
                            yield x

    def _rewrite_facts(self, facts, mp, force=False):
        """facts with the sub-terms in mp replaced; var facts are re-based; None when a fact became false"""
        from .terms import rebuild
        out = set()
        for f in facts:
            if f[0] == "sel" or not (force or any(isinstance(y, Term) and y.has_tree() for y in f[1:])):
                out.add(f)
                continue
            g = (f[0],) + tuple(rebuild(y, mp) if isinstance(y, Term) else y for y in f[1:])
            if g[0] in ("var", "notvar"):
                k = self.var_fact(g[1], g[2])
                if k is True or k is False:
                    if k == (g[0] == "notvar"):
                        return None
                    continue
                g = (g[0],) + k[1:]
                # contradiction with what is already known
                if g[0] == "var":
                    for h in out | set(facts):
                        if h[0] == "var" and h[1] is g[1] and h[2] != g[2] and not h[1].has_tree():
                            return None
            elif g[0] in ("true", "false") and g[1].op == "const":
                if bool(g[1].args[1]) != (g[0] == "true"):
                    return None
                continue
            elif g[0] in ("true", "false") and g != f:
                tmp = set()
                self._assume(tmp, g[1], g[0] == "true")       # the condition is now concrete: derive what it implies (x != 0, variant facts, ...)
                out |= tmp
                continue
            out.add(g)
        # pairwise contradictions among var facts
        seen = {}
        for g in out:
            if g[0] == "var":
                if seen.setdefault(g[1], g[2]) != g[2]:
                    return None
        for g in out:
            if g[0] == "notvar" and seen.get(g[1]) == g[2]:
                return None
            if g[0] == "true" and ("false", g[1]) in out:
                return None
        return frozenset(out)

    def paths(self, limit=512):
        """Enumerate the acyclic entry-to-return paths of a loop-free body, re-running the transfer functions along each
        path without merging.  Returns a list of (returned term, final State, [CallSite,...]) or None (loops / too many)."""
        if self.loops:
            return None
        out = []
        init = self._initial_state()
        work = [(0, State(dict(init.env), init.facts), [])]
        n = 0
        self._path_blocks = set()      # every block some enumerated path enters (including paths that end in a diverging call)
        while work:
            b, st, calls = work.pop()
            n += 1
            if n > limit * 40:
                return None
            self._path_blocks.add(b)
            self._path_calls = []
            outs = self._transfer(b, st, record=False)
            calls = calls + self._path_calls
            t = self.blocks[b]["term"]
            if t["k"] == "return":
                out.append((self.read(st, (("L", 0), ())), st, calls))
                if len(out) > limit:
                    return None
                continue
            for s_, sst in outs.items():
                work.append((s_, State(dict(sst.env), sst.facts), calls))
        self._record = True
        return self.expand_trees(out, limit * 8)

    def value_at(self, st, lv):
        return self.read(st, lv)

    def state_before_term(self, b):
        return State(self.exit_env[b], self.exit_facts[b])

    def where(self, span):
        return "%s:%d:%d" % (span["file"], span["line"], span["col"])


class Program:
    """Whole-crate context: memoised per-function analyses, callee models, type hints."""

    def __init__(self, facts, dissolve=()):
        self.facts = facts
        self.dissolve = frozenset(dissolve)   # named functions this (rule-private) program nevertheless describes by cases
        self._an = {}
        self.noovf = set()   # Add terms that are cursors of successful checked reads (cannot have wrapped)
        self._hints = {}
        self._stack = []
        self.callee_table = None

    def analysis(self, fn, assume=()):
        key = (fn["id"], tuple(assume))
        if key in self._an:
            return self._an[key]
        if key in self._stack:
            return None  # recursion
        self._stack.append(key)
        try:
            an = FnAnalysis(self, fn, assume, depth=len(self._stack))
        finally:
            self._stack.pop()
        self._an[key] = an
        return an

    # ---- decision-tree summaries ---------------------------------------------------------------------------------
    def known_name(self, lf):
        """is this in-crate function part of the vocabulary the rules speak in (then it is kept as a named call)?"""
        from .vocab import is_known
        if lf["qual"] in self.dissolve:
            return False
        # the crate's public interface keeps its names too: only private helpers are dissolved into their case analysis
        return is_known(lf["qual"]) or bool(lf.get("reachable_pub")) and lf.get("kind") != "Closure"

    def closed_tree(self, lf, items=None):
        """The value a pure in-crate function returns, as a closed term over its parameters in which the function's
        branching is explicit (mterm / ite nodes over conditions that only mention the parameters); None if there is none.
        Functions the rules know by name keep their name unless the tree is a single variant-determined split (the shape of a
        combinator such as ok_or / ok / map_err written out as a match)."""
        key = ("tree", lf["id"])
        if items is None and key in self._hints:
            return self._hints[key]
        res = None
        if items is None:
            sub = self.analysis(lf)
            if sub is not None and not sub.loops:
                ps_ = sub.paths()
                if ps_ is not None and any(k[0][0] == "M" for _, st_, _ in ps_ for k in st_.env):
                    items = None      # writes through a pointer: not a pure function of its arguments (see summaries.tree_summary)
                else:
                    items = self.leaf_items(sub, lambda t, st: t)
        if items:
            res = build_tree(items)
        if res is not None and self.known_name(lf):
            simple = (res.op == "mterm" and not res.args[0].has_tree() and all(v in ("Some", "None", "Ok", "Err") for v, _ in res.args[1])
                      and all(a.op == "agg" and a.args[1] in ("option::Option", "result::Result") and not a.has_tree() for _, a in res.args[1]))
            if not simple:
                res = None
        if key[1] is not None:
            self._hints[key] = res
        return res

    def leaf_items(self, sub, value_of, limit=40):
        """[(closed value term, {atom: value})] for the outcomes of a loop-free body; None when something is not closed"""
        ps = sub.paths(limit=limit * 2) if not sub.loops else None
        leaves = [(t, st) for t, st, _ in ps] if ps is not None else sub.ret_leaves()
        if not leaves or len(leaves) > limit * 2:
            return None
        items = []
        for t, st in leaves:
            v = value_of(sub.simp(t, st.facts), st)
            if v is not None and any(x.op == "okelse" for x in v.subterms()):
                # "a if R succeeded else b" is a case split on R
                from .terms import rebuild
                for _ in range(4):
                    mp = {x: T.mterm(x.args[0], (("Ok", x.args[1]), ("Err", x.args[2]))) for x in v.subterms() if x.op == "okelse"}
                    if not mp:
                        break
                    v = rebuild(v, mp)
            if v is None or not self._closed(v) or v.op == "never":
                return None
            atoms = {}
            for f in st.facts:
                if f[0] == "var" and isinstance(f[1], Term) and self._closed(f[1]) and not f[2].startswith("!"):
                    atoms[("var", f[1])] = f[2]
                elif f[0] in ("true", "false") and self._closed(f[1]):
                    atoms[("bool", f[1])] = f[0] == "true"
            items.append((v, atoms))
        return items

    def local_fn(self, callee):
        rid = callee.get("resolved_id")
        if rid and rid in self.facts.by_id:
            return self.facts.by_id[rid]
        cid = callee.get("id")
        if callee.get("local") and callee.get("resolved") is None:
            return None  # trait method on a type parameter
        if cid in self.facts.by_id and callee.get("resolved") is not None:
            return self.facts.by_id[cid]
        return None

    def size_for_upper_bound(self, t):
        """upper bound of ParseAt::size_for over the named impl, or over all in-crate impls for a type parameter"""
        return self.size_for_lower_bound(t, upper=True)

    def size_for_lower_bound(self, t, upper=False):
        """lower bound of ParseAt::size_for over the named impl, or over all in-crate impls for a type parameter"""
        from .prover import Prover
        f = t.args[0]
        # `P::size_for(..)` whose type argument has become concrete (a generic helper instantiated with u32 / u64): that impl only
        g0 = norm(t.args[1][0]) if (t.args[1] and isinstance(t.args[1][0], str)) else None
        if not f.startswith("<") and g0 and any(fn_["qual"] == "<%s as parse::ParseAt>::size_for" % g0 for fn_ in self.facts.all_fns()):
            f = "<%s as parse::ParseAt>::size_for" % g0
        cands = []
        for fn in self.facts.all_fns():
            q = fn["qual"]
            if q.endswith(" as parse::ParseAt>::size_for"):
                if f.startswith("<") and q != f:
                    continue
                cands.append(fn)
        if not cands:
            return None
        best = None
        for fn in cands:
            an = self.analysis(fn)
            rt = an.ret_term() if an else None
            if rt is None:
                return None
            l = Prover(an).ub(rt, ()) if upper else Prover(an).lb(rt, ())
            if l is None:
                return None
            best = l if best is None else (max(best, l) if upper else min(best, l))
        return best

    # ---- callee models ------------------------------------------------------------------
    def model_call(self, an, st, site, callee, nq, dq, generics, args, arg_tys, arg_lvs, mut_idx, t):
        # 1. semantic models of a few core functions
        m = self._core_model(an, st, nq, dq, generics, args, arg_tys, callee)
        if m is not None:
            return m
        # 2. in-crate callee: inline a closed summary when there is one
        lf = self.local_fn(callee)
        if lf is not None and lf.get("kind") == "Closure" and dq in ("ops::FnOnce::call_once", "ops::Fn::call", "ops::FnMut::call_mut") \
                and len(args) == 2 and args[1].op == "agg" and args[1].args[0] == "tuple":
            # the closure body takes its arguments untupled
            n_ = len(args[1].args[4])
            args = [args[0]] + list(args[1].args[4])
            arg_lvs = [arg_lvs[0]] + [None] * n_
            arg_tys = [arg_tys[0]] + [""] * n_
            mut_idx = [i for i in mut_idx if i == 0]
        if lf is not None and not mut_idx:
            from .vocab import KEEP_CALL
            sub = self.analysis(lf) if lf["qual"] not in KEEP_CALL else None
            if sub is not None:
                rt = sub.ret_term()
                if rt is not None and self._closed(rt) and not rt.has_tree() and not self.writes_memory(lf):
                    inst = self.subst(an, st, rt, args, self.gmap(lf, callee))
                    if inst is not None:
                        return inst
                tree = self.closed_tree(lf)
                if tree is not None:
                    inst = self.subst(an, st, tree, args, self.gmap(lf, callee))
                    if inst is not None:
                        return inst
            return T.call(lf["qual"], generics, [self._stabilise(an, st, a) for a in args])
        if lf is not None and mut_idx:
            # effect summary over the Ok outcome (see summaries.py); otherwise havoc
            from .summaries import apply_effect_summary
            r = apply_effect_summary(self, an, st, site, lf, callee, generics, args, arg_lvs, mut_idx, t)
            if r is not None:
                return r
            an._havoc_mut_args(st, site, t, args, None)
            return T.fresh(site, "ret")
        # 2b. ParseAt::parse_at called on a type parameter: every in-crate impl consumes exactly size_for(class) bytes on
        #     success (rule C02 decode-size checks that per impl and class)
        if dq == "parse::ParseAt::parse_at" and callee.get("resolved") is None and mut_idx == [2]:
            off_lv = arg_lvs[2]
            off0 = an.read(st, off_lv)
            R = T.call(dq, generics, [args[0], args[1], T.refval(off0), args[3]])
            adv = T.bin("Add", off0, T.call("parse::ParseAt::size_for", generics[:1], [args[1]]), "usize")
            self.noovf.add(adv)
            an.write(st, off_lv, Term("okelse", R, adv, Term("errval", R, 2)))     # the cursor a failed parse leaves behind: some function of the call
            return R
        # 3. external or unresolved callee
        if dq in ("iter::Iterator::position", "iter::Iterator::rposition") and args and args[0].op == "ref":
            it = an.read(st, arg_lvs[0])
            if it.op == "call" and it.args[0] == "[T]::iter":
                an._havoc_mut_args(st, site, t, args, None)
                return T.call("slice::" + dq.split("::")[-1], (), [it.args[2][0], args[1]])
        if dq in ("iter::Iterator::find", "iter::Iterator::find_map", "iter::Iterator::any", "iter::Iterator::all",
                  "iter::Iterator::rfind", "iter::DoubleEndedIterator::rfind", "iter::Iterator::last", "iter::Iterator::nth",
                  "iter::Iterator::count", "iter::Iterator::max_by_key", "iter::Iterator::min_by_key") and args and mut_idx == [0]:
            # a search over an iterator whose state is a known value: pure function of (iterator state, closure)
            it = an.read(st, arg_lvs[0]) if args[0].op == "ref" else None
            if it is not None and self._closed_or_symbolic(it):
                an._havoc_mut_args(st, site, t, args, None)
                return T.call("iter::" + dq.split("::")[-1], (), [it] + [self._stabilise(an, st, a) for a in args[1:]])
        if dq == "iter::Iterator::next" and mut_idx == [0] and args[0].op == "ref":
            # `for (i, x) in s.iter().enumerate()`: the items of a known slice, so that i < s.len() is available
            org = iter_origin(an, an.read(st, arg_lvs[0]))
            if org is not None:
                an.write(st, arg_lvs[0], Term("iterstate", org, site))
                r = Term("iternext", org, site)
                an.hint(r, "option::Option")
                return r
        if dq == "iter::Extend::extend" and mut_idx == [0] and args[0].op == "ref" and len(args) == 2:
            # `let mut v = Vec::new() / with_capacity(n); v.extend(it)` builds the same value as `it.collect()`
            cur = an.read(st, arg_lvs[0])
            if cur.op == "call" and cur.args[0] in ("vec::Vec::new", "vec::Vec::with_capacity") and self._closed_or_symbolic(args[1]):
                an.write(st, arg_lvs[0], T.call("iter::Iterator::collect", (), [self._stabilise(an, st, args[1])]))
                return T.call(dq, generics, [T.refval(cur), self._stabilise(an, st, args[1])])
        if dq == "[T]::copy_from_slice" and len(args) == 2 and mut_idx == [0]:
            # dst.copy_from_slice(src) (it returned, so the lengths agree): the destination now holds the bytes of src.  When the
            # destination is a whole local array seen through an unsizing borrow, the local's value is that view of the source
            d0 = args[0]
            if d0.op == "unsize" and d0.args[0].op == "ref" and not d0.args[0].args[1]:
                lv = (d0.args[0].args[0], d0.args[0].args[1])
                src = args[1]
                src = src.args[0] if src.op == "refval" else T.deref(src)
                if self._closed_or_symbolic(src):
                    an.write(st, lv, src)
                    return T.agg("tuple", None, 0, None, [])
        if mut_idx:
            an._havoc_mut_args(st, site, t, args, None)
            return T.fresh(site, "ret")
        return T.call(dq, generics, [self._stabilise(an, st, a) for a in args])

    def _stabilise(self, an, st, a):
        """a reference to a mutable local is replaced by a reference to its current value"""
        if a.op == "ref":
            return T.refval(an.read(st, (a.args[0], a.args[1])))
        if a.op == "agg" and any(f.op == "ref" for f in a.args[4]):
            return T.agg(a.args[0], a.args[1], a.args[2], a.args[3], [self._stabilise(an, st, f) for f in a.args[4]])
        return a

    def _closed_or_symbolic(self, t):
        for s in t.subterms():
            if s.op in ("undef", "okelse"):
                return False
        return True

    def _closed(self, t):
        for s in t.subterms():
            if s.op in ("fresh", "phi", "undef", "okelse", "opaque"):
                return False
            if s.op == "ref" and s.args[0][0] == "L":
                return False
        return True

    def gmap(self, lf, callee):
        """values of the callee's const generic parameters at this call"""
        names, vals = lf.get("generic_params") or [], callee.get("resolved_generics") or callee.get("generics") or []
        out = {}
        if len(names) == len(vals):
            for n, v in zip(names, vals):
                if v.lstrip("-").isdigit():
                    out[n] = int(v)
                elif not n.startswith("'") and n != v:
                    out.setdefault("#types", {})[n] = norm(v)     # type parameter -> actual type (for generic-argument lists of calls)
        return out

    def subst(self, an, st, t, args, gmap=None):
        memo = {}

        def go(x):
            if not isinstance(x, Term):
                if isinstance(x, tuple):
                    return tuple(go(y) for y in x)
                return x
            r = memo.get(x)
            if r is not None:
                return r
            op, a = x.op, x.args
            if op == "param":
                r = args[a[0] - 1] if a[0] - 1 < len(args) else None
                if r is None:
                    raise KeyError
            elif op in ("const", "bytes", "zst", "fnptr"):
                r = x
            elif op == "cparam":
                r = T.const(a[1], gmap[a[0]]) if gmap and a[0] in gmap else x
            elif op == "deref":
                p = go(a[0])
                if p.op == "ref":
                    r = an.read(st, (p.args[0], p.args[1]))
                else:
                    r = T.deref(p)
            elif op == "proj":
                r = T.proj(go(a[0]), go(a[1]))
            elif op == "payload":
                r = T.payload(go(a[0]), a[1])
            elif op == "agg":
                r = T.agg(a[0], a[1], a[2], a[3], [go(f) for f in a[4]])
            elif op == "call":
                cargs = [self._stabilise(an, st, go(y)) for y in a[2]]
                r = None
                if gmap and gmap.get("#types") and a[1]:
                    import re as _re
                    tm = gmap["#types"]
                    rx = _re.compile(r"\b(%s)\b" % "|".join(_re.escape(k) for k in tm))
                    a = (a[0], tuple(rx.sub(lambda m: tm[m.group(1)], g) if isinstance(g, str) else g for g in a[1]), a[2])
                # a function-valued parameter has become known: apply it now
                if a[0] in ("mem::size_of", "mem::align_of") and not cargs:
                    r = self.size_of_const(a[0], a[1])
                elif a[0] in ("ops::FnOnce::call_once", "ops::Fn::call", "ops::FnMut::call_mut") and len(cargs) == 2:
                    f = cargs[0].args[0] if cargs[0].op == "refval" else cargs[0]
                    if f.op in ("agg", "fnptr", "zst") and cargs[1].op == "agg" and cargs[1].args[0] == "tuple":
                        r = self.apply_fn(an, st, f, list(cargs[1].args[4]))
                elif (a[0].startswith("option::Option::") or a[0].startswith("result::Result::")) and any(x.op in ("agg", "fnptr") for x in cargs[1:]):
                    r = self._combinator(an, st, a[0], cargs)
                elif a[0] in ("convert::Into::into", "convert::From::from") and len(a[1]) >= 2 and a[1][0] in INT_BITS and a[1][1] in INT_BITS and len(cargs) == 1:
                    # the conversion's types have become concrete integers: it is the widening cast (or the identity)
                    to, frm = (a[1][0], a[1][1]) if a[0].endswith("from") else (a[1][1], a[1][0])
                    r = cargs[0] if to == frm else T.cast("IntToInt", cargs[0], frm, to)
                elif a[1] and isinstance(a[1][0], str):
                    # a method of an in-crate trait called on `Self` / a type parameter that is now a concrete type: use that type's impl
                    imp = self.trait_impl(a[0], a[1][0])
                    if imp is not None and not any("&mut" in x for x in (imp.get("sig") or {}).get("inputs", [])):
                        r = self._apply_local(an, st, imp, cargs)
                if r is None:
                    r = T.call(a[0], a[1], cargs)
            elif op == "discr":
                r = T.discr(go(a[0]))
            elif op == "len":
                r = T.length(go(a[0]))
            elif op == "cast":
                r = T.cast(a[0], go(a[1]), a[2], a[3])
            elif op == "un":
                r = T.un(a[0], go(a[1]), a[2])
            elif op == "bin":
                r = T.bin(a[0], go(a[1]), go(a[2]), a[3])
            elif op == "refval":
                r = T.refval(go(a[0]))
            elif op == "mterm":
                r = T.mterm(go(a[0]), tuple((v, go(y)) for v, y in a[1]))
            elif op == "ite":
                r = T.ite(go(a[0]), go(a[1]), go(a[2]))
            elif op == "unsize":
                r = Term("unsize", go(a[0]), a[1])
            elif op == "residual":
                r = Term("residual", go(a[0]))
            elif op == "ref":
                # reference into memory reachable from a parameter
                root, path = a
                if root[0] == "M":
                    p = go(root[1])
                    path2 = go(path)
                    if p.op == "ref":
                        r = T.ref(p.args[0], p.args[1] + path2)
                    else:
                        r = T.ref(("M", p), path2)
                else:
                    raise KeyError
            elif op == "classsel":
                c_ = go(a[0])
                if c_.op == "agg" and c_.args[3] in ("ELF32", "ELF64"):
                    r = go(a[1] if c_.args[3] == "ELF32" else a[2])      # the class has become known: that arm
                else:
                    r = Term("classsel", c_, go(a[1]), go(a[2]))
            else:
                r = Term(op, *[go(y) for y in a])
            memo[x] = r
            return r

        try:
            return go(t)
        except KeyError:
            return None

    def size_of_const(self, name, generics):
        """mem::size_of::<T>() / align_of for a fixed-width integer or one of the crate's repr(C) structs of such integers: the layout
        the compiler computed (target independent for these types; C19 checks the repr(C) structs field by field)"""
        if not generics or not isinstance(generics[0], str):
            return None
        ty = norm(generics[0])
        key = "size" if name.endswith("size_of") else "align"
        fixed = {"u8": 1, "i8": 1, "u16": 2, "i16": 2, "u32": 4, "i32": 4, "u64": 8, "i64": 8, "u128": 16, "i128": 16}
        if ty in fixed and key == "size":
            return T.const("usize", fixed[ty])
        adt = self.facts.adts.get(ty)
        if adt is not None and adt.get("repr_c") and adt.get("layout") and adt["kind"] == "Struct" \
                and all(fd["ty"] in fixed for fd in adt["variants"][0]["fields"]):
            return T.const("usize", adt["layout"][key])
        return None

    def _core_model(self, an, st, nq, dq, generics, args, arg_tys, callee):
        name = dq
        if name in ("iter::ExactSizeIterator::len", "iter::Iterator::count") and len(args) == 1:
            # the number of whole chunks of size n in a slice is len / n
            it = self._val(an, st, args[0])
            if it.op == "call" and it.args[0] in ("[T]::chunks_exact", "[T]::rchunks_exact") and len(it.args[2]) == 2:
                return T.bin("Div", T.length(it.args[2][0]), it.args[2][1], "usize")
        import re as _re
        m_ = _re.match(r"^(u8|u16|u32|u64|u128|usize)::checked_(rem|div)$", name)
        if m_ and len(args) == 2:
            # None exactly for a zero divisor (unsigned: no other failure)
            ty_ = m_.group(1)
            v_ = T.bin("Rem" if m_.group(2) == "rem" else "Div", args[0], args[1], ty_)
            return T.ite(T.bin("Eq", args[1], T.const(ty_, 0), ty_), T.agg("adt", "option::Option", 0, "None", []),
                         T.agg("adt", "option::Option", 1, "Some", [v_]))
        m3_ = _re.match(r"^(u8|u16|u32|u64|u128|usize)::checked_sub$", name)
        if m3_ and len(args) == 2:
            # Some(a - b) exactly when b <= a (unsigned)
            ty_ = m3_.group(1)
            return T.ite(T.bin("Lt", args[0], args[1], ty_), T.agg("adt", "option::Option", 0, "None", []),
                         T.agg("adt", "option::Option", 1, "Some", [T.bin("Sub", args[0], args[1], ty_)]))
        m2_ = _re.match(r"^(u8|u16|u32|u64|u128|usize)::checked_shl$", name)
        if m2_ and len(args) == 2:
            # Some(x << n) exactly when n is below the bit width
            ty_ = m2_.group(1)
            return T.ite(T.bin("Lt", args[1], T.const("u32", INT_BITS[ty_]), "u32"),
                         T.agg("adt", "option::Option", 1, "Some", [T.bin("Shl", args[0], args[1], ty_)]), T.agg("adt", "option::Option", 0, "None", []))
        if name in ("mem::size_of", "mem::align_of") and not args:
            c_ = self.size_of_const(name, generics)
            if c_ is not None:
                return c_
        if name == "[T]::len" or nq == "[T]::len":
            return T.length(args[0])
        if name == "[T]::is_empty":
            return T.bin("Eq", T.length(args[0]), T.const("usize", 0), "usize")
        if name in ("cmp::PartialEq::eq", "cmp::PartialEq::ne") and callee.get("resolved") and callee.get("resolved_crate") != self.facts["crate"]:
            # external impl (core): value equality of the pointees
            a = self._val(an, st, args[0])
            b = self._val(an, st, args[1])
            e = T.bin("Eq", a, b, generics[0] if generics else "?")
            return e if name.endswith("eq") else T.un("Not", e, "bool")
        if name in ("option::Option::is_some", "option::Option::is_none", "result::Result::is_ok", "result::Result::is_err"):
            # a test of the discriminant: lets later branches know the variant
            x = self._val(an, st, args[0])
            an.hint(x, name.rsplit("::", 1)[0])
            k = {"is_some": 1, "is_none": 0, "is_ok": 0, "is_err": 1}[name.rsplit("::", 1)[1]]
            return T.bin("Eq", T.discr(x), T.const("isize", k), "isize")
        comb = self._combinator(an, st, name, args)
        if comb is not None:
            return comb
        if name in ("bool::then_some", "bool::then") and len(args) == 2:
            eff_ = []
            v = args[1] if name.endswith("then_some") else self.apply_fn(an, st, args[1], [], eff_)
            if v is not None:
                for lv, nv in eff_:
                    an.write(st, lv, T.ite(args[0], nv, an.read(st, lv)))     # the closure runs only when the condition holds
                return T.ite(args[0], T.agg("adt", "option::Option", 1, "Some", [v]), T.agg("adt", "option::Option", 0, "None", []))
        if name in ("ops::FnOnce::call_once", "ops::Fn::call", "ops::FnMut::call_mut") and len(args) == 2:
            # a direct call of a closure value / function item: apply it (the argument is the tuple of actual arguments)
            f = args[0]
            if f.op == "ref":
                f = an.read(st, (f.args[0], f.args[1]))
            elif f.op == "refval":
                f = f.args[0]
            tup = args[1]
            if tup.op == "agg" and tup.args[0] == "tuple":
                v = self.apply_fn(an, st, f, list(tup.args[4]))
                if v is not None:
                    return v
        if name == "mem::size_of" and generics:
            sz = {"u8": 1, "i8": 1, "u16": 2, "i16": 2, "u32": 4, "i32": 4, "u64": 8, "i64": 8, "u128": 16, "i128": 16}.get(generics[0])
            if sz is not None:
                return T.const("usize", sz)
        if name == "ops::FromResidual::from_residual":
            x = args[0]
            if x.op == "residual":
                inner = x.args[0]
                g0 = generics[0] if generics else ""
                if g0.startswith("result::Result"):
                    return T.agg("adt", "result::Result", 1, "Err", [self.convert_err(an, st, callee, T.payload(inner, "Err"))])
                if g0.startswith("option::Option"):
                    return T.agg("adt", "option::Option", 0, "None", [])
        if name == "clone::Clone::clone" and (nq.startswith("clone::impls::") or nq.startswith("<ops::Range") or nq.startswith("<option::Option")
                                               or nq.startswith("<result::Result") or nq.startswith("<(")):
            return self._val(an, st, args[0])     # structural copy: the clone is the same value
        if name in ("convert::Into::into", "convert::From::from") and generics and len(generics) >= 2 and generics[0] == generics[1]:
            return args[0]
        if name in ("convert::Into::into", "convert::From::from") and len(generics) >= 2 and generics[0] in INT_BITS and generics[1] in INT_BITS:
            # lossless integer conversion (From is only implemented for widening conversions)
            to, frm = (generics[0], generics[1]) if name.endswith("from") else (generics[1], generics[0])
            return T.cast("IntToInt", args[0], frm, to)
        if name == "iter::IntoIterator::into_iter" and nq == "<I as iter::IntoIterator>::into_iter":
            return args[0]          # blanket impl for iterators: identity
        if name == "ops::Deref::deref" and nq.startswith("<&"):
            return self._val(an, st, args[0])
        return None

    # ---- Option / Result combinators by their defining match (closures and function pointers are applied symbolically) ----
    def _combinator(self, an, st, name, args):
        SOME = lambda v: T.agg("adt", "option::Option", 1, "Some", [v])
        NONE = T.agg("adt", "option::Option", 0, "None", [])
        OK = lambda v: T.agg("adt", "result::Result", 0, "Ok", [v])
        ERR = lambda v: T.agg("adt", "result::Result", 1, "Err", [v])
        if not (name.startswith("option::Option::") or name.startswith("result::Result::")) or not args:
            return None
        m = name.rsplit("::", 1)[1]
        X = args[0]
        if X.op in ("ref", "refval"):
            return None
        opt = name.startswith("option::")
        good, bad = ("Some", "None") if opt else ("Ok", "Err")
        pg = T.payload(X, good)
        eff = []
        ran = {}       # which arm ran a function with effects

        def ap(f, a, arm=None):
            n0 = len(eff)
            v_ = self.apply_fn(an, st, f, a, eff)
            if len(eff) > n0:
                ran[arm] = True
            return v_
        if opt:
            pb = None
            keep_bad = NONE
        else:
            pb = T.payload(X, "Err")
            keep_bad = ERR(pb)
        wrap_good = SOME if opt else OK
        r = None
        if m == "ok" and not opt and len(args) == 1:
            r = ((good, SOME(pg)), (bad, NONE))
        elif m == "err" and not opt and len(args) == 1:
            r = ((good, NONE), (bad, SOME(pb)))
        elif m == "map" and len(args) == 2:
            v = ap(args[1], [pg], good)
            if v is not None:
                r = ((good, wrap_good(v)), (bad, keep_bad))
        elif m == "and_then" and len(args) == 2:
            v = ap(args[1], [pg], good)
            if v is not None:
                r = ((good, v), (bad, keep_bad))
        elif m == "map_err" and not opt and len(args) == 2:
            v = ap(args[1], [pb], bad)
            if v is not None:
                r = ((good, OK(pg)), (bad, ERR(v)))
        elif m == "or_else" and len(args) == 2:
            v = ap(args[1], [] if opt else [pb], bad)
            if v is not None:
                r = ((good, wrap_good(pg)), (bad, v))
        elif m == "map_or_else" and len(args) == 3:
            d, v = ap(args[1], [] if opt else [pb]), ap(args[2], [pg])
            if d is not None and v is not None:
                r = ((good, v), (bad, d))
        elif m == "map_or" and len(args) == 3:
            v = ap(args[2], [pg])
            if v is not None:
                r = ((good, v), (bad, args[1]))
        elif m == "unwrap_or" and len(args) == 2:
            r = ((good, pg), (bad, args[1]))
        elif m == "unwrap_or_else" and len(args) == 2:
            d = ap(args[1], [] if opt else [pb], bad)
            if d is not None:
                r = ((good, pg), (bad, d))
        elif m == "filter" and opt and len(args) == 2:
            c = ap(args[1], [T.refval(pg)], good)
            if c is not None:
                r = ((good, T.ite(c, SOME(pg), NONE)), (bad, NONE))
        elif m == "flatten" and opt and len(args) == 1:
            r = ((good, pg), (bad, NONE))
        elif m in ("is_some_and", "is_ok_and") and len(args) == 2:
            c = ap(args[1], [pg], good)
            if c is not None:
                r = ((good, c), (bad, T.const("bool", 0)))
        elif m == "is_none_or" and opt and len(args) == 2:
            c = ap(args[1], [pg], good)
            if c is not None:
                r = ((good, c), (bad, T.const("bool", 1)))
        elif m == "transpose" and len(args) == 1:
            if opt:     # Option<Result<T, E>> -> Result<Option<T>, E>
                r = ((good, T.mterm(pg, (("Ok", OK(SOME(T.payload(pg, "Ok")))), ("Err", ERR(T.payload(pg, "Err")))))), (bad, OK(NONE)))
                an.hint(pg, "result::Result")
            else:       # Result<Option<T>, E> -> Option<Result<T, E>>
                r = ((good, T.mterm(pg, (("Some", SOME(OK(T.payload(pg, "Some")))), ("None", NONE)))), (bad, SOME(ERR(pb))))
                an.hint(pg, "option::Option")
        elif m == "zip" and opt and len(args) == 2 and args[1].op not in ("ref", "refval"):
            Y = args[1]
            r = ((good, T.mterm(Y, (("Some", SOME(T.agg("tuple", None, 0, None, [pg, T.payload(Y, "Some")]))), ("None", NONE)))), (bad, NONE))
        elif m == "and" and len(args) == 2:
            r = ((good, args[1]), (bad, keep_bad))
        elif m == "or" and len(args) == 2:
            r = ((good, wrap_good(pg)), (bad, args[1]))
        elif m == "unwrap_or_default" and len(args) == 1:
            return None
        elif m == "ok_or_else" and opt and len(args) == 2:
            # with a closure that only builds the error value, ok_or_else(f) is ok_or(f()): the rules speak of ok_or
            v = ap(args[1], [], bad)
            if v is not None and not eff:
                an.hint(X, "option::Option")
                return T.call("option::Option::ok_or", (), [X, v])
            return None
        if r is None:
            return None
        if eff:
            # the function ran only in one arm: its writes happen only there
            if None in ran or len(ran) != 1:
                return None
            arm = next(iter(ran))
            other = bad if arm == good else good
            for lv, nv in eff:
                an.write(st, lv, T.mterm(X, ((arm, nv), (other, an.read(st, lv)))))
        an.hint(X, "option::Option" if opt else "result::Result")
        return T.mterm(X, r)

    def apply_fn(self, an, st, f, argvals, effects=None):
        """the value of f(argvals) for a closure value or function pointer f; None when it cannot be described by a term.
        Memory effects of f are applied to st, or - when `effects` is a list - appended to it as (lvalue, new value) for the caller to
        apply under the condition under which f runs."""
        F = self.facts
        if f.op == "agg" and f.args[0] == "closure":
            lf = F.fn(f.args[1]) if isinstance(f.args[1], str) else None
            if lf is None:
                return None
            ins = lf.get("sig", {}).get("inputs", []) if lf.get("sig") else []
            body = lf["body"]
            env_ty = norm(body["locals"][1]["ty"]) if len(body["locals"]) > 1 else ""
            if "&mut" in env_ty:
                return None
            env = T.refval(f) if env_ty.startswith("&") else f
            return self._apply_local(an, st, lf, [env] + list(argvals), effects)
        if f.op == "fnptr" or f.op == "zst":
            q = norm(f.args[0]) if isinstance(f.args[0], str) else None
            if q is None:
                return None
            q = q[len("fn item "):] if q.startswith("fn item ") else q
            lf = F.fn(q)
            if lf is not None:
                if any("&mut" in x for x in lf.get("sig", {}).get("inputs", [])):
                    return None
                return self._apply_local(an, st, lf, list(argvals), effects)
            # `Some` / `Ok` / `Err` used as functions (`.map(Some)`)
            core_ctor = {"option::Option::Some": ("option::Option", 1, "Some"), "result::Result::Ok": ("result::Result", 0, "Ok"),
                         "result::Result::Err": ("result::Result", 1, "Err")}
            for k_, (own_, i_, vn_) in core_ctor.items():
                if q in (k_, k_ + "::" + vn_) and len(argvals) == 1:
                    return T.agg("adt", own_, i_, vn_, list(argvals))
            # tuple-variant / tuple-struct constructor used as a function
            owner, _, vn = q.rpartition("::")
            if F.adts.get(owner) is None and owner.endswith("::" + vn):
                owner = owner[: -len("::" + vn)]      # the constructor's own path repeats the variant name
            ad = F.adts.get(owner)
            if ad is not None:
                for i, v in enumerate(ad["variants"]):
                    if v["name"] == vn and len(v["fields"]) == len(argvals):
                        return T.agg("adt", owner, i, vn, list(argvals))
            import re as _re
            m_ = _re.match(r"^<(\w+) as (?:std::|core::)?convert::From<(\w+)>>::from$", q)
            if m_ and m_.group(1) in INT_BITS and m_.group(2) in INT_BITS and len(argvals) == 1:
                # `u64::from` used as a function value: the lossless widening conversion
                return argvals[0] if m_.group(1) == m_.group(2) else T.cast("IntToInt", argvals[0], m_.group(2), m_.group(1))
            if q.startswith("<") or "{" in q:
                return None
            comb = self._combinator(an, st, q, list(argvals)) if argvals else None
            if comb is not None:
                return comb
            return T.call(q, (), [self._stabilise(an, st, a) for a in argvals])
        return None

    def writes_memory(self, lf):
        """does the function write through a pointer (a `&mut` it holds, e.g. a closure's captured `&mut x`)?"""
        key = ("writes", lf["id"])
        if key not in self._hints:
            sub = self.analysis(lf)
            w = True
            if sub is not None:
                w = any(k[0][0] == "M" for env in sub.exit_env.values() for k in env)
            self._hints[key] = w
        return self._hints[key]

    def _apply_local(self, an, st, lf, args, effects=None):
        if an.depth > 6:
            return None
        sub = self.analysis(lf)
        if sub is None:
            return None
        rt = sub.ret_term()
        if rt is not None and self._closed(rt) and not self.writes_memory(lf):
            inst = self.subst(an, st, rt, args)
            if inst is not None:
                return inst
        tree = self.closed_tree(lf)
        if tree is not None:
            inst = self.subst(an, st, tree, args)
            if inst is not None:
                return inst
        if self.known_name(lf) and not any("&mut" in x for x in (lf.get("sig") or {}).get("inputs", [])):
            return T.call(lf["qual"], (), [self._stabilise(an, st, a) for a in args])    # a function the rules know by name
        if not self.known_name(lf):
            # a closure / helper that writes through references it holds (e.g. a captured `&mut offset`): apply its effects as well
            from .summaries import tree_summary
            ts = tree_summary(self, lf, [])
            if ts is not None:
                tree, extra = ts
                cargs = [self._stabilise(an, st, a) for a in args]
                inst = self.subst(an, st, tree, cargs)
                targets = []
                okx = inst is not None
                for (root, path) in extra:
                    ptr = self.subst(an, st, root[1], list(args)) if okx else None
                    if ptr is None or ptr.op == "refval":
                        okx = False
                        break
                    targets.append((ptr.args[0], tuple(ptr.args[1]) + tuple(path)) if ptr.op == "ref" else (("M", ptr), tuple(path)))
                if okx:
                    for k, lv in enumerate(targets):
                        nv = T.proj(inst, ("f", 1 + k, None))
                        for x in nv.subterms():
                            if x.op == "bin" and x.args[0] == "Add":
                                self.noovf.add(x)
                        if effects is None:
                            an.write(st, lv, nv)
                        else:
                            effects.append((lv, nv))
                    return T.proj(inst, ("f", 0, None))
        return None

    def convert_err(self, an, st, callee, e):
        """the error value `?` returns: From::from(e) - the identity when source and target type agree, the body of the
        in-crate From impl when there is one (so `?`, `map_err(Target::from)` and a spelled-out `Err(Target::Variant(e))` agree)"""
        rg = [norm(x) for x in (callee.get("resolved_generics") or [])]
        if len(rg) == 3:
            src, dst = rg[1], rg[2]
            if src == dst:
                return e
            lf = self.from_impl(dst, src)
            if lf is not None:
                sub = self.analysis(lf)
                rt = sub.ret_term() if sub is not None else None
                if rt is not None and self._closed(rt):
                    inst = self.subst(an, st, rt, [e])
                    if inst is not None:
                        return inst
        return T.call("convert::From::from", (), [e])

    def trait_impl(self, method_qual, self_ty):
        """the in-crate fn `<self_ty as Trait>::m` for the trait-method name `path::Trait::m`; None if there is none / it is named by the rules"""
        idx = self._hints.get("trait_impls")
        if idx is None:
            idx = {}
            import re as _re
            for fn in self.facts.all_fns():
                m = _re.match(r"^<(.+) as ([^<>]+)>::(\w+)$", norm(fn["qual"]))
                if m:
                    idx[(m.group(2) + "::" + m.group(3), _re.sub(r"<.*$", "", m.group(1)))] = fn
            self._hints["trait_impls"] = idx
        import re as _re
        imp = idx.get((method_qual, _re.sub(r"<.*$", "", norm(self_ty))))
        if imp is None:
            return None
        if self.known_name(imp):
            return None       # a named method keeps its name (the rules' expected forms are written with it)
        return imp

    def from_impl(self, dst, src):
        idx = self._hints.get("from_impls")
        if idx is None:
            idx = {}
            import re as _re
            for fn in self.facts.all_fns():
                m = _re.match(r"^<(.+) as convert::From<(.+)>>::from$", norm(fn["qual"]))
                if m:
                    idx[(m.group(1), m.group(2))] = fn
            self._hints["from_impls"] = idx
        return idx.get((dst, src))

    def _val(self, an, st, p):
        if p.op == "ref":
            return an.read(st, (p.args[0], p.args[1]))
        return T.deref(p)


def iter_origin(an, t, depth=0):
    """enumerate(iter(S)) when t is (a later state of) that iterator"""
    if depth > 4:
        return None
    if t.op == "call" and t.args[0] == "iter::Iterator::enumerate" and t.args[2] and t.args[2][0].op == "call" and t.args[2][0].args[0] == "[T]::iter":
        return t
    if t.op == "iterstate":
        return t.args[0]
    if t.op == "phi" and t in an.phi_ops:
        os_ = {iter_origin(an, v, depth + 1) for v in an.phi_ops[t].values()}
        if len(os_) == 1:
            return next(iter(os_))
    return None


def build_tree(items):
    """items: [(term, {atom: value})] -> decision tree term, or None when the outcomes are not separated by total atoms"""
    from .terms import _skey_of
    ts = []
    for t, _ in items:
        if t not in ts:
            ts.append(t)
    if len(ts) == 1:
        return ts[0]
    common = None
    for _, a in items:
        common = set(a) if common is None else common & set(a)
    cands = sorted((k for k in (common or ()) if len({a[k] for _, a in items}) > 1), key=lambda k: (k[0] != "var", repr(_skey_of(k[1]))))
    for k in cands:
        groups = {}
        for it in items:
            groups.setdefault(it[1][k], []).append(it)
        subs = {}
        ok = True
        for val, grp in groups.items():
            sub = build_tree(grp)
            if sub is None:
                ok = False
                break
            subs[val] = sub
        if not ok:
            continue
        if k[0] == "var":
            return T.mterm(k[1], tuple(subs.items()))
        return T.ite(k[1], subs.get(True), subs.get(False))
    return None


_PROGS = {}


def program(facts):
    p = _PROGS.get(id(facts))
    if p is None:
        p = Program(facts)
        _PROGS[id(facts)] = p
    return p


def analyze_fn(facts, fn, assume=()):
    return program(facts).analysis(fn, assume)


def dump(an, verbose=False):
    out = []
    out.append("== %s  (rounds=%d)" % (an.fn["qual"], getattr(an, "rounds", 0)))
    for b in an.rpo:
        if b not in an.entry:
            continue
        st = an.entry[b]
        out.append(" bb%d  facts: %s" % (b, "; ".join(sorted(_ppfact(f) for f in st.facts))))
        if b in an.calls_by_block:
            c = an.calls_by_block[b]
            out.append("    call %s(%s) -> %s" % (c.callee_norm, ", ".join(pp(a) for a in c.args), pp(c.result)))
        for a in an.asserts:
            if a["block"] == b:
                out.append("    assert %s cond=%s ops=%s" % (a["kind"], pp(a["cond"]), [pp(o) for o in a["ops"]]))
        if b in an.switches:
            out.append("    switch %s" % pp(an.switches[b]))
    rt = an.ret_term()
    out.append(" ret: %s" % (pp(rt) if rt is not None else None))
    if an.unsupported:
        out.append(" unsupported: %s" % an.unsupported)
    return "\n".join(out)


def _ppfact(f):
    return "%s(%s)" % (f[0], ", ".join(pp(x) if isinstance(x, Term) else str(x) for x in f[1:]))


if __name__ == "__main__":
    import sys
    from .facts import Facts
    F = Facts(sys.argv[1])
    for q in sys.argv[2:]:
        for fn in F.all_fns():
            if q in fn["qual"]:
                print(dump(analyze_fn(F, fn)))
                print()
