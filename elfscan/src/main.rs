//! elfscan: rustc_private driver that exports the type-checked program of one crate
//! (MIR bodies with resolved callees, constant values, layouts, impl tables, HIR match
//! tables) as one JSON fact base.  It does no judging; the rules live in /verif/analyzer.
//!
//! Usage (as cargo wrapper):
//!   ELFSCAN_OUT=<file> ELFSCAN_CRATE=elf RUSTC_WORKSPACE_WRAPPER=<this> cargo +nightly check
#![feature(rustc_private)]

extern crate rustc_abi;
extern crate rustc_ast;
extern crate rustc_driver;
extern crate rustc_hir;
extern crate rustc_interface;
extern crate rustc_lint;
extern crate rustc_middle;
extern crate rustc_session;
extern crate rustc_span;

mod json;
use json::J;

use rustc_driver::Compilation;
use rustc_hir::def::{DefKind, Res};
use rustc_hir::def_id::{DefId, LocalDefId, LOCAL_CRATE};
use rustc_middle::mir::{
    self, AggregateKind, BinOp, Body, BorrowKind, CastKind, Const as MirConst, Operand, Place,
    PlaceElem, Rvalue, StatementKind, TerminatorKind, UnOp,
};
use rustc_middle::ty::print::PrintTraitRefExt;
use rustc_middle::ty::{self, Instance, Ty, TyCtxt, TypingEnv};
use rustc_span::Span;

struct Cb;

impl rustc_driver::Callbacks for Cb {
    fn after_analysis<'tcx>(
        &mut self,
        _c: &rustc_interface::interface::Compiler,
        tcx: TyCtxt<'tcx>,
    ) -> Compilation {
        let want = std::env::var("ELFSCAN_CRATE").unwrap_or_else(|_| "elf".to_string());
        let out = match std::env::var("ELFSCAN_OUT") {
            Ok(o) => o,
            Err(_) => return Compilation::Continue,
        };
        let name = tcx.crate_name(LOCAL_CRATE).to_string();
        if name != want {
            return Compilation::Continue;
        }
        // only the lib target (not test harness builds)
        if tcx.sess.opts.test {
            return Compilation::Continue;
        }
        let facts = scan(tcx, &name);
        let mut s = String::new();
        facts.write(&mut s);
        s.push('\n');
        // one write per process
        std::fs::write(&out, s).expect("elfscan: cannot write fact file");
        Compilation::Continue
    }
}

fn main() {
    let mut args: Vec<String> = std::env::args().collect();
    // RUSTC_WORKSPACE_WRAPPER mode: argv[1] is the path of the real rustc
    if args.len() > 1 && !args[1].starts_with('-') && !args[1].ends_with(".rs") {
        args.remove(1);
    }
    rustc_driver::run_compiler(&args, &mut Cb);
}

// ---------------------------------------------------------------------------------------

fn span_json(tcx: TyCtxt<'_>, span: Span) -> J {
    let sm = tcx.sess.source_map();
    // location of the outermost call site (what the user wrote)
    let root = span.source_callsite();
    let lo = sm.lookup_char_pos(root.lo());
    let hi = sm.lookup_char_pos(root.hi());
    let file = format!("{}", lo.file.name.prefer_local_unconditionally());
    let expn = if span.from_expansion() {
        let d = span.ctxt().outer_expn_data();
        match d.kind {
            rustc_span::ExpnKind::Macro(_, name) => J::s(format!("macro:{}", name)),
            rustc_span::ExpnKind::Desugaring(k) => J::s(format!("desugar:{:?}", k)),
            rustc_span::ExpnKind::AstPass(k) => J::s(format!("astpass:{:?}", k)),
            rustc_span::ExpnKind::Root => J::Null,
        }
    } else {
        J::Null
    };
    // inner position (inside the macro definition) when expanded
    let inner = if span.from_expansion() {
        let ilo = sm.lookup_char_pos(span.lo());
        J::s(format!(
            "{}:{}:{}",
            ilo.file.name.prefer_local_unconditionally(),
            ilo.line,
            ilo.col.0 + 1
        ))
    } else {
        J::Null
    };
    J::obj(vec![
        ("file", J::s(file)),
        ("line", J::Int(lo.line as i128)),
        ("col", J::Int(lo.col.0 as i128 + 1)),
        ("end_line", J::Int(hi.line as i128)),
        ("end_col", J::Int(hi.col.0 as i128 + 1)),
        ("expn", expn),
        ("inner", inner),
    ])
}

fn ty_str(ty: Ty<'_>) -> String {
    ty::print::with_no_trimmed_paths!(ty.to_string())
}

fn def_str(tcx: TyCtxt<'_>, did: DefId) -> String {
    ty::print::with_no_trimmed_paths!(tcx.def_path_str(did))
}

fn def_id_str(tcx: TyCtxt<'_>, did: DefId) -> String {
    format!(
        "{}{}",
        tcx.crate_name(did.krate),
        tcx.def_path(did).to_string_no_crate_verbose()
    )
}

/// qualified, generics-free, stable name of a function-like item
fn qual_name(tcx: TyCtxt<'_>, did: DefId) -> String {
    let kind = tcx.def_kind(did);
    match kind {
        DefKind::Closure | DefKind::InlineConst | DefKind::AnonConst => {
            let parent = tcx.parent(did);
            let dp = tcx.def_path(did);
            let last = dp.data.last().map(|d| format!("{{{}}}", d.as_sym(true)).replace("{{", "{").replace("}}", "}")).unwrap_or_default();
            return format!("{}::{}", qual_name(tcx, parent), last);
        }
        _ => {}
    }
    let name = tcx.opt_item_name(did).map(|s| s.to_string()).unwrap_or_else(|| "?".into());
    let parent = match tcx.opt_parent(did) {
        Some(p) => p,
        None => return name,
    };
    match tcx.def_kind(parent) {
        DefKind::Impl { of_trait } => {
            let self_ty = tcx.type_of(parent).instantiate_identity().skip_norm_wip();
            let self_s = match self_ty.kind() {
                ty::Adt(adt, _) => def_str(tcx, adt.did()),
                _ => ty_str(self_ty),
            };
            if of_trait {
                let tr = tcx.impl_trait_ref(parent).instantiate_identity().skip_norm_wip();
                let tr_s = if tr.args.len() > 1 {
                    ty::print::with_no_trimmed_paths!(format!("{}", tr.print_only_trait_path()))
                } else {
                    def_str(tcx, tr.def_id)
                };
                format!("<{} as {}>::{}", self_s, tr_s, name)
            } else {
                format!("{}::{}", self_s, name)
            }
        }
        DefKind::Trait => format!("{}::{}", def_str(tcx, parent), name),
        DefKind::Mod => def_str(tcx, did),
        _ => format!("{}::{}", qual_name(tcx, parent), name),
    }
}

struct Cx<'tcx> {
    tcx: TyCtxt<'tcx>,
    tenv: TypingEnv<'tcx>,
}

fn scalar_json(bits: u128, size: u64, ty: Ty<'_>) -> J {
    let signed = matches!(ty.kind(), ty::Int(_));
    let val: i128 = if signed && size > 0 && size < 16 {
        let sh = 128 - size * 8;
        ((bits << sh) as i128) >> sh
    } else {
        bits as i128
    };
    J::obj(vec![("ty", J::s(ty_str(ty))), ("bits", J::s(format!("{}", bits))), ("val", J::s(format!("{}", val)))])
}

impl<'tcx> Cx<'tcx> {
    fn const_json(&self, c: &MirConst<'tcx>, span: Span) -> J {
        let tcx = self.tcx;
        let ty = c.ty();
        if let ty::FnDef(did, args) = ty.kind() {
            return J::obj(vec![("fn", self.callee_json(*did, args))]);
        }
        // scalar?
        if let Some(si) = c.try_eval_scalar_int(tcx, self.tenv) {
            let size = si.size().bytes();
            let bits = si.to_bits_unchecked();
            return scalar_json(bits, size, ty);
        }
        // evaluated value with bytes?
        if let Ok(val) = c.eval(tcx, self.tenv, span) {
            if let Some(bytes) = const_bytes(tcx, val, ty) {
                return J::obj(vec![
                    ("ty", J::s(ty_str(ty))),
                    ("bytes", J::Arr(bytes.iter().map(|b| J::Int(*b as i128)).collect())),
                ]);
            }
            if let mir::ConstValue::ZeroSized = val {
                return J::obj(vec![("ty", J::s(ty_str(ty))), ("zst", J::Bool(true))]);
            }
            // reference to a promoted integer / field-less enum value
            if let (mir::ConstValue::Scalar(mir::interpret::Scalar::Ptr(ptr, _)), ty::Ref(_, inner, _)) = (val, ty.kind()) {
                let is_int = matches!(inner.kind(), ty::Int(_) | ty::Uint(_) | ty::Bool);
                let enum_adt = match inner.kind() {
                    ty::Adt(adt, _) if adt.is_enum() && adt.variants().iter().all(|v| v.fields.is_empty()) => Some(*adt),
                    _ => None,
                };
                if is_int || enum_adt.is_some() {
                    if let Ok(l) = tcx.layout_of(TypingEnv::fully_monomorphized().as_query_input(*inner)) {
                        let n = l.size.bytes() as usize;
                        let (prov, off) = ptr.prov_and_relative_offset();
                        if let rustc_middle::mir::interpret::GlobalAlloc::Memory(alloc) = tcx.global_alloc(prov.alloc_id()) {
                            let start = off.bytes() as usize;
                            if n <= 16 {
                                let raw = alloc.inner().inspect_with_uninit_and_ptr_outside_interpreter(start..start + n);
                                let mut v: u128 = 0;
                                for (i, b) in raw.iter().enumerate() {
                                    v |= (*b as u128) << (8 * i);
                                }
                                let mut o: Vec<(&str, J)> = vec![("ty", J::s(ty_str(*inner))), ("bits", J::s(format!("{}", v)))];
                                if let Some(adt) = enum_adt {
                                    for (vidx, d) in adt.discriminants(tcx) {
                                        if d.val == v || (n == 0) {
                                            o.push(("variant", J::Int(vidx.as_usize() as i128)));
                                            o.push(("variant_name", J::s(adt.variant(vidx).name.to_string())));
                                            o.push(("adt", J::s(def_str(tcx, adt.did()))));
                                            break;
                                        }
                                    }
                                }
                                return J::obj(vec![("ty", J::s(ty_str(ty))), ("ref_const", J::obj(o))]);
                            }
                        }
                    }
                }
            }
        }
        // a promoted of a generic function (`&SIZE` in a trait default method) cannot be evaluated for lack of concrete type
        // arguments, but its body may just take the address of a constant that does not depend on them: `_1 = const K; _0 = &_1`
        if let MirConst::Unevaluated(uv, _) = c {
            if let Some(pidx) = uv.promoted {
                if let ty::Ref(_, inner, _) = ty.kind() {
                    if matches!(inner.kind(), ty::Int(_) | ty::Uint(_) | ty::Bool) {
                        let bodies = tcx.promoted_mir(uv.def);
                        if let Some(pb) = bodies.get(pidx) {
                            for bbd in pb.basic_blocks.iter() {
                                for st in bbd.statements.iter() {
                                    if let mir::StatementKind::Assign(bx) = &st.kind {
                                        if let Rvalue::Use(Operand::Constant(k), ..) = &bx.1 {
                                            if let Some(si) = k.const_.try_eval_scalar_int(tcx, self.tenv) {
                                                let j = scalar_json(si.to_bits_unchecked(), si.size().bytes(), *inner);
                                                if let J::Obj(o) = j {
                                                    let mut oo: Vec<(&str, J)> = vec![];
                                                    for (kk, x) in o {
                                                        if kk == "ty" { oo.push(("ty", x)); } else if kk == "val" { oo.push(("bits", x)); }
                                                    }
                                                    return J::obj(vec![("ty", J::s(ty_str(ty))), ("ref_const", J::obj(oo))]);
                                                }
                                            }
                                        }
                                    }
                                }
                            }
                        }
                    }
                }
            }
        }
        J::obj(vec![("ty", J::s(ty_str(ty))), ("opaque", J::s(format!("{}", c)))])
    }

    fn callee_json(&self, did: DefId, args: ty::GenericArgsRef<'tcx>) -> J {
        let tcx = self.tcx;
        let mut v: Vec<(&str, J)> = vec![
            ("path", J::s(def_str(tcx, did))),
            ("qual", J::s(qual_name(tcx, did))),
            ("id", J::s(def_id_str(tcx, did))),
            ("crate", J::s(tcx.crate_name(did.krate).to_string())),
            ("local", J::Bool(did.is_local())),
            (
                "generics",
                J::Arr(
                    args.iter()
                        .map(|a| J::s(ty::print::with_no_trimmed_paths!(a.to_string())))
                        .collect(),
                ),
            ),
        ];
        if let Some(tr) = tcx.trait_of_assoc(did) {
            v.push((
                "trait_method",
                J::obj(vec![
                    ("trait", J::s(def_str(tcx, tr))),
                    ("name", J::s(tcx.item_name(did).to_string())),
                ]),
            ));
        }
        match Instance::try_resolve(tcx, self.tenv, did, args) {
            Ok(Some(inst)) => {
                let rd = inst.def_id();
                v.push(("resolved", J::s(qual_name_safe(tcx, rd))));
                v.push(("resolved_id", J::s(def_id_str(tcx, rd))));
                v.push(("resolved_crate", J::s(tcx.crate_name(rd.krate).to_string())));
                v.push(("resolved_kind", J::s(format!("{:?}", std::mem::discriminant(&inst.def)).to_string())));
                let kind = match inst.def {
                    ty::InstanceKind::Item(_) => "item",
                    ty::InstanceKind::Intrinsic(_) => "intrinsic",
                    ty::InstanceKind::Virtual(..) => "virtual",
                    ty::InstanceKind::ClosureOnceShim { .. } => "closure_once_shim",
                    ty::InstanceKind::FnPtrShim(..) => "fn_ptr_shim",
                    ty::InstanceKind::DropGlue(..) => "drop_glue",
                    ty::InstanceKind::CloneShim(..) => "clone_shim",
                    _ => "other",
                };
                v.push(("resolved_inst", J::s(kind)));
                v.push((
                    "resolved_generics",
                    J::Arr(
                        inst.args
                            .iter()
                            .map(|a| J::s(ty::print::with_no_trimmed_paths!(a.to_string())))
                            .collect(),
                    ),
                ));
            }
            _ => {
                v.push(("resolved", J::Null));
            }
        }
        J::obj(v)
    }

    fn place_json(&self, body: &Body<'tcx>, p: &Place<'tcx>) -> J {
        let tcx = self.tcx;
        let mut proj = vec![];
        let mut pty = mir::PlaceTy::from_ty(body.local_decls[p.local].ty);
        for elem in p.projection.iter() {
            let j = match elem {
                PlaceElem::Deref => J::obj(vec![("k", J::s("deref"))]),
                PlaceElem::Field(f, fty) => {
                    let mut name = J::Null;
                    if let ty::Adt(adt, _) = pty.ty.kind() {
                        let vidx = pty.variant_index.unwrap_or(rustc_abi::FIRST_VARIANT);
                        if adt.is_enum() || adt.is_struct() || adt.is_union() {
                            if let Some(v) = adt.variants().get(vidx) {
                                if let Some(fd) = v.fields.get(f) {
                                    name = J::s(fd.name.to_string());
                                }
                            }
                        }
                    }
                    J::obj(vec![
                        ("k", J::s("field")),
                        ("i", J::Int(f.as_usize() as i128)),
                        ("name", name),
                        ("ty", J::s(ty_str(fty))),
                    ])
                }
                PlaceElem::Downcast(name, vidx) => J::obj(vec![
                    ("k", J::s("downcast")),
                    ("variant", J::Int(vidx.as_usize() as i128)),
                    ("name", J::opt_s(name.map(|s| s.to_string()))),
                ]),
                PlaceElem::Index(l) => {
                    J::obj(vec![("k", J::s("index")), ("local", J::Int(l.as_usize() as i128))])
                }
                PlaceElem::ConstantIndex { offset, min_length, from_end } => J::obj(vec![
                    ("k", J::s("const_index")),
                    ("offset", J::Int(offset as i128)),
                    ("min_length", J::Int(min_length as i128)),
                    ("from_end", J::Bool(from_end)),
                ]),
                PlaceElem::Subslice { from, to, from_end } => J::obj(vec![
                    ("k", J::s("subslice")),
                    ("from", J::Int(from as i128)),
                    ("to", J::Int(to as i128)),
                    ("from_end", J::Bool(from_end)),
                ]),
                other => J::obj(vec![("k", J::s("other")), ("text", J::s(format!("{:?}", other)))]),
            };
            proj.push(j);
            pty = pty.projection_ty(tcx, elem);
        }
        J::obj(vec![
            ("local", J::Int(p.local.as_usize() as i128)),
            ("proj", J::Arr(proj)),
            ("ty", J::s(ty_str(pty.ty))),
        ])
    }

    fn operand_json(&self, body: &Body<'tcx>, op: &Operand<'tcx>) -> J {
        match op {
            Operand::Copy(p) => J::obj(vec![("copy", self.place_json(body, p))]),
            Operand::Move(p) => J::obj(vec![("move", self.place_json(body, p))]),
            Operand::Constant(c) => J::obj(vec![("const", self.const_json(&c.const_, c.span))]),
            #[allow(unreachable_patterns)]
            other => J::obj(vec![("opaque", J::s(format!("{:?}", other)))]),
        }
    }

    fn rvalue_json(&self, body: &Body<'tcx>, rv: &Rvalue<'tcx>) -> J {
        let tcx = self.tcx;
        match rv {
            Rvalue::Use(op, ..) => J::obj(vec![("k", J::s("use")), ("op", self.operand_json(body, op))]),
            Rvalue::Ref(_, bk, p) => J::obj(vec![
                ("k", J::s("ref")),
                ("mut", J::Bool(matches!(bk, BorrowKind::Mut { .. }))),
                ("place", self.place_json(body, p)),
            ]),
            Rvalue::RawPtr(_, p) => {
                J::obj(vec![("k", J::s("rawptr")), ("place", self.place_json(body, p))])
            }
            Rvalue::Cast(kind, op, to) => {
                let from = op.ty(&body.local_decls, tcx);
                let kind_s = match kind {
                    CastKind::IntToInt => "IntToInt".to_string(),
                    CastKind::Transmute => "Transmute".to_string(),
                    CastKind::PtrToPtr => "PtrToPtr".to_string(),
                    CastKind::PointerCoercion(pc, _) => format!("PointerCoercion({:?})", pc),
                    other => format!("{:?}", other),
                };
                J::obj(vec![
                    ("k", J::s("cast")),
                    ("kind", J::s(kind_s)),
                    ("op", self.operand_json(body, op)),
                    ("from", J::s(ty_str(from))),
                    ("to", J::s(ty_str(*to))),
                ])
            }
            Rvalue::BinaryOp(op, lr) => {
                let (l, r) = &**lr;
                J::obj(vec![
                    ("k", J::s("bin")),
                    ("op", J::s(binop_str(*op))),
                    ("l", self.operand_json(body, l)),
                    ("r", self.operand_json(body, r)),
                    ("lty", J::s(ty_str(l.ty(&body.local_decls, tcx)))),
                ])
            }
            Rvalue::UnaryOp(op, x) => J::obj(vec![
                ("k", J::s("un")),
                ("op", J::s(unop_str(*op))),
                ("x", self.operand_json(body, x)),
                ("xty", J::s(ty_str(x.ty(&body.local_decls, tcx)))),
            ]),
            Rvalue::Discriminant(p) => {
                J::obj(vec![("k", J::s("discr")), ("place", self.place_json(body, p))])
            }
            Rvalue::Aggregate(kind, fields) => {
                let mut v: Vec<(&str, J)> = vec![("k", J::s("agg"))];
                match &**kind {
                    AggregateKind::Tuple => v.push(("agg", J::s("tuple"))),
                    AggregateKind::Array(t) => {
                        v.push(("agg", J::s("array")));
                        v.push(("elem_ty", J::s(ty_str(*t))));
                    }
                    AggregateKind::Adt(did, vidx, _args, _, active) => {
                        v.push(("agg", J::s("adt")));
                        v.push(("adt", J::s(def_str(tcx, *did))));
                        v.push(("variant", J::Int(vidx.as_usize() as i128)));
                        let adt = tcx.adt_def(*did);
                        let var = adt.variant(*vidx);
                        v.push(("variant_name", J::s(var.name.to_string())));
                        v.push((
                            "field_names",
                            J::Arr(var.fields.iter().map(|f| J::s(f.name.to_string())).collect()),
                        ));
                        if let Some(a) = active {
                            v.push(("active_field", J::Int(a.as_usize() as i128)));
                        }
                    }
                    AggregateKind::Closure(did, _) => {
                        v.push(("agg", J::s("closure")));
                        v.push(("closure", J::s(qual_name(tcx, *did))));
                    }
                    other => {
                        v.push(("agg", J::s("other")));
                        v.push(("text", J::s(format!("{:?}", other))));
                    }
                }
                v.push((
                    "fields",
                    J::Arr(fields.iter().map(|f| self.operand_json(body, f)).collect()),
                ));
                J::obj(v)
            }
            Rvalue::Repeat(op, n) => J::obj(vec![
                ("k", J::s("repeat")),
                ("op", self.operand_json(body, op)),
                ("n", J::s(format!("{}", n))),
            ]),
            Rvalue::CopyForDeref(p) => J::obj(vec![
                ("k", J::s("use")),
                ("op", J::obj(vec![("copy", self.place_json(body, p))])),
            ]),
            other => J::obj(vec![("k", J::s("other")), ("text", J::s(format!("{:?}", other)))]),
        }
    }

    fn body_json(&self, did: LocalDefId, body: &Body<'tcx>) -> J {
        let tcx = self.tcx;
        let mut locals = vec![];
        for (l, decl) in body.local_decls.iter_enumerated() {
            locals.push(J::obj(vec![
                ("i", J::Int(l.as_usize() as i128)),
                ("ty", J::s(ty_str(decl.ty))),
                ("mutable", J::Bool(decl.mutability.is_mut())),
            ]));
        }
        let mut dbg = vec![];
        for vdi in body.var_debug_info.iter() {
            if let mir::VarDebugInfoContents::Place(p) = &vdi.value {
                dbg.push(J::obj(vec![
                    ("name", J::s(vdi.name.to_string())),
                    ("place", self.place_json(body, p)),
                    ("arg", match vdi.argument_index { Some(i) => J::Int(i as i128), None => J::Null }),
                ]));
            }
        }
        let mut blocks = vec![];
        for (_bb, data) in body.basic_blocks.iter_enumerated() {
            let mut stmts = vec![];
            for st in data.statements.iter() {
                match &st.kind {
                    StatementKind::Assign(b) => {
                        let (p, rv) = &**b;
                        stmts.push(J::obj(vec![
                            ("k", J::s("assign")),
                            ("place", self.place_json(body, p)),
                            ("rv", self.rvalue_json(body, rv)),
                            ("span", span_json(tcx, st.source_info.span)),
                        ]));
                    }
                    StatementKind::SetDiscriminant { place, variant_index } => {
                        stmts.push(J::obj(vec![
                            ("k", J::s("set_discr")),
                            ("place", self.place_json(body, place)),
                            ("variant", J::Int(variant_index.as_usize() as i128)),
                            ("span", span_json(tcx, st.source_info.span)),
                        ]));
                    }
                    StatementKind::StorageLive(_)
                    | StatementKind::StorageDead(_)
                    | StatementKind::Nop
                    | StatementKind::FakeRead(..)
                    | StatementKind::PlaceMention(..)
                    | StatementKind::AscribeUserType(..)
                    | StatementKind::Coverage(..)
                    | StatementKind::ConstEvalCounter
                    | StatementKind::BackwardIncompatibleDropHint { .. } => {}
                    other => {
                        stmts.push(J::obj(vec![
                            ("k", J::s("other")),
                            ("text", J::s(format!("{:?}", other))),
                            ("span", span_json(tcx, st.source_info.span)),
                        ]));
                    }
                }
            }
            let term = data.terminator();
            let tspan = span_json(tcx, term.source_info.span);
            let tj = match &term.kind {
                TerminatorKind::Goto { target } => {
                    J::obj(vec![("k", J::s("goto")), ("target", J::Int(target.as_usize() as i128))])
                }
                TerminatorKind::SwitchInt { discr, targets } => {
                    let dty = discr.ty(&body.local_decls, tcx);
                    let mut ts = vec![];
                    for (v, t) in targets.iter() {
                        ts.push(J::Arr(vec![J::s(format!("{}", v)), J::Int(t.as_usize() as i128)]));
                    }
                    J::obj(vec![
                        ("k", J::s("switch")),
                        ("discr", self.operand_json(body, discr)),
                        ("discr_ty", J::s(ty_str(dty))),
                        ("targets", J::Arr(ts)),
                        ("otherwise", J::Int(targets.otherwise().as_usize() as i128)),
                    ])
                }
                TerminatorKind::Return => J::obj(vec![("k", J::s("return"))]),
                TerminatorKind::Unreachable => J::obj(vec![("k", J::s("unreachable"))]),
                TerminatorKind::UnwindResume => J::obj(vec![("k", J::s("resume"))]),
                TerminatorKind::UnwindTerminate(_) => J::obj(vec![("k", J::s("terminate"))]),
                TerminatorKind::Drop { place, target, .. } => {
                    let pty = place.ty(&body.local_decls, tcx).ty;
                    let needs = pty.needs_drop(tcx, self.tenv);
                    J::obj(vec![
                        ("k", J::s("drop")),
                        ("place", self.place_json(body, place)),
                        ("ty", J::s(ty_str(pty))),
                        ("needs_drop", J::Bool(needs)),
                        ("target", J::Int(target.as_usize() as i128)),
                    ])
                }
                TerminatorKind::Call { func, args, destination, target, unwind, .. } => {
                    let fty = func.ty(&body.local_decls, tcx);
                    let callee = match fty.kind() {
                        ty::FnDef(d, a) => self.callee_json(*d, a),
                        _ => J::obj(vec![("indirect", J::s(ty_str(fty)))]),
                    };
                    J::obj(vec![
                        ("k", J::s("call")),
                        ("callee", callee),
                        (
                            "args",
                            J::Arr(args.iter().map(|a| self.operand_json(body, &a.node)).collect()),
                        ),
                        ("dest", self.place_json(body, destination)),
                        (
                            "target",
                            match target {
                                Some(t) => J::Int(t.as_usize() as i128),
                                None => J::Null,
                            },
                        ),
                        ("unwind", J::s(format!("{:?}", unwind))),
                    ])
                }
                TerminatorKind::Assert { cond, expected, msg, target, .. } => {
                    let (kind, ops): (String, Vec<J>) = match &**msg {
                        mir::AssertKind::BoundsCheck { len, index } => (
                            "bounds".into(),
                            vec![self.operand_json(body, len), self.operand_json(body, index)],
                        ),
                        mir::AssertKind::Overflow(op, l, r) => (
                            format!("overflow({})", binop_str(*op)),
                            vec![self.operand_json(body, l), self.operand_json(body, r)],
                        ),
                        mir::AssertKind::OverflowNeg(x) => {
                            ("overflow_neg".into(), vec![self.operand_json(body, x)])
                        }
                        mir::AssertKind::DivisionByZero(x) => {
                            ("div_zero".into(), vec![self.operand_json(body, x)])
                        }
                        mir::AssertKind::RemainderByZero(x) => {
                            ("rem_zero".into(), vec![self.operand_json(body, x)])
                        }
                        other => (format!("other:{:?}", other), vec![]),
                    };
                    J::obj(vec![
                        ("k", J::s("assert")),
                        ("cond", self.operand_json(body, cond)),
                        ("expected", J::Bool(*expected)),
                        ("kind", J::s(kind)),
                        ("ops", J::Arr(ops)),
                        ("target", J::Int(target.as_usize() as i128)),
                    ])
                }
                other => J::obj(vec![("k", J::s("other")), ("text", J::s(format!("{:?}", other)))]),
            };
            let mut tv = match tj {
                J::Obj(v) => v,
                _ => unreachable!(),
            };
            tv.push(("span".to_string(), tspan));
            blocks.push(J::obj(vec![
                ("cleanup", J::Bool(data.is_cleanup)),
                ("stmts", J::Arr(stmts)),
                ("term", J::Obj(tv)),
            ]));
        }
        let _ = did;
        // crates defining the ADTs that occur in the types of locals (who owns the data this body handles)
        let mut adt_crates: Vec<(String, String)> = vec![];
        for decl in body.local_decls.iter() {
            for ga in decl.ty.walk() {
                if let Some(t) = ga.as_type() {
                    if let ty::Adt(adt, _) = t.kind() {
                        let e = (tcx.crate_name(adt.did().krate).to_string(), def_str(tcx, adt.did()));
                        if !adt_crates.contains(&e) {
                            adt_crates.push(e);
                        }
                    }
                }
            }
        }
        J::obj(vec![
            ("adt_crates", J::Arr(adt_crates.into_iter().map(|(c, p)| J::Arr(vec![J::s(c), J::s(p)])).collect())),
            ("arg_count", J::Int(body.arg_count as i128)),
            ("locals", J::Arr(locals)),
            ("debug", J::Arr(dbg)),
            ("blocks", J::Arr(blocks)),
        ])
    }
}

fn is_u8(t: Ty<'_>) -> bool {
    matches!(t.kind(), ty::Uint(ty::UintTy::U8))
}

/// bytes of a constant of type [u8; N], &[u8; N], &[u8] or &str
fn const_bytes<'tcx>(tcx: TyCtxt<'tcx>, val: mir::ConstValue, ty: Ty<'tcx>) -> Option<Vec<u8>> {
    match val {
        mir::ConstValue::Slice { .. } => match ty.kind() {
            ty::Ref(_, inner, _) => match inner.kind() {
                ty::Str => val.try_get_slice_bytes_for_diagnostics(tcx).map(|b| b.to_vec()),
                ty::Slice(e) if is_u8(*e) => val.try_get_slice_bytes_for_diagnostics(tcx).map(|b| b.to_vec()),
                _ => None,
            },
            _ => None,
        },
        mir::ConstValue::Indirect { alloc_id, offset } => match ty.kind() {
            ty::Array(e, _) if is_u8(*e) => {
                let l = tcx.layout_of(TypingEnv::fully_monomorphized().as_query_input(ty)).ok()?;
                let alloc = tcx.global_alloc(alloc_id).unwrap_memory();
                let start = offset.bytes() as usize;
                let end = start + l.size.bytes() as usize;
                Some(alloc.inner().inspect_with_uninit_and_ptr_outside_interpreter(start..end).to_vec())
            }
            ty::Ref(_, inner, _)
                if matches!(inner.kind(), ty::Str)
                    || matches!(inner.kind(), ty::Slice(e) if is_u8(*e)) =>
            {
                // fat pointer stored in memory: (relative offset with provenance, len)
                let alloc = tcx.global_alloc(alloc_id).unwrap_memory();
                let a = alloc.inner();
                let start = offset.bytes() as usize;
                let raw = a.inspect_with_uninit_and_ptr_outside_interpreter(start..start + 16).to_vec();
                let (_, prov) = a.provenance().ptrs().iter().next()?;
                let rel = u64::from_le_bytes(raw[0..8].try_into().ok()?) as usize;
                let len = u64::from_le_bytes(raw[8..16].try_into().ok()?) as usize;
                let tgt = tcx.global_alloc(prov.alloc_id()).unwrap_memory();
                Some(tgt.inner().inspect_with_uninit_and_ptr_outside_interpreter(rel..rel + len).to_vec())
            }
            _ => None,
        },
        mir::ConstValue::Scalar(mir::interpret::Scalar::Ptr(ptr, _)) => match ty.kind() {
            ty::Ref(_, inner, _) => match inner.kind() {
                ty::Array(e, _) if is_u8(*e) => {
                    let l = tcx.layout_of(TypingEnv::fully_monomorphized().as_query_input(*inner)).ok()?;
                    let (prov, off) = ptr.prov_and_relative_offset();
                    let alloc = tcx.global_alloc(prov.alloc_id()).unwrap_memory();
                    let start = off.bytes() as usize;
                    let end = start + l.size.bytes() as usize;
                    Some(alloc.inner().inspect_with_uninit_and_ptr_outside_interpreter(start..end).to_vec())
                }
                // `&&[u8]` / `&&str` (a promoted reference to a byte-string constant, e.g. the operand of `name != abi::ELF_NOTE_GNU`):
                // the pointee is a fat pointer (relative offset with provenance, len) stored in memory
                ty::Ref(_, inner2, _)
                    if matches!(inner2.kind(), ty::Str)
                        || matches!(inner2.kind(), ty::Slice(e) if is_u8(*e)) =>
                {
                    let (prov, off) = ptr.prov_and_relative_offset();
                    let alloc = tcx.global_alloc(prov.alloc_id()).unwrap_memory();
                    let a = alloc.inner();
                    let start = off.bytes() as usize;
                    if a.len() < start + 16 {
                        return None;
                    }
                    let raw = a.inspect_with_uninit_and_ptr_outside_interpreter(start..start + 16).to_vec();
                    let (_, prov2) = a.provenance().ptrs().iter().find(|(o, _)| o.bytes() as usize == start)?;
                    let rel = u64::from_le_bytes(raw[0..8].try_into().ok()?) as usize;
                    let len = u64::from_le_bytes(raw[8..16].try_into().ok()?) as usize;
                    let tgt = tcx.global_alloc(prov2.alloc_id()).unwrap_memory();
                    if tgt.inner().len() < rel + len {
                        return None;
                    }
                    Some(tgt.inner().inspect_with_uninit_and_ptr_outside_interpreter(rel..rel + len).to_vec())
                }
                _ => None,
            },
            _ => None,
        },
        _ => None,
    }
}

fn qual_name_safe(tcx: TyCtxt<'_>, did: DefId) -> String {
    match tcx.def_kind(did) {
        DefKind::Fn | DefKind::AssocFn | DefKind::Closure | DefKind::Ctor(..) => qual_name(tcx, did),
        _ => def_str(tcx, did),
    }
}

fn binop_str(op: BinOp) -> String {
    format!("{:?}", op)
}
fn unop_str(op: UnOp) -> String {
    format!("{:?}", op)
}

fn module_of(tcx: TyCtxt<'_>, did: DefId) -> String {
    let m = tcx.parent_module_from_def_id(did.expect_local());
    def_str(tcx, m.to_def_id())
}

fn scan<'tcx>(tcx: TyCtxt<'tcx>, crate_name: &str) -> J {
    let mut fns = vec![];
    let eff = tcx.effective_visibilities(());
    for &ldid in tcx.mir_keys(()).iter() {
        let did = ldid.to_def_id();
        let kind = tcx.def_kind(did);
        if !matches!(kind, DefKind::Fn | DefKind::AssocFn | DefKind::Closure) {
            continue;
        }
        let body = tcx.optimized_mir(did);
        let tenv = TypingEnv::post_analysis(tcx, did);
        let cx = Cx { tcx, tenv };
        let mut v: Vec<(&str, J)> = vec![
            ("id", J::s(def_id_str(tcx, did))),
            ("qual", J::s(qual_name(tcx, did))),
            ("pretty", J::s(def_str(tcx, did))),
            ("module", J::s(module_of(tcx, did))),
            ("kind", J::s(format!("{:?}", kind))),
            ("span", span_json(tcx, tcx.def_span(did))),
        ];
        if matches!(kind, DefKind::Fn | DefKind::AssocFn) {
            let vis = tcx.visibility(did);
            v.push(("vis", J::s(if vis.is_public() { "pub".to_string() } else { format!("{:?}", vis) })));
            v.push(("reachable_pub", J::Bool(eff.is_reachable(ldid))));
            let sig = tcx.fn_sig(did).instantiate_identity().skip_norm_wip();
            let sig = sig.skip_binder();
            v.push((
                "sig",
                J::obj(vec![
                    ("inputs", J::Arr(sig.inputs().iter().map(|t| J::s(ty_str(*t))).collect())),
                    ("output", J::s(ty_str(sig.output()))),
                ]),
            ));
            let attrs: Vec<J> = tcx
                .codegen_fn_attrs(did)
                .inline
                .clone()
                .pipe(|i| vec![J::s(format!("{:?}", i))]);
            v.push(("inline", J::Arr(attrs)));
        }
        if let Some(parent) = tcx.opt_parent(did) {
            match tcx.def_kind(parent) {
                DefKind::Impl { of_trait } => {
                    let self_ty = tcx.type_of(parent).instantiate_identity().skip_norm_wip();
                    let mut iv = vec![("self", J::s(ty_str(self_ty)))];
                    if of_trait {
                        let tr = tcx.impl_trait_ref(parent).instantiate_identity().skip_norm_wip();
                        iv.push(("trait", J::s(def_str(tcx, tr.def_id))));
                    }
                    v.push(("impl", J::obj(iv)));
                }
                DefKind::Trait => {
                    v.push(("trait_default", J::s(def_str(tcx, parent))));
                }
                _ => {}
            }
            if matches!(kind, DefKind::Closure) {
                v.push(("parent", J::s(qual_name(tcx, parent))));
            }
        }
        // trait bounds on type parameters (own + inherited), for resolving calls made on a type parameter
        {
            let mut bounds: Vec<J> = vec![];
            let owner = if matches!(kind, DefKind::Closure) { tcx.typeck_root_def_id(did) } else { did };
            let preds = tcx.predicates_of(owner).instantiate_identity(tcx);
            for cl in preds.predicates.iter() {
                let cl = cl.skip_norm_wip();
                if let ty::ClauseKind::Trait(tp) = cl.kind().skip_binder() {
                    let st = tp.self_ty();
                    if let ty::Param(pt) = st.kind() {
                        bounds.push(J::obj(vec![
                            ("param", J::s(pt.name.to_string())),
                            ("trait", J::s(def_str(tcx, tp.def_id()))),
                        ]));
                    }
                }
            }
            v.push(("bounds", J::Arr(bounds)));
        }
        // names of the generic parameters (parents first), aligned with the `generics` list of a call to this function
        {
            let ids = ty::GenericArgs::identity_for_item(tcx, did);
            v.push((
                "generic_params",
                J::Arr(ids.iter().map(|a| J::s(ty::print::with_no_trimmed_paths!(a.to_string()))).collect()),
            ));
        }
        v.push(("body", cx.body_json(ldid, body)));
        fns.push(J::obj(v));
    }

    // ---- crate level -------------------------------------------------------------
    let deps: Vec<J> = tcx.crates(()).iter().map(|c| J::s(tcx.crate_name(*c).to_string())).collect();

    // lint level of unsafe_code at the crate root
    let forbid_unsafe = {
        let store = rustc_lint::unerased_lint_store(tcx.sess);
        let ids = store.find_lints("unsafe_code").expect("unsafe_code lint");
        let lvl = tcx.lint_level_at_node(ids[0].lint, rustc_hir::CRATE_HIR_ID);
        format!("{:?}", lvl.level)
    };

    let mut adts = vec![];
    let mut consts = vec![];
    let mut aliases = vec![];
    let mut impls = vec![];
    let mut traits = vec![];
    let items = tcx.hir_crate_items(());
    for ldid in items.definitions() {
        let did = ldid.to_def_id();
        match tcx.def_kind(did) {
            DefKind::Struct | DefKind::Enum | DefKind::Union => {
                let adt = tcx.adt_def(did);
                let mut variants = vec![];
                for var in adt.variants().iter() {
                    let fields: Vec<J> = var
                        .fields
                        .iter()
                        .map(|f| {
                            let fty = tcx.type_of(f.did).instantiate_identity().skip_norm_wip();
                            J::obj(vec![
                                ("name", J::s(f.name.to_string())),
                                ("ty", J::s(ty_str(fty))),
                                ("vis", J::s(if f.vis.is_public() { "pub".into() } else { format!("{:?}", f.vis) })),
                            ])
                        })
                        .collect();
                    variants.push(J::obj(vec![("name", J::s(var.name.to_string())), ("fields", J::Arr(fields))]));
                }
                let repr_c = adt.repr().c();
                let generics = tcx.generics_of(did);
                let has_ty_params = generics.own_params.iter().any(|p| !matches!(p.kind, ty::GenericParamDefKind::Lifetime));
                let mut layout = J::Null;
                if !has_ty_params {
                    let ty = tcx.type_of(did).instantiate_identity().skip_norm_wip();
                    let tenv = TypingEnv::fully_monomorphized();
                    if let Ok(l) = tcx.layout_of(tenv.as_query_input(ty)) {
                        let mut offs = vec![];
                        if adt.is_struct() {
                            let lcx = ty::layout::LayoutCx::new(tcx, tenv);
                            for i in 0..l.fields.count() {
                                let f = l.field(&lcx, i);
                                offs.push(J::obj(vec![
                                    ("offset", J::Int(l.fields.offset(i).bytes() as i128)),
                                    ("size", J::Int(f.size.bytes() as i128)),
                                ]));
                            }
                        }
                        layout = J::obj(vec![
                            ("size", J::Int(l.size.bytes() as i128)),
                            ("align", J::Int(l.align.abi.bytes() as i128)),
                            ("fields", J::Arr(offs)),
                        ]);
                    }
                }
                adts.push(J::obj(vec![
                    ("path", J::s(def_str(tcx, did))),
                    ("kind", J::s(format!("{:?}", adt.adt_kind()))),
                    ("repr_c", J::Bool(repr_c)),
                    ("variants", J::Arr(variants)),
                    ("layout", layout),
                    ("has_dtor", J::Bool(adt.destructor(tcx).is_some())),
                    ("vis", J::s(if tcx.visibility(did).is_public() { "pub".into() } else { "priv".to_string() })),
                    ("reachable_pub", J::Bool(eff.is_reachable(ldid))),
                    ("span", span_json(tcx, tcx.def_span(did))),
                ]));
            }
            DefKind::Const { .. } | DefKind::AssocConst { .. } => {
                let ty = tcx.type_of(did).instantiate_identity().skip_norm_wip();
                let generics = tcx.generics_of(did);
                if generics.count() > 0 || generics.parent.map(|p| tcx.generics_of(p).count() > 0).unwrap_or(false) {
                    continue;
                }
                let mut v: Vec<(&str, J)> = vec![
                    ("path", J::s(def_str(tcx, did))),
                    ("name", J::s(tcx.item_name(did).to_string())),
                    ("module", J::s(module_of(tcx, did))),
                    ("ty", J::s(ty_str(ty))),
                    ("vis", J::s(if tcx.visibility(did).is_public() { "pub".into() } else { "priv".to_string() })),
                    ("reachable_pub", J::Bool(eff.is_reachable(ldid))),
                    ("span", span_json(tcx, tcx.def_span(did))),
                ];
                match tcx.const_eval_poly(did) {
                    Ok(val) => {
                        if let Some(si) = val.try_to_scalar_int() {
                            let j = scalar_json(si.to_bits_unchecked(), si.size().bytes(), ty);
                            if let J::Obj(o) = j {
                                for (k, x) in o {
                                    if k == "bits" { v.push(("bits", x)); } else if k == "val" { v.push(("val", x)); }
                                }
                            }
                        } else if let Some(bytes) = const_bytes(tcx, val, ty) {
                            v.push(("bytes", J::Arr(bytes.iter().map(|b| J::Int(*b as i128)).collect())));
                        } else {
                            v.push(("opaque", J::s(format!("{:?}", val))));
                        }
                    }
                    Err(_) => v.push(("opaque", J::s("const-eval-failed"))),
                }
                consts.push(J::obj(v));
            }
            DefKind::TyAlias => {
                let ty = tcx.type_of(did).instantiate_identity().skip_norm_wip();
                aliases.push(J::obj(vec![
                    ("path", J::s(def_str(tcx, did))),
                    ("target", J::s(ty_str(ty))),
                    ("span", span_json(tcx, tcx.def_span(did))),
                ]));
            }
            DefKind::Trait => {
                let mut methods = vec![];
                for it in tcx.associated_items(did).in_definition_order() {
                    methods.push(J::obj(vec![
                        ("name", J::s(it.name().to_string())),
                        ("kind", J::s(format!("{:?}", it.kind).split('{').next().unwrap_or("").trim().to_string())),
                        ("has_default", J::Bool(it.defaultness(tcx).has_value())),
                    ]));
                }
                traits.push(J::obj(vec![("path", J::s(def_str(tcx, did))), ("items", J::Arr(methods))]));
            }
            DefKind::Impl { of_trait } => {
                let self_ty = tcx.type_of(did).instantiate_identity().skip_norm_wip();
                let mut v: Vec<(&str, J)> = vec![
                    ("self", J::s(ty_str(self_ty))),
                    ("self_adt", match self_ty.kind() { ty::Adt(a, _) => J::s(def_str(tcx, a.did())), _ => J::Null }),
                    ("span", span_json(tcx, tcx.def_span(did))),
                ];
                if of_trait {
                    let tr = tcx.impl_trait_ref(did).instantiate_identity().skip_norm_wip();
                    v.push(("trait", J::s(def_str(tcx, tr.def_id))));
                    v.push(("trait_crate", J::s(tcx.crate_name(tr.def_id.krate).to_string())));
                } else {
                    v.push(("trait", J::Null));
                }
                let mut items_v = vec![];
                for it in tcx.associated_items(did).in_definition_order() {
                    items_v.push(J::obj(vec![
                        ("name", J::s(it.name().to_string())),
                        ("qual", J::s(qual_name_safe(tcx, it.def_id))),
                    ]));
                }
                v.push(("items", J::Arr(items_v)));
                impls.push(J::obj(v));
            }
            _ => {}
        }
    }

    // ---- HIR match tables of fns in module to_str -------------------------------------
    let mut match_tables = vec![];
    for ldid in items.definitions() {
        let did = ldid.to_def_id();
        if !matches!(tcx.def_kind(did), DefKind::Fn) {
            continue;
        }
        if let Some(t) = match_table(tcx, ldid) {
            match_tables.push(t);
        }
    }

    let dl = &tcx.data_layout;
    J::obj(vec![
        ("schema", J::Int(1)),
        ("crate", J::s(crate_name)),
        (
            "config",
            J::obj(vec![
                ("target", J::s(tcx.sess.opts.target_triple.to_string())),
                ("ptr_bits", J::Int(dl.pointer_size().bits() as i128)),
                ("endian", J::s(match dl.endian { rustc_abi::Endian::Little => "little", rustc_abi::Endian::Big => "big" })),
                ("overflow_checks", J::Bool(tcx.sess.overflow_checks())),
                ("debug_assertions", J::Bool(tcx.sess.opts.debug_assertions)),
                ("mir_opt_level", J::Int(tcx.sess.mir_opt_level() as i128)),
                ("features", J::Arr(cfg_features(tcx))),
                ("test", J::Bool(tcx.sess.opts.test)),
            ]),
        ),
        ("deps", J::Arr(deps)),
        ("unsafe_code_level", J::s(forbid_unsafe)),
        ("no_std", J::Bool(is_no_std(tcx))),
        ("adts", J::Arr(adts)),
        ("consts", J::Arr(consts)),
        ("aliases", J::Arr(aliases)),
        ("traits", J::Arr(traits)),
        ("impls", J::Arr(impls)),
        ("match_tables", J::Arr(match_tables)),
        ("fns", J::Arr(fns)),
    ])
}

fn is_no_std(tcx: TyCtxt<'_>) -> bool {
    !tcx.crates(()).iter().any(|c| tcx.crate_name(*c).as_str() == "std")
}

fn cfg_features(tcx: TyCtxt<'_>) -> Vec<J> {
    let mut v = vec![];
    for (name, val) in tcx.sess.config.iter() {
        if name.as_str() == "feature" {
            if let Some(val) = val {
                v.push(J::s(val.to_string()));
            }
        }
    }
    v.sort_by_key(|j| match j { J::Str(s) => s.clone(), _ => String::new() });
    v
}

trait Pipe: Sized {
    fn pipe<R>(self, f: impl FnOnce(Self) -> R) -> R {
        f(self)
    }
}
impl<T> Pipe for T {}

/// If the function body is `match <param> { PAT => EXPR, ... }` (possibly wrapped in a block),
/// export each arm: the constant the pattern resolves to (or literal) and the arm's value when it
/// is `Some("literal")` / `"literal"` / `None`.
fn match_table<'tcx>(tcx: TyCtxt<'tcx>, ldid: LocalDefId) -> Option<J> {
    use rustc_hir as hir;
    let body = tcx.hir_body_owned_by(ldid);
    let typeck = tcx.typeck(ldid);
    let mut e = body.value;
    loop {
        match e.kind {
            hir::ExprKind::Block(b, _) if b.stmts.is_empty() && b.expr.is_some() => e = b.expr.unwrap(),
            hir::ExprKind::DropTemps(x) => e = x,
            _ => break,
        }
    }
    let (scrut, arms) = match e.kind {
        hir::ExprKind::Match(s, arms, hir::MatchSource::Normal) => (s, arms),
        _ => return None,
    };
    // scrutinee must be a plain path to a parameter
    let scrut_name = match scrut.kind {
        hir::ExprKind::Path(hir::QPath::Resolved(None, p)) => match p.res {
            Res::Local(_) => p.segments.last().map(|s| s.ident.to_string()),
            _ => None,
        },
        _ => None,
    };
    let params: Vec<J> = body
        .params
        .iter()
        .map(|p| match p.pat.kind {
            hir::PatKind::Binding(_, _, id, _) => J::s(id.to_string()),
            _ => J::Null,
        })
        .collect();
    let mut out_arms = vec![];
    for arm in arms.iter() {
        let mut pats: Vec<&hir::Pat<'_>> = vec![];
        match arm.pat.kind {
            hir::PatKind::Or(ps) => {
                for p in ps.iter() {
                    pats.push(p);
                }
            }
            _ => pats.push(arm.pat),
        }
        let body_j = arm_value(tcx, arm.body);
        for p in pats {
            let mut v: Vec<(&str, J)> = vec![("span", span_json(tcx, p.span)), ("guard", J::Bool(arm.guard.is_some()))];
            match p.kind {
                hir::PatKind::Wild => v.push(("pat", J::s("wild"))),
                hir::PatKind::Binding(..) => v.push(("pat", J::s("binding"))),
                hir::PatKind::Expr(pe) => match pe.kind {
                    hir::PatExprKind::Path(ref qp) => {
                        let res = typeck.qpath_res(qp, pe.hir_id);
                        match res {
                            Res::Def(DefKind::Const { .. }, cdid) | Res::Def(DefKind::AssocConst { .. }, cdid) => {
                                v.push(("pat", J::s("const")));
                                v.push(("const", J::s(def_str(tcx, cdid))));
                                v.push(("const_name", J::s(tcx.item_name(cdid).to_string())));
                                if let Ok(val) = tcx.const_eval_poly(cdid) {
                                    if let Some(si) = val.try_to_scalar_int() {
                                        let cty = tcx.type_of(cdid).instantiate_identity().skip_norm_wip();
                                        if let J::Obj(o) = scalar_json(si.to_bits_unchecked(), si.size().bytes(), cty) {
                                            for (k, x) in o {
                                                if k == "val" { v.push(("val", x)); }
                                            }
                                        }
                                    }
                                }
                            }
                            other => {
                                v.push(("pat", J::s("path")));
                                v.push(("text", J::s(format!("{:?}", other))));
                            }
                        }
                    }
                    hir::PatExprKind::Lit { lit, negated } => {
                        v.push(("pat", J::s("lit")));
                        v.push(("negated", J::Bool(negated)));
                        v.push(("text", J::s(format!("{:?}", lit.node))));
                        if let rustc_ast::LitKind::Int(n, _) = lit.node {
                            v.push(("val", J::s(format!("{}", n.get()))));
                        }
                    }
                    #[allow(unreachable_patterns)]
                    _ => v.push(("pat", J::s("other"))),
                },
                _ => {
                    v.push(("pat", J::s("other")));
                }
            }
            v.push(("value", body_j.clone()));
            out_arms.push(J::obj(v));
        }
    }
    Some(J::obj(vec![
        ("fn", J::s(qual_name(tcx, ldid.to_def_id()))),
        ("name", J::s(tcx.item_name(ldid.to_def_id()).to_string())),
        ("module", J::s(module_of(tcx, ldid.to_def_id()))),
        ("params", J::Arr(params)),
        ("scrutinee", J::opt_s(scrut_name)),
        ("sig_output", J::s(ty_str(tcx.fn_sig(ldid.to_def_id()).instantiate_identity().skip_norm_wip().skip_binder().output()))),
        ("arms", J::Arr(out_arms)),
        ("span", span_json(tcx, tcx.def_span(ldid.to_def_id()))),
    ]))
}

fn arm_value<'tcx>(tcx: TyCtxt<'tcx>, mut e: &rustc_hir::Expr<'tcx>) -> J {
    use rustc_hir as hir;
    loop {
        match e.kind {
            hir::ExprKind::Block(b, _) if b.stmts.is_empty() && b.expr.is_some() => e = b.expr.unwrap(),
            hir::ExprKind::DropTemps(x) => e = x,
            _ => break,
        }
    }
    match e.kind {
        hir::ExprKind::Lit(l) => match l.node {
            rustc_ast::LitKind::Str(s, _) => J::obj(vec![("str", J::s(s.to_string()))]),
            _ => J::obj(vec![("lit", J::s(format!("{:?}", l.node)))]),
        },
        hir::ExprKind::Path(hir::QPath::Resolved(None, p)) => {
            let n = p.segments.last().map(|s| s.ident.to_string()).unwrap_or_default();
            J::obj(vec![("path", J::s(n))])
        }
        hir::ExprKind::Call(f, args) => {
            let fname = match f.kind {
                hir::ExprKind::Path(hir::QPath::Resolved(None, p)) => {
                    p.segments.last().map(|s| s.ident.to_string()).unwrap_or_default()
                }
                _ => "?".to_string(),
            };
            J::obj(vec![
                ("call", J::s(fname)),
                ("args", J::Arr(args.iter().map(|a| arm_value(tcx, a)).collect())),
            ])
        }
        _ => J::obj(vec![("other", J::s(tcx.sess.source_map().span_to_snippet(e.span).unwrap_or_default()))]),
    }
}
